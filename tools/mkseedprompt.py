import json,sys
pid=sys.argv[1]; n=sys.argv[2]; hint=sys.argv[3] if len(sys.argv)>3 else ""
for l in open('/verif/properties.jsonl'):
    p=json.loads(l)
    if p['id']==pid: break
wt="/tmp/seed/%s-%s"%(pid,n)
print(f"""You are helping to evaluate a verification framework by producing ONE realistic, subtle defect ("seeded change") in a Go code base.

Code base: apache/skywalking-banyandb (an observability time-series database). Your private scratch checkout (a git worktree) is at {wt} . Work ONLY inside {wt} (and /tmp scratch files). Never touch /repo or /verif and do not read anything under /verif.

The semantic property your change must BREAK:

id: {p['id']}
title: {p['title']}
statement: {p['statement']}
quantified over: {p['quantifier']['text']}
code anchors (files the property lives in): {', '.join(p['anchors']['files'])}
mechanisms meant to make it hold: {json.dumps(p['anchors'].get('mechanism',[]))}

What to deliver
1. A small source change (a few lines, in non-test .go files under {wt}) that makes the property false for SOME inputs / histories / schedules, while the code still compiles and the existing test suite still passes. It must look like a plausible programming mistake or an "optimisation" a maintainer could merge, not sabotage, and it must NOT be exposed by ordinary use at once: it should need something specific to manifest — an unusual input or boundary value, a multi-step sequence of operations, a crash or fault at a particular point, a particular interleaving, or two cooperating sites that each look fine alone. {hint}
2. A demonstration: a Go test file named seeded_demo_test.go in the relevant package (or a small program) that FAILS with your change and PASSES without it, exercising the real code.
3. A file {wt}/SEED_REPORT.md saying: which files you changed and why it breaks the property, exactly what is needed for the breakage to manifest, the exact commands you ran (demo with and without the change, existing tests) and their results.
Leave the change and the demo as uncommitted modifications in {wt} (do not commit).

Build notes (important — the sandbox is offline)
- The repository ships no generated protobuf code, so most packages do not compile with plain `go`. Use the wrapper /opt/bydb-build/bygo, which injects pre-generated stubs via `go -overlay`:
    /opt/bydb-build/bygo {wt} --mask banyand/measure test -count=1 -run TestSeeded ./banyand/measure/
  `--mask <pkgdir>` hides the upstream *_test.go files of that package (some need gomock mocks that do not exist here and break the test build); files named seeded_*_test.go are kept. Run `/opt/bydb-build/bygo` without arguments for help. First build of an engine package takes 1-3 minutes.
- "The existing test suite" is the pinned baseline: `cd {wt} && GOFLAGS=-mod=mod GOPROXY=off go test -vet=off -count=1 ./... 2>&1 | grep -v 'build failed\\|setup failed\\|no test files'` — only leaf packages build there (that is expected and identical before your change; about 987 tests pass). Every test that passes before your change must still pass after it. Additionally, where the upstream tests of the package you touched compile under bygo (try without --mask, or mask only what does not build), run them too and make sure none of them newly fails; say in the report what you could run.
- To see the demo pass without the change: `git -C {wt} stash` is awkward with untracked demo files; simplest is `git -C {wt} diff > /tmp/seed/{pid}-{n}.patch; git -C {wt} apply -R /tmp/seed/{pid}-{n}.patch; <run demo>; git -C {wt} apply /tmp/seed/{pid}-{n}.patch`.
- No network. Do not add dependencies. Keep the change minimal. Do not modify existing tests.

Finish with a short summary of the change and how it manifests.""")
