module protolite

go 1.25.13

require (
	cloud.google.com/go/storage v1.64.0
	github.com/Azure/azure-sdk-for-go/sdk/azcore v1.23.0
	github.com/Azure/azure-sdk-for-go/sdk/storage/azblob v1.8.0
	github.com/RoaringBitmap/roaring v1.9.4
	github.com/SkyAPM/ktm-ebpf v0.0.0-20260228024820-81a19d950bff
	github.com/alecthomas/participle/v2 v2.1.4
	github.com/apache/skywalking-cli v0.0.0-20240227151024-ee371a210afe
	github.com/aws/aws-sdk-go-v2 v1.43.6
	github.com/aws/aws-sdk-go-v2/config v1.32.37
	github.com/aws/aws-sdk-go-v2/service/s3 v1.107.2
	github.com/benbjohnson/clock v1.3.5
	github.com/blugelabs/bluge v0.2.2
	github.com/cespare/xxhash/v2 v2.3.0
	github.com/charmbracelet/bubbles v1.0.0
	github.com/charmbracelet/bubbletea v1.3.10
	github.com/charmbracelet/glamour v0.9.1
	github.com/charmbracelet/lipgloss v1.1.0
	github.com/charmbracelet/x/ansi v0.11.7
	github.com/cilium/ebpf v0.22.0
	github.com/emirpasic/gods v1.18.1
	github.com/envoyproxy/protoc-gen-validate v1.3.3
	github.com/go-chi/chi/v5 v5.3.1
	github.com/go-resty/resty/v2 v2.17.2
	github.com/google/go-cmp v0.7.0
	github.com/google/uuid v1.6.0
	github.com/grpc-ecosystem/go-grpc-middleware/v2 v2.3.3
	github.com/grpc-ecosystem/grpc-gateway/v2 v2.30.0
	github.com/hashicorp/golang-lru v1.0.2
	github.com/minio/minio-go/v7 v7.3.0
	github.com/montanaflynn/stats v0.12.3
	github.com/oklog/run v1.2.0
	github.com/onsi/ginkgo/v2 v2.32.1
	github.com/onsi/gomega v1.42.1
	github.com/ory/dockertest/v3 v3.12.0
	github.com/pkg/errors v0.9.1
	github.com/prometheus/client_golang v1.24.1
	github.com/rs/zerolog v1.35.1
	github.com/spf13/cobra v1.10.2
	github.com/spf13/pflag v1.0.10
	github.com/spf13/viper v1.21.0
	github.com/stretchr/testify v1.11.1
	github.com/urfave/cli/v2 v2.27.7
	github.com/xhit/go-str2duration/v2 v2.1.0
	go.uber.org/automaxprocs v1.6.0
	go.uber.org/mock v0.6.0
	go.uber.org/multierr v1.11.0
	golang.org/x/exp v0.0.0-20260813180055-c1d0aacb2297
	golang.org/x/mod v0.40.0
	golang.org/x/oauth2 v0.36.0
	golang.org/x/sync v0.22.0
	google.golang.org/api v0.293.0
	google.golang.org/genproto/googleapis/api v0.0.0-20260810153831-ec0a7760b754
	google.golang.org/genproto/googleapis/rpc v0.0.0-20260810153831-ec0a7760b754
	google.golang.org/grpc v1.83.0
	google.golang.org/protobuf v1.36.12
	sigs.k8s.io/yaml v1.6.0
	skywalking.apache.org/repo/goapi v0.0.0-20260521015734-5c05525a3cce
)

require (
	cel.dev/expr v0.25.3 // indirect
	cloud.google.com/go v0.123.0 // indirect
	cloud.google.com/go/auth v0.23.1 // indirect
	cloud.google.com/go/auth/oauth2adapt v0.2.8 // indirect
	cloud.google.com/go/compute/metadata v0.9.0 // indirect
	cloud.google.com/go/iam v1.13.0 // indirect
	cloud.google.com/go/monitoring v1.30.0 // indirect
	dario.cat/mergo v1.0.2 // indirect
	github.com/Azure/azure-sdk-for-go/sdk/internal v1.12.0 // indirect
	github.com/Azure/go-ansiterm v0.0.0-20250102033503-faa5f7b0171c // indirect
	github.com/GoogleCloudPlatform/opentelemetry-operations-go/detectors/gcp v1.35.0 // indirect
	github.com/GoogleCloudPlatform/opentelemetry-operations-go/exporter/metric v0.59.0 // indirect
	github.com/GoogleCloudPlatform/opentelemetry-operations-go/internal/resourcemapping v0.59.0 // indirect
	github.com/Masterminds/semver/v3 v3.5.0 // indirect
	github.com/Microsoft/go-winio v0.6.2 // indirect
	github.com/Nvveen/Gotty v0.0.0-20120604004816-cd527374f1e5 // indirect
	github.com/VictoriaMetrics/fastcache v1.13.3 // indirect
	github.com/alecthomas/chroma/v2 v2.24.1 // indirect
	github.com/atotto/clipboard v0.1.4 // indirect
	github.com/aws/aws-sdk-go-v2/aws/protocol/eventstream v1.7.18 // indirect
	github.com/aws/aws-sdk-go-v2/credentials v1.19.36 // indirect
	github.com/aws/aws-sdk-go-v2/feature/ec2/imds v1.18.37 // indirect
	github.com/aws/aws-sdk-go-v2/internal/configsources v1.4.37 // indirect
	github.com/aws/aws-sdk-go-v2/internal/endpoints/v2 v2.7.37 // indirect
	github.com/aws/aws-sdk-go-v2/internal/v4a v1.4.38 // indirect
	github.com/aws/aws-sdk-go-v2/service/internal/accept-encoding v1.13.17 // indirect
	github.com/aws/aws-sdk-go-v2/service/internal/checksum v1.9.30 // indirect
	github.com/aws/aws-sdk-go-v2/service/internal/presigned-url v1.13.37 // indirect
	github.com/aws/aws-sdk-go-v2/service/internal/s3shared v1.19.38 // indirect
	github.com/aws/aws-sdk-go-v2/service/signin v1.5.6 // indirect
	github.com/aws/aws-sdk-go-v2/service/sso v1.33.6 // indirect
	github.com/aws/aws-sdk-go-v2/service/ssooidc v1.38.6 // indirect
	github.com/aws/aws-sdk-go-v2/service/sts v1.45.6 // indirect
	github.com/aws/smithy-go v1.27.8 // indirect
	github.com/aymanbagabas/go-osc52/v2 v2.0.1 // indirect
	github.com/aymerick/douceur v0.2.0 // indirect
	github.com/charmbracelet/colorprofile v0.4.3 // indirect
	github.com/charmbracelet/x/cellbuf v0.0.15 // indirect
	github.com/charmbracelet/x/term v0.2.2 // indirect
	github.com/clipperhouse/displaywidth v0.11.0 // indirect
	github.com/clipperhouse/uax29/v2 v2.7.0 // indirect
	github.com/cncf/xds/go v0.0.0-20260202195803-dba9d589def2 // indirect
	github.com/containerd/continuity v0.5.0 // indirect
	github.com/containerd/errdefs v1.0.0 // indirect
	github.com/containerd/errdefs/pkg v0.3.0 // indirect
	github.com/cpuguy83/go-md2man/v2 v2.0.7 // indirect
	github.com/davecgh/go-spew v1.1.2-0.20180830191138-d8f796af33cc // indirect
	github.com/distribution/reference v0.6.0 // indirect
	github.com/dlclark/regexp2 v1.12.0 // indirect
	github.com/docker/cli v29.7.2+incompatible // indirect
	github.com/docker/go-connections v0.8.1 // indirect
	github.com/docker/go-units v0.5.0 // indirect
	github.com/envoyproxy/go-control-plane/envoy v1.37.0 // indirect
	github.com/erikgeiser/coninput v0.0.0-20211004153227-1c3628e74d0f // indirect
	github.com/felixge/httpsnoop v1.1.0 // indirect
	github.com/go-jose/go-jose/v4 v4.1.4 // indirect
	github.com/go-task/slim-sprig/v3 v3.0.0 // indirect
	github.com/go-viper/mapstructure/v2 v2.5.0 // indirect
	github.com/golang/snappy v1.0.0 // indirect
	github.com/google/s2a-go v0.1.9 // indirect
	github.com/google/shlex v0.0.0-20191202100458-e7afc7fbc510 // indirect
	github.com/googleapis/enterprise-certificate-proxy v0.3.21 // indirect
	github.com/googleapis/gax-go/v2 v2.23.0 // indirect
	github.com/gorilla/css v1.0.1 // indirect
	github.com/kamstrup/intmap v0.5.2 // indirect
	github.com/klauspost/cpuid/v2 v2.4.0 // indirect
	github.com/klauspost/crc32 v1.3.0 // indirect
	github.com/lucasb-eyer/go-colorful v1.4.0 // indirect
	github.com/machinebox/graphql v0.2.2 // indirect
	github.com/mattn/go-localereader v0.0.1 // indirect
	github.com/mattn/go-runewidth v0.0.23 // indirect
	github.com/microcosm-cc/bluemonday v1.0.27 // indirect
	github.com/minio/crc64nvme v1.1.1 // indirect
	github.com/minio/md5-simd v1.1.2 // indirect
	github.com/moby/docker-image-spec v1.3.1 // indirect
	github.com/moby/moby/api v1.55.0 // indirect
	github.com/moby/moby/client v0.5.1 // indirect
	github.com/moby/sys/user v0.4.1 // indirect
	github.com/moby/term v0.5.2 // indirect
	github.com/muesli/ansi v0.0.0-20230316100256-276c6243b2f6 // indirect
	github.com/muesli/cancelreader v0.2.2 // indirect
	github.com/muesli/reflow v0.3.0 // indirect
	github.com/muesli/termenv v0.16.0 // indirect
	github.com/munnerz/goautoneg v0.0.0-20191010083416-a7dc8b61c822 // indirect
	github.com/opencontainers/go-digest v1.0.0 // indirect
	github.com/opencontainers/image-spec v1.1.1 // indirect
	github.com/opencontainers/runc v1.3.6 // indirect
	github.com/philhofer/fwd v1.2.0 // indirect
	github.com/planetscale/vtprotobuf v0.6.1-0.20240319094008-0393e58bdf10 // indirect
	github.com/rivo/uniseg v0.4.7 // indirect
	github.com/rs/xid v1.6.0 // indirect
	github.com/russross/blackfriday/v2 v2.1.0 // indirect
	github.com/spiffe/go-spiffe/v2 v2.8.1 // indirect
	github.com/tinylib/msgp v1.6.4 // indirect
	github.com/xeipuuv/gojsonpointer v0.0.0-20190905194746-02993c407bfb // indirect
	github.com/xeipuuv/gojsonreference v0.0.0-20180127040603-bd5ef7bd5415 // indirect
	github.com/xeipuuv/gojsonschema v1.2.0 // indirect
	github.com/xo/terminfo v0.0.0-20220910002029-abceb7e1c41e // indirect
	github.com/xrash/smetrics v0.0.0-20250705151800-55b8f293f342 // indirect
	github.com/yuin/goldmark v1.7.17 // indirect
	github.com/yuin/goldmark-emoji v1.0.5 // indirect
	github.com/zeebo/xxh3 v1.1.0 // indirect
	go.opentelemetry.io/auto/sdk v1.2.1 // indirect
	go.opentelemetry.io/contrib/detectors/gcp v1.45.0 // indirect
	go.opentelemetry.io/contrib/instrumentation/net/http/otelhttp v0.70.0 // indirect
	go.opentelemetry.io/otel/sdk/metric v1.45.0 // indirect
	go.yaml.in/yaml/v2 v2.4.4 // indirect
	go.yaml.in/yaml/v3 v3.0.5 // indirect
	golang.org/x/term v0.45.0 // indirect
	gopkg.in/ini.v1 v1.67.3 // indirect
)

require (
	github.com/axiomhq/hyperloglog v0.2.6 // indirect
	github.com/beorn7/perks v1.0.1 // indirect
	github.com/bits-and-blooms/bitset v1.25.0 // indirect
	github.com/blevesearch/go-porterstemmer v1.0.3 // indirect
	github.com/blevesearch/mmap-go v1.2.0 // indirect
	github.com/blevesearch/segment v0.9.1 // indirect
	github.com/blevesearch/snowballstem v0.9.0 // indirect
	github.com/blevesearch/vellum v1.2.0 // indirect
	github.com/blugelabs/bluge_segment_api v0.2.0
	github.com/blugelabs/ice v1.0.0 // indirect
	github.com/caio/go-tdigest v3.1.0+incompatible // indirect
	github.com/cenkalti/backoff/v4 v4.3.0
	github.com/dgryski/go-metro v0.0.0-20250106013310-edb8663e5e33 // indirect
	github.com/dustin/go-humanize v1.0.1
	github.com/fsnotify/fsnotify v1.10.1
	github.com/go-logr/logr v1.4.4 // indirect
	github.com/go-logr/stdr v1.2.2 // indirect
	github.com/go-ole/go-ole v1.3.0 // indirect
	github.com/google/pprof v0.0.0-20260802141513-ef3492d7dac3 // indirect
	github.com/grpc-ecosystem/go-grpc-middleware/providers/prometheus v1.1.0
	github.com/inconshreveable/mousetrap v1.1.0 // indirect
	github.com/klauspost/compress v1.19.2
	github.com/lufia/plan9stats v0.0.0-20260802145828-341c2f0c90b5 // indirect
	github.com/mattn/go-colorable v0.1.15 // indirect
	github.com/mattn/go-isatty v0.0.24 // indirect
	github.com/mschoch/smat v0.2.0 // indirect
	github.com/pelletier/go-toml/v2 v2.4.3 // indirect
	github.com/pmezard/go-difflib v1.0.1-0.20181226105442-5d4384ee4fb2 // indirect
	github.com/power-devops/perfstat v0.0.0-20260805114148-88456608a4f6 // indirect
	github.com/prometheus/client_model v0.6.2
	github.com/prometheus/common v0.70.1
	github.com/prometheus/procfs v0.21.1 // indirect
	github.com/robfig/cron/v3 v3.0.1
	github.com/sagikazarmark/locafero v0.12.0 // indirect
	github.com/shirou/gopsutil/v3 v3.24.5
	github.com/shoenig/go-m1cpu v0.2.2 // indirect
	github.com/sirupsen/logrus v1.10.0 // indirect
	github.com/spf13/afero v1.15.0 // indirect
	github.com/spf13/cast v1.10.0 // indirect
	github.com/subosito/gotenv v1.6.0 // indirect
	github.com/tklauser/go-sysconf v0.4.0 // indirect
	github.com/tklauser/numcpus v0.12.0 // indirect
	github.com/yusufpapurcu/wmi v1.2.4 // indirect
	go.opentelemetry.io/contrib/instrumentation/google.golang.org/grpc/otelgrpc v0.70.0 // indirect
	go.opentelemetry.io/otel v1.45.0 // indirect
	go.opentelemetry.io/otel/metric v1.45.0 // indirect
	go.opentelemetry.io/otel/sdk v1.45.0 // indirect
	go.opentelemetry.io/otel/trace v1.45.0 // indirect
	go.uber.org/zap v1.28.0
	golang.org/x/crypto v0.55.0 // indirect
	golang.org/x/net v0.58.0 // indirect
	golang.org/x/sys v0.47.0
	golang.org/x/text v0.41.0 // indirect
	golang.org/x/time v0.15.0 // indirect
	golang.org/x/tools v0.49.0
	google.golang.org/genproto v0.0.0-20260810153831-ec0a7760b754 // indirect
	gopkg.in/yaml.v3 v3.0.1
)

replace (
	github.com/benbjohnson/clock v1.3.0 => github.com/SkyAPM/clock v1.3.1-0.20220809233656-dc7607c94a97
	github.com/blugelabs/bluge => github.com/SkyAPM/bluge v0.0.0-20260625022800-42385daf66b8
	github.com/blugelabs/bluge_segment_api => github.com/zinclabs/bluge_segment_api v1.0.0
	github.com/blugelabs/ice => github.com/SkyAPM/ice v0.0.0-20250619023539-b5173603b0b3
)
