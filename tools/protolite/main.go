package main

import (
	"bytes"
	"flag"
	"fmt"
	"os"
	"os/exec"
	"path/filepath"
	"sort"
	"strings"

	_ "github.com/envoyproxy/protoc-gen-validate/validate"
	_ "github.com/grpc-ecosystem/grpc-gateway/v2/protoc-gen-openapiv2/options"
	_ "google.golang.org/genproto/googleapis/api/annotations"
	"google.golang.org/protobuf/proto"
	"google.golang.org/protobuf/reflect/protodesc"
	"google.golang.org/protobuf/reflect/protoreflect"
	"google.golang.org/protobuf/reflect/protoregistry"
	"google.golang.org/protobuf/types/descriptorpb"
	_ "google.golang.org/protobuf/types/known/anypb"
	_ "google.golang.org/protobuf/types/known/durationpb"
	_ "google.golang.org/protobuf/types/known/structpb"
	_ "google.golang.org/protobuf/types/known/timestamppb"
	"google.golang.org/protobuf/types/pluginpb"
)

func main() {
	root := flag.String("I", "", "proto root")
	out := flag.String("out", "", "output dir")
	plugins := flag.String("plugins", "", "comma separated plugin binaries name=path[:param]")
	flag.Parse()
	var rels []string
	filepath.Walk(*root, func(path string, info os.FileInfo, err error) error {
		if err == nil && !info.IsDir() && strings.HasSuffix(path, ".proto") {
			rel, _ := filepath.Rel(*root, path)
			rels = append(rels, rel)
		}
		return nil
	})
	fds, refs := readProtos(*root, rels)

	// external deps from the Go registry
	ext := map[string]*descriptorpb.FileDescriptorProto{}
	var addExt func(name string)
	addExt = func(name string) {
		if _, ok := fds[name]; ok {
			return
		}
		if _, ok := ext[name]; ok {
			return
		}
		d, err := protoregistry.GlobalFiles.FindFileByPath(name)
		if err != nil {
			panic(fmt.Sprintf("import %q not available: %v", name, err))
		}
		ext[name] = protodesc.ToFileDescriptorProto(d)
		imps := d.Imports()
		for i := 0; i < imps.Len(); i++ {
			addExt(imps.Get(i).Path())
		}
	}
	for _, fd := range fds {
		for _, dep := range fd.Dependency {
			addExt(dep)
		}
	}
	st := symtab{}
	for _, fd := range fds {
		collectSymbols(fd, st)
	}
	for _, fd := range ext {
		collectSymbols(fd, st)
	}
	for name, r := range refs {
		resolve(name, r, st)
	}
	// topological order
	all := map[string]*descriptorpb.FileDescriptorProto{}
	for k, v := range fds {
		all[k] = v
	}
	for k, v := range ext {
		all[k] = v
	}
	var order []*descriptorpb.FileDescriptorProto
	seen := map[string]bool{}
	var visit func(n string)
	visit = func(n string) {
		if seen[n] {
			return
		}
		seen[n] = true
		for _, d := range all[n].Dependency {
			visit(d)
		}
		order = append(order, all[n])
	}
	names := make([]string, 0, len(all))
	for k := range all {
		names = append(names, k)
	}
	sort.Strings(names)
	for _, n := range names {
		visit(n)
	}
	// validate
	set := &descriptorpb.FileDescriptorSet{File: order}
	files, err := protodesc.NewFiles(set)
	if err != nil {
		panic(err)
	}
	n := 0
	files.RangeFiles(func(protoreflect.FileDescriptor) bool { n++; return true })
	fmt.Fprintf(os.Stderr, "protolite: %d files (%d local) validated\n", n, len(fds))

	sort.Strings(rels)
	for _, pl := range strings.Split(*plugins, ",") {
		if pl == "" {
			continue
		}
		param := "paths=source_relative"
		if i := strings.Index(pl, ":"); i >= 0 {
			param = pl[i+1:]
			pl = pl[:i]
		}
		req := &pluginpb.CodeGeneratorRequest{
			FileToGenerate:  rels,
			Parameter:       proto.String(param),
			ProtoFile:       order,
			CompilerVersion: &pluginpb.Version{Major: proto.Int32(5), Minor: proto.Int32(29), Patch: proto.Int32(3)},
		}
		in, _ := proto.Marshal(req)
		cmd := exec.Command(pl)
		cmd.Stdin = bytes.NewReader(in)
		var stdout bytes.Buffer
		cmd.Stdout = &stdout
		cmd.Stderr = os.Stderr
		if err := cmd.Run(); err != nil {
			panic(fmt.Sprintf("%s: %v", pl, err))
		}
		resp := &pluginpb.CodeGeneratorResponse{}
		if err := proto.Unmarshal(stdout.Bytes(), resp); err != nil {
			panic(err)
		}
		if resp.Error != nil {
			panic(fmt.Sprintf("%s: %s", pl, resp.GetError()))
		}
		for _, f := range resp.File {
			dst := filepath.Join(*out, f.GetName())
			os.MkdirAll(filepath.Dir(dst), 0o755)
			if err := os.WriteFile(dst, []byte(f.GetContent()), 0o644); err != nil {
				panic(err)
			}
		}
		fmt.Fprintf(os.Stderr, "protolite: %s wrote %d files\n", filepath.Base(pl), len(resp.File))
	}
}
