// protolite: a small proto3 front end sufficient for the .proto files of
// apache/skywalking-banyandb. It produces FileDescriptorProtos that are then
// handed to the stock protoc-gen-go (built from the module cache).
package main

import (
	"fmt"
	"os"
	"sort"
	"strconv"
	"strings"
	"unicode"

	"google.golang.org/protobuf/encoding/prototext"
	"google.golang.org/protobuf/proto"
	"google.golang.org/protobuf/types/descriptorpb"
)

type tokKind int

const (
	tEOF tokKind = iota
	tIdent
	tInt
	tFloat
	tString
	tSym
)

type token struct {
	kind tokKind
	text string // for strings: the unescaped value
	pos  int    // byte offset in source
	line int
}

type lexer struct {
	src  string
	file string
	toks []token
}

func (l *lexer) fail(line int, format string, args ...any) {
	panic(fmt.Sprintf("%s:%d: %s", l.file, line, fmt.Sprintf(format, args...)))
}

func lex(file, src string) []token {
	l := &lexer{src: src, file: file}
	i, line := 0, 1
	n := len(src)
	for i < n {
		c := src[i]
		switch {
		case c == '\n':
			line++
			i++
		case c == ' ' || c == '\t' || c == '\r':
			i++
		case c == '/' && i+1 < n && src[i+1] == '/':
			for i < n && src[i] != '\n' {
				i++
			}
		case c == '/' && i+1 < n && src[i+1] == '*':
			j := strings.Index(src[i+2:], "*/")
			if j < 0 {
				l.fail(line, "unterminated comment")
			}
			line += strings.Count(src[i:i+2+j+2], "\n")
			i += 2 + j + 2
		case c == '"' || c == '\'':
			q := c
			j := i + 1
			var sb strings.Builder
			for {
				if j >= n {
					l.fail(line, "unterminated string")
				}
				if src[j] == q {
					break
				}
				if src[j] == '\\' {
					j++
					switch src[j] {
					case 'n':
						sb.WriteByte('\n')
					case 't':
						sb.WriteByte('\t')
					case 'r':
						sb.WriteByte('\r')
					case '\\':
						sb.WriteByte('\\')
					case '"':
						sb.WriteByte('"')
					case '\'':
						sb.WriteByte('\'')
					case '0', '1', '2', '3', '4', '5', '6', '7':
						k := j
						for k < n && k < j+3 && src[k] >= '0' && src[k] <= '7' {
							k++
						}
						v, _ := strconv.ParseUint(src[j:k], 8, 8)
						sb.WriteByte(byte(v))
						j = k - 1
					case 'x':
						k := j + 1
						for k < n && k < j+3 && isHex(src[k]) {
							k++
						}
						v, _ := strconv.ParseUint(src[j+1:k], 16, 8)
						sb.WriteByte(byte(v))
						j = k - 1
					default:
						l.fail(line, "unsupported escape \\%c", src[j])
					}
					j++
					continue
				}
				sb.WriteByte(src[j])
				j++
			}
			l.toks = append(l.toks, token{tString, sb.String(), i, line})
			i = j + 1
		case c == '_' || unicode.IsLetter(rune(c)):
			j := i
			for j < n && (src[j] == '_' || src[j] == '.' || unicode.IsLetter(rune(src[j])) || unicode.IsDigit(rune(src[j]))) {
				j++
			}
			l.toks = append(l.toks, token{tIdent, src[i:j], i, line})
			i = j
		case unicode.IsDigit(rune(c)) || (c == '.' && i+1 < n && unicode.IsDigit(rune(src[i+1]))):
			j := i
			isFloat := false
			if c == '0' && j+1 < n && (src[j+1] == 'x' || src[j+1] == 'X') {
				j += 2
				for j < n && isHex(src[j]) {
					j++
				}
			} else {
				for j < n && (unicode.IsDigit(rune(src[j])) || src[j] == '.' || src[j] == 'e' || src[j] == 'E' ||
					((src[j] == '+' || src[j] == '-') && (src[j-1] == 'e' || src[j-1] == 'E'))) {
					if src[j] == '.' || src[j] == 'e' || src[j] == 'E' {
						isFloat = true
					}
					j++
				}
			}
			k := tInt
			if isFloat {
				k = tFloat
			}
			l.toks = append(l.toks, token{k, src[i:j], i, line})
			i = j
		default:
			l.toks = append(l.toks, token{tSym, string(c), i, line})
			i++
		}
	}
	l.toks = append(l.toks, token{tEOF, "", n, line})
	return l.toks
}

func isHex(c byte) bool {
	return (c >= '0' && c <= '9') || (c >= 'a' && c <= 'f') || (c >= 'A' && c <= 'F')
}

// optNode is a tree of option settings; leaves carry a text-format scalar or a
// raw aggregate body.
type optNode struct {
	children map[string]*optNode
	order    []string
	scalars  []string // text-format scalar values (repeated if >1)
	aggs     []string // raw aggregate bodies (without outer braces)
}

func (o *optNode) child(name string) *optNode {
	if o.children == nil {
		o.children = map[string]*optNode{}
	}
	c, ok := o.children[name]
	if !ok {
		c = &optNode{}
		o.children[name] = c
		o.order = append(o.order, name)
	}
	return c
}

func (o *optNode) text(sb *strings.Builder) {
	for _, name := range o.order {
		c := o.children[name]
		for _, s := range c.scalars {
			fmt.Fprintf(sb, "%s: %s\n", name, s)
		}
		for _, a := range c.aggs {
			fmt.Fprintf(sb, "%s { %s }\n", name, a)
		}
		if len(c.children) > 0 {
			fmt.Fprintf(sb, "%s {\n", name)
			c.text(sb)
			sb.WriteString("}\n")
		}
	}
}

type parser struct {
	file string
	src  string
	toks []token
	p    int
	fd   *descriptorpb.FileDescriptorProto
	// pending type references to resolve: field -> scope
	refs []typeRef
}

type typeRef struct {
	scope string // fully-qualified scope (package.Msg.Nested) without leading dot
	name  string
	set   func(fq string, isEnum bool)
	line  int
}

func (p *parser) fail(format string, args ...any) {
	panic(fmt.Sprintf("%s:%d: %s", p.file, p.toks[p.p].line, fmt.Sprintf(format, args...)))
}
func (p *parser) peek() token { return p.toks[p.p] }
func (p *parser) next() token  { t := p.toks[p.p]; p.p++; return t }
func (p *parser) isSym(s string) bool {
	t := p.peek()
	return t.kind == tSym && t.text == s
}
func (p *parser) isIdent(s string) bool {
	t := p.peek()
	return t.kind == tIdent && t.text == s
}
func (p *parser) accept(s string) bool {
	if p.isSym(s) {
		p.p++
		return true
	}
	return false
}
func (p *parser) expect(s string) {
	if !p.accept(s) {
		p.fail("expected %q, got %q", s, p.peek().text)
	}
}
func (p *parser) ident() string {
	t := p.next()
	if t.kind != tIdent {
		p.p--
		p.fail("expected identifier, got %q", t.text)
	}
	return t.text
}
func (p *parser) str() string {
	t := p.next()
	if t.kind != tString {
		p.p--
		p.fail("expected string, got %q", t.text)
	}
	s := t.text
	for p.peek().kind == tString { // adjacent literal concatenation
		s += p.next().text
	}
	return s
}
func (p *parser) intLit() int64 {
	neg := p.accept("-")
	t := p.next()
	if t.kind != tInt {
		p.p--
		p.fail("expected integer, got %q", t.text)
	}
	v, err := strconv.ParseInt(t.text, 0, 64)
	if err != nil {
		p.fail("bad int %q", t.text)
	}
	if neg {
		v = -v
	}
	return v
}

func parseFile(name, src string) (*descriptorpb.FileDescriptorProto, []typeRef) {
	p := &parser{file: name, src: src, toks: lex(name, src)}
	p.fd = &descriptorpb.FileDescriptorProto{Name: proto.String(name)}
	fileOpts := &optNode{}
	for p.peek().kind != tEOF {
		switch {
		case p.accept(";"):
		case p.isIdent("syntax"):
			p.next()
			p.expect("=")
			s := p.str()
			p.expect(";")
			if s != "proto3" {
				p.fail("only proto3 is supported, got %q", s)
			}
			p.fd.Syntax = proto.String(s)
		case p.isIdent("package"):
			p.next()
			p.fd.Package = proto.String(p.ident())
			p.expect(";")
		case p.isIdent("import"):
			p.next()
			if p.isIdent("public") || p.isIdent("weak") {
				p.fail("import public/weak unsupported")
			}
			p.fd.Dependency = append(p.fd.Dependency, p.str())
			p.expect(";")
		case p.isIdent("option"):
			p.next()
			p.option(fileOpts)
			p.expect(";")
		case p.isIdent("message"):
			p.next()
			p.fd.MessageType = append(p.fd.MessageType, p.message(p.fd.GetPackage()))
		case p.isIdent("enum"):
			p.next()
			p.fd.EnumType = append(p.fd.EnumType, p.enum())
		case p.isIdent("service"):
			p.next()
			p.fd.Service = append(p.fd.Service, p.service())
		default:
			p.fail("unexpected token %q at top level", p.peek().text)
		}
	}
	if len(fileOpts.order) > 0 {
		p.fd.Options = &descriptorpb.FileOptions{}
		applyOpts(p.file, fileOpts, p.fd.Options)
	}
	return p.fd, p.refs
}

// option parses `name = value` (after the `option` keyword or inside [...]).
func (p *parser) option(into *optNode) {
	node := into
	// option name: ident | "(" fullIdent ")" ; followed by ("." ident)*
	for {
		if p.accept("(") {
			p.accept(".")
			n := p.ident()
			p.expect(")")
			node = node.child("[" + strings.TrimPrefix(n, ".") + "]")
		} else {
			n := p.ident()
			for _, part := range strings.Split(n, ".") {
				if part != "" {
					node = node.child(part)
				}
			}
		}
		if p.isSym(".") { // `(a.b).c` lexes ".c" as sym '.' then ident
			p.next()
			continue
		}
		// identifiers beginning with '.' were split by the lexer: ")" then ".string.min_len" is ident? no: '.' sym.
		break
	}
	p.expect("=")
	p.optValue(node)
}

func (p *parser) optValue(node *optNode) {
	t := p.peek()
	switch {
	case t.kind == tSym && t.text == "{":
		node.aggs = append(node.aggs, p.rawAggregate())
	case t.kind == tString:
		node.scalars = append(node.scalars, strconv.Quote(p.str()))
	case t.kind == tSym && (t.text == "-" || t.text == "+"):
		p.next()
		v := p.next()
		node.scalars = append(node.scalars, t.text+v.text)
	case t.kind == tIdent || t.kind == tInt || t.kind == tFloat:
		p.next()
		node.scalars = append(node.scalars, t.text)
	default:
		p.fail("unsupported option value %q", t.text)
	}
}

// rawAggregate consumes a balanced {...} and returns the inner source text.
func (p *parser) rawAggregate() string {
	start := p.next() // "{"
	depth := 1
	for depth > 0 {
		t := p.next()
		if t.kind == tEOF {
			p.fail("unterminated aggregate")
		}
		if t.kind == tSym && t.text == "{" {
			depth++
		}
		if t.kind == tSym && t.text == "}" {
			depth--
			if depth == 0 {
				return p.src[start.pos+1 : t.pos]
			}
		}
	}
	return ""
}

func applyOpts(file string, o *optNode, m proto.Message) {
	var sb strings.Builder
	o.text(&sb)
	if err := (prototext.UnmarshalOptions{}).Unmarshal([]byte(sb.String()), m); err != nil {
		panic(fmt.Sprintf("%s: cannot apply options to %T: %v\n%s", file, m, err, sb.String()))
	}
}

func (p *parser) bracketOpts() *optNode {
	if !p.accept("[") {
		return nil
	}
	o := &optNode{}
	for {
		p.option(o)
		if p.accept(",") {
			continue
		}
		p.expect("]")
		return o
	}
}

var scalarTypes = map[string]descriptorpb.FieldDescriptorProto_Type{
	"double": descriptorpb.FieldDescriptorProto_TYPE_DOUBLE, "float": descriptorpb.FieldDescriptorProto_TYPE_FLOAT,
	"int64": descriptorpb.FieldDescriptorProto_TYPE_INT64, "uint64": descriptorpb.FieldDescriptorProto_TYPE_UINT64,
	"int32": descriptorpb.FieldDescriptorProto_TYPE_INT32, "fixed64": descriptorpb.FieldDescriptorProto_TYPE_FIXED64,
	"fixed32": descriptorpb.FieldDescriptorProto_TYPE_FIXED32, "bool": descriptorpb.FieldDescriptorProto_TYPE_BOOL,
	"string": descriptorpb.FieldDescriptorProto_TYPE_STRING, "bytes": descriptorpb.FieldDescriptorProto_TYPE_BYTES,
	"uint32": descriptorpb.FieldDescriptorProto_TYPE_UINT32, "sfixed32": descriptorpb.FieldDescriptorProto_TYPE_SFIXED32,
	"sfixed64": descriptorpb.FieldDescriptorProto_TYPE_SFIXED64, "sint32": descriptorpb.FieldDescriptorProto_TYPE_SINT32,
	"sint64": descriptorpb.FieldDescriptorProto_TYPE_SINT64,
}

func jsonName(s string) string {
	var sb strings.Builder
	up := false
	for _, r := range s {
		if r == '_' {
			up = true
			continue
		}
		if up {
			sb.WriteRune(unicode.ToUpper(r))
			up = false
		} else {
			sb.WriteRune(r)
		}
	}
	return sb.String()
}

func (p *parser) setType(f *descriptorpb.FieldDescriptorProto, scope, typ string) {
	if st, ok := scalarTypes[typ]; ok {
		f.Type = st.Enum()
		return
	}
	p.refs = append(p.refs, typeRef{scope: scope, name: typ, line: p.peek().line, set: func(fq string, isEnum bool) {
		f.TypeName = proto.String("." + fq)
		if isEnum {
			f.Type = descriptorpb.FieldDescriptorProto_TYPE_ENUM.Enum()
		} else {
			f.Type = descriptorpb.FieldDescriptorProto_TYPE_MESSAGE.Enum()
		}
	}})
}

func camel(s string) string {
	// MapEntry naming: protoc uses ToCamelCase(field name) + "Entry"
	var sb strings.Builder
	up := true
	for _, r := range s {
		if r == '_' {
			up = true
			continue
		}
		if up {
			sb.WriteRune(unicode.ToUpper(r))
			up = false
		} else {
			sb.WriteRune(r)
		}
	}
	return sb.String()
}

func (p *parser) field(msg *descriptorpb.DescriptorProto, scope string, oneofIdx int32) {
	f := &descriptorpb.FieldDescriptorProto{}
	label := descriptorpb.FieldDescriptorProto_LABEL_OPTIONAL
	optional := false
	if oneofIdx < 0 {
		if p.isIdent("repeated") {
			p.next()
			label = descriptorpb.FieldDescriptorProto_LABEL_REPEATED
		} else if p.isIdent("optional") {
			p.next()
			optional = true
		} else if p.isIdent("required") {
			p.fail("required unsupported in proto3")
		}
	}
	f.Label = label.Enum()
	if p.isIdent("map") && p.toks[p.p+1].kind == tSym && p.toks[p.p+1].text == "<" {
		p.next()
		p.expect("<")
		kt := p.ident()
		p.expect(",")
		vt := p.ident()
		p.expect(">")
		name := p.ident()
		p.expect("=")
		num := p.intLit()
		opts := p.bracketOpts()
		p.expect(";")
		entry := &descriptorpb.DescriptorProto{
			Name:    proto.String(camel(name) + "Entry"),
			Options: &descriptorpb.MessageOptions{MapEntry: proto.Bool(true)},
		}
		kf := &descriptorpb.FieldDescriptorProto{Name: proto.String("key"), Number: proto.Int32(1), JsonName: proto.String("key"),
			Label: descriptorpb.FieldDescriptorProto_LABEL_OPTIONAL.Enum()}
		vf := &descriptorpb.FieldDescriptorProto{Name: proto.String("value"), Number: proto.Int32(2), JsonName: proto.String("value"),
			Label: descriptorpb.FieldDescriptorProto_LABEL_OPTIONAL.Enum()}
		p.setType(kf, scope, kt)
		p.setType(vf, scope, vt)
		entry.Field = []*descriptorpb.FieldDescriptorProto{kf, vf}
		msg.NestedType = append(msg.NestedType, entry)
		f.Name = proto.String(name)
		f.JsonName = proto.String(jsonName(name))
		f.Number = proto.Int32(int32(num))
		f.Label = descriptorpb.FieldDescriptorProto_LABEL_REPEATED.Enum()
		f.Type = descriptorpb.FieldDescriptorProto_TYPE_MESSAGE.Enum()
		f.TypeName = proto.String("." + scope + "." + entry.GetName())
		if opts != nil {
			f.Options = &descriptorpb.FieldOptions{}
			applyOpts(p.file, opts, f.Options)
		}
		msg.Field = append(msg.Field, f)
		return
	}
	typ := p.ident()
	name := p.ident()
	p.expect("=")
	num := p.intLit()
	opts := p.bracketOpts()
	p.expect(";")
	f.Name = proto.String(name)
	f.JsonName = proto.String(jsonName(name))
	f.Number = proto.Int32(int32(num))
	p.setType(f, scope, strings.TrimPrefix(typ, "."))
	if strings.HasPrefix(typ, ".") {
		// fully-qualified: handled by resolver through leading-dot marker
		p.refs[len(p.refs)-1].scope = ""
	}
	if oneofIdx >= 0 {
		f.OneofIndex = proto.Int32(oneofIdx)
	}
	if optional {
		f.Proto3Optional = proto.Bool(true)
	}
	if opts != nil {
		if j, ok := opts.children["json_name"]; ok {
			v, _ := strconv.Unquote(j.scalars[0])
			f.JsonName = proto.String(v)
			delete(opts.children, "json_name")
			for i, n := range opts.order {
				if n == "json_name" {
					opts.order = append(opts.order[:i], opts.order[i+1:]...)
					break
				}
			}
		}
		if len(opts.order) > 0 {
			f.Options = &descriptorpb.FieldOptions{}
			applyOpts(p.file, opts, f.Options)
		}
	}
	msg.Field = append(msg.Field, f)
}

func (p *parser) message(parentScope string) *descriptorpb.DescriptorProto {
	name := p.ident()
	m := &descriptorpb.DescriptorProto{Name: proto.String(name)}
	scope := name
	if parentScope != "" {
		scope = parentScope + "." + name
	}
	p.expect("{")
	mopts := &optNode{}
	for !p.accept("}") {
		switch {
		case p.accept(";"):
		case p.isIdent("message") && p.toks[p.p+1].kind == tIdent && p.toks[p.p+2].text == "{":
			p.next()
			m.NestedType = append(m.NestedType, p.message(scope))
		case p.isIdent("enum") && p.toks[p.p+1].kind == tIdent && p.toks[p.p+2].text == "{":
			p.next()
			m.EnumType = append(m.EnumType, p.enum())
		case p.isIdent("option"):
			p.next()
			p.option(mopts)
			p.expect(";")
		case p.isIdent("oneof") && p.toks[p.p+1].kind == tIdent && p.toks[p.p+2].text == "{":
			p.next()
			on := p.ident()
			idx := int32(len(m.OneofDecl))
			od := &descriptorpb.OneofDescriptorProto{Name: proto.String(on)}
			m.OneofDecl = append(m.OneofDecl, od)
			p.expect("{")
			oopts := &optNode{}
			for !p.accept("}") {
				if p.accept(";") {
					continue
				}
				if p.isIdent("option") {
					p.next()
					p.option(oopts)
					p.expect(";")
					continue
				}
				p.field(m, scope, idx)
			}
			if len(oopts.order) > 0 {
				od.Options = &descriptorpb.OneofOptions{}
				applyOpts(p.file, oopts, od.Options)
			}
		case p.isIdent("reserved") && (p.toks[p.p+1].kind == tInt || p.toks[p.p+1].kind == tString):
			p.next()
			for {
				if p.peek().kind == tString {
					m.ReservedName = append(m.ReservedName, p.str())
				} else {
					lo := p.intLit()
					hi := lo
					if p.isIdent("to") {
						p.next()
						if p.isIdent("max") {
							p.next()
							hi = 536870911
						} else {
							hi = p.intLit()
						}
					}
					m.ReservedRange = append(m.ReservedRange, &descriptorpb.DescriptorProto_ReservedRange{
						Start: proto.Int32(int32(lo)), End: proto.Int32(int32(hi + 1)),
					})
				}
				if !p.accept(",") {
					break
				}
			}
			p.expect(";")
		case p.isIdent("extensions") || p.isIdent("extend") || p.isIdent("group"):
			p.fail("%s unsupported", p.peek().text)
		default:
			p.field(m, scope, -1)
		}
	}
	// synthetic oneofs for proto3 optional, after all real oneofs
	for _, f := range m.Field {
		if f.GetProto3Optional() {
			f.OneofIndex = proto.Int32(int32(len(m.OneofDecl)))
			m.OneofDecl = append(m.OneofDecl, &descriptorpb.OneofDescriptorProto{Name: proto.String("_" + f.GetName())})
		}
	}
	if len(mopts.order) > 0 {
		if m.Options == nil {
			m.Options = &descriptorpb.MessageOptions{}
		}
		applyOpts(p.file, mopts, m.Options)
	}
	return m
}

func (p *parser) enum() *descriptorpb.EnumDescriptorProto {
	e := &descriptorpb.EnumDescriptorProto{Name: proto.String(p.ident())}
	p.expect("{")
	eopts := &optNode{}
	for !p.accept("}") {
		switch {
		case p.accept(";"):
		case p.isIdent("option"):
			p.next()
			p.option(eopts)
			p.expect(";")
		case p.isIdent("reserved"):
			p.next()
			for {
				if p.peek().kind == tString {
					e.ReservedName = append(e.ReservedName, p.str())
				} else {
					lo := p.intLit()
					hi := lo
					if p.isIdent("to") {
						p.next()
						hi = p.intLit()
					}
					e.ReservedRange = append(e.ReservedRange, &descriptorpb.EnumDescriptorProto_EnumReservedRange{
						Start: proto.Int32(int32(lo)), End: proto.Int32(int32(hi)),
					})
				}
				if !p.accept(",") {
					break
				}
			}
			p.expect(";")
		default:
			v := &descriptorpb.EnumValueDescriptorProto{Name: proto.String(p.ident())}
			p.expect("=")
			v.Number = proto.Int32(int32(p.intLit()))
			if o := p.bracketOpts(); o != nil {
				v.Options = &descriptorpb.EnumValueOptions{}
				applyOpts(p.file, o, v.Options)
			}
			p.expect(";")
			e.Value = append(e.Value, v)
		}
	}
	if len(eopts.order) > 0 {
		e.Options = &descriptorpb.EnumOptions{}
		applyOpts(p.file, eopts, e.Options)
	}
	return e
}

func (p *parser) service() *descriptorpb.ServiceDescriptorProto {
	s := &descriptorpb.ServiceDescriptorProto{Name: proto.String(p.ident())}
	p.expect("{")
	sopts := &optNode{}
	for !p.accept("}") {
		switch {
		case p.accept(";"):
		case p.isIdent("option"):
			p.next()
			p.option(sopts)
			p.expect(";")
		case p.isIdent("rpc"):
			p.next()
			m := &descriptorpb.MethodDescriptorProto{Name: proto.String(p.ident())}
			p.expect("(")
			if p.isIdent("stream") {
				p.next()
				m.ClientStreaming = proto.Bool(true)
			}
			in := p.ident()
			p.expect(")")
			if !p.isIdent("returns") {
				p.fail("expected returns")
			}
			p.next()
			p.expect("(")
			if p.isIdent("stream") {
				p.next()
				m.ServerStreaming = proto.Bool(true)
			}
			out := p.ident()
			p.expect(")")
			scope := p.fd.GetPackage()
			p.refs = append(p.refs, typeRef{scope: scope, name: in, line: p.peek().line, set: func(fq string, _ bool) { m.InputType = proto.String("." + fq) }})
			p.refs = append(p.refs, typeRef{scope: scope, name: out, line: p.peek().line, set: func(fq string, _ bool) { m.OutputType = proto.String("." + fq) }})
			if p.accept("{") {
				mo := &optNode{}
				for !p.accept("}") {
					if p.accept(";") {
						continue
					}
					if !p.isIdent("option") {
						p.fail("expected option in rpc body")
					}
					p.next()
					p.option(mo)
					p.expect(";")
				}
				if len(mo.order) > 0 {
					m.Options = &descriptorpb.MethodOptions{}
					applyOpts(p.file, mo, m.Options)
				}
			} else {
				p.expect(";")
			}
			s.Method = append(s.Method, m)
		default:
			p.fail("unexpected %q in service", p.peek().text)
		}
	}
	if len(sopts.order) > 0 {
		s.Options = &descriptorpb.ServiceOptions{}
		applyOpts(p.file, sopts, s.Options)
	}
	return s
}

// ---- symbol table / resolution ----

type symtab map[string]bool // fully-qualified name -> isEnum

func collectSymbols(fd *descriptorpb.FileDescriptorProto, st symtab) {
	pkg := fd.GetPackage()
	var walk func(prefix string, m *descriptorpb.DescriptorProto)
	walk = func(prefix string, m *descriptorpb.DescriptorProto) {
		fq := join(prefix, m.GetName())
		st[fq] = false
		for _, e := range m.EnumType {
			st[join(fq, e.GetName())] = true
		}
		for _, n := range m.NestedType {
			walk(fq, n)
		}
	}
	for _, m := range fd.MessageType {
		walk(pkg, m)
	}
	for _, e := range fd.EnumType {
		st[join(pkg, e.GetName())] = true
	}
}

func join(a, b string) string {
	if a == "" {
		return b
	}
	return a + "." + b
}

func resolve(file string, refs []typeRef, st symtab) {
	for _, r := range refs {
		if r.scope == "" {
			isEnum, ok := st[r.name]
			if !ok {
				panic(fmt.Sprintf("%s:%d: unresolved type .%s", file, r.line, r.name))
			}
			r.set(r.name, isEnum)
			continue
		}
		scope := r.scope
		found := false
		for {
			cand := join(scope, r.name)
			if isEnum, ok := st[cand]; ok {
				r.set(cand, isEnum)
				found = true
				break
			}
			if scope == "" {
				break
			}
			if i := strings.LastIndex(scope, "."); i >= 0 {
				scope = scope[:i]
			} else {
				scope = ""
			}
		}
		if !found {
			panic(fmt.Sprintf("%s:%d: unresolved type %s in scope %s", file, r.line, r.name, r.scope))
		}
	}
}

func readProtos(root string, rels []string) (map[string]*descriptorpb.FileDescriptorProto, map[string][]typeRef) {
	fds := map[string]*descriptorpb.FileDescriptorProto{}
	refs := map[string][]typeRef{}
	sort.Strings(rels)
	for _, rel := range rels {
		b, err := os.ReadFile(root + "/" + rel)
		if err != nil {
			panic(err)
		}
		fd, r := parseFile(rel, string(b))
		fds[rel] = fd
		refs[rel] = r
	}
	return fds, refs
}
