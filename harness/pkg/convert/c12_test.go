package convert

import (
	"bytes"
	"math"
	"testing"

	"pgregory.net/rapid"

	"github.com/apache/skywalking-banyandb/verifkit"
)

// C12 (numbers): byte encodings used for index terms / distributed sorting order exactly like the
// values they encode and decode back to the same value.

type c12IntCase struct {
	A, B int64
}

func cmpInt(a, b int64) int {
	switch {
	case a < b:
		return -1
	case a > b:
		return 1
	}
	return 0
}

func TestVerifC12IntOrder(t *testing.T) {
	verifkit.Run(t, verifkit.Spec[c12IntCase]{
		Property: "C12", Unit: "int_order",
		Rule: "pairs (a,b) of int64 from a boundary pool (0,+-1,+-2^k+-d,Min/Max,bytes 0x7c/0x5c) mixed with uniform draws; " +
			"non-trivial = a != b and (signs differ, or an operand is within 2 of Min/MaxInt64, or the operands differ only in the low byte)",
		Gen: func(t *rapid.T, _ *verifkit.KnownSet) c12IntCase {
			a := verifkit.Int64(t, "a")
			var b int64
			switch rapid.IntRange(0, 3).Draw(t, "rel") {
			case 0:
				b = a + int64(rapid.IntRange(-2, 2).Draw(t, "d")) // wraps on purpose
			case 1:
				b = -a
			default:
				b = verifkit.Int64(t, "b")
			}
			return c12IntCase{A: a, B: b}
		},
		Check: func(x *verifkit.Ctx, c c12IntCase) error {
			a, b := c.A, c.B
			ea, eb := Int64ToBytes(a), Int64ToBytes(b)
			if got, want := verifkit.Sign(bytes.Compare(ea, eb)), cmpInt(a, b); got != want {
				return verifkit.Failf("Int64ToBytes order: a=%d b=%d bytes.Compare=%d want %d (%x vs %x)", a, b, got, want, ea, eb)
			}
			if got := BytesToInt64(ea); got != a {
				return verifkit.Failf("BytesToInt64(Int64ToBytes(%d)) = %d", a, got)
			}
			if len(ea) != 8 {
				return verifkit.Failf("Int64ToBytes(%d) has %d bytes", a, len(ea))
			}
			// int32 variant on the truncated operands
			a32, b32 := int32(a), int32(b)
			e32a, e32b := Int32ToBytes(a32), Int32ToBytes(b32)
			if got, want := verifkit.Sign(bytes.Compare(e32a, e32b)), cmpInt(int64(a32), int64(b32)); got != want {
				return verifkit.Failf("Int32ToBytes order: a=%d b=%d bytes.Compare=%d want %d", a32, b32, got, want)
			}
			if got := BytesToInt32(e32a); got != a32 {
				return verifkit.Failf("BytesToInt32(Int32ToBytes(%d)) = %d", a32, got)
			}
			// unsigned: big endian is order preserving
			ua, ub := uint64(a), uint64(b)
			wantU := 0
			if ua < ub {
				wantU = -1
			} else if ua > ub {
				wantU = 1
			}
			if got := verifkit.Sign(bytes.Compare(Uint64ToBytes(ua), Uint64ToBytes(ub))); got != wantU {
				return verifkit.Failf("Uint64ToBytes order: a=%d b=%d got %d want %d", ua, ub, got, wantU)
			}
			if BytesToUint64(Uint64ToBytes(ua)) != ua || BytesToUint32(Uint32ToBytes(uint32(ua))) != uint32(ua) {
				return verifkit.Failf("unsigned round trip of %d", ua)
			}
			if BytesToInt16(Int16ToBytes(int16(a))) != int16(a) {
				return verifkit.Failf("int16 round trip of %d", int16(a))
			}
			x.LabelIf((a < 0) != (b < 0), "signs differ")
			near := func(v int64) bool { return v >= math.MaxInt64-2 || v <= math.MinInt64+2 }
			x.LabelIf(near(a) || near(b), "extreme operand")
			x.LabelIf(a != b && a>>8 == b>>8, "low byte only")
			x.LabelIf(a == b, "equal")
			if a != b && ((a < 0) != (b < 0) || near(a) || near(b) || a>>8 == b>>8) {
				x.NonTrivial()
			}
			return nil
		},
		MinLabelFrac: map[string]float64{"signs differ": 0.05, "extreme operand": 0.02},
	})
}

type c12FloatCase struct {
	A, B uint64 // IEEE-754 bit patterns
}

const negZeroBits = uint64(1) << 63

func TestVerifC12FloatOrder(t *testing.T) {
	verifkit.Run(t, verifkit.Spec[c12FloatCase]{
		Property: "C12", Unit: "float_order",
		Rule: "pairs of float64 bit patterns from a boundary pool (+-0, subnormals, +-Inf, +-Max, 2^53 neighbours, decimals, ulps around them) and " +
			"uniform bit patterns; NaN only checked for round trip; non-trivial = both ordered, bitwise different and (signs differ, or exponent classes " +
			"differ, or they are within 3 ulps)",
		Known: []verifkit.Known[c12FloatCase]{{Key: "neg-zero", Match: func(c c12FloatCase) bool { return c.A == negZeroBits || c.B == negZeroBits }}},
		Gen: func(t *rapid.T, ks *verifkit.KnownSet) c12FloatCase {
			a := verifkit.FloatBits(t, "a", true)
			var b uint64
			switch rapid.IntRange(0, 3).Draw(t, "rel") {
			case 0:
				b = a + uint64(rapid.IntRange(-3, 3).Draw(t, "ulp"))
			case 1:
				b = a ^ negZeroBits
			default:
				b = verifkit.FloatBits(t, "b", true)
			}
			if ks.Active("neg-zero") {
				if a == negZeroBits {
					a = 0
					ks.Excluded("neg-zero")
				}
				if b == negZeroBits {
					b = 0
					ks.Excluded("neg-zero")
				}
			}
			return c12FloatCase{A: a, B: b}
		},
		Check: func(x *verifkit.Ctx, c c12FloatCase) error {
			a, b := math.Float64frombits(c.A), math.Float64frombits(c.B)
			ea, eb := Float64ToOrderedBytes(a), Float64ToOrderedBytes(b)
			for _, p := range []struct {
				bits uint64
				enc  []byte
			}{{c.A, ea}, {c.B, eb}} {
				if len(p.enc) != 8 {
					return verifkit.Failf("Float64ToOrderedBytes(%x) has %d bytes", p.bits, len(p.enc))
				}
				if got := math.Float64bits(OrderedBytesToFloat64(p.enc)); got != p.bits {
					return verifkit.Failf("OrderedBytesToFloat64(Float64ToOrderedBytes(bits %016x = %v)) = bits %016x = %v",
						p.bits, math.Float64frombits(p.bits), got, math.Float64frombits(got))
				}
				if got := math.Float64bits(BytesToFloat64(Float64ToBytes(math.Float64frombits(p.bits)))); got != p.bits {
					return verifkit.Failf("BytesToFloat64(Float64ToBytes(%016x)) = %016x", p.bits, got)
				}
				if got := AppendFloat64Bytes(nil, math.Float64frombits(p.bits)); !bytes.Equal(got, Float64ToBytes(math.Float64frombits(p.bits))) {
					return verifkit.Failf("AppendFloat64Bytes differs from Float64ToBytes for %016x", p.bits)
				}
			}
			if a != a || b != b {
				x.Label("nan (round trip only)")
				return nil
			}
			got := verifkit.Sign(bytes.Compare(ea, eb))
			switch {
			case a < b && got >= 0:
				return verifkit.Failf("order: %v (bits %016x) < %v (bits %016x) but encodings compare %d (%x vs %x)", a, c.A, b, c.B, got, ea, eb)
			case a > b && got <= 0:
				return verifkit.Failf("order: %v (bits %016x) > %v (bits %016x) but encodings compare %d (%x vs %x)", a, c.A, b, c.B, got, ea, eb)
			case c.A == c.B && got != 0:
				return verifkit.Failf("equal values encode differently: %016x", c.A)
			}
			expo := func(u uint64) uint64 { return (u >> 52) & 0x7ff }
			signs := (c.A >> 63) != (c.B >> 63)
			x.LabelIf(signs, "signs differ")
			x.LabelIf(expo(c.A) != expo(c.B), "exponent differs")
			close3 := c.A-c.B <= 3 || c.B-c.A <= 3
			x.LabelIf(close3 && c.A != c.B, "within 3 ulps")
			x.LabelIf(expo(c.A) == 0 || expo(c.B) == 0, "zero/subnormal operand")
			x.LabelIf(expo(c.A) == 0x7ff || expo(c.B) == 0x7ff, "infinite operand")
			x.LabelIf(c.A == negZeroBits || c.B == negZeroBits, "negative zero")
			if c.A != c.B && (signs || expo(c.A) != expo(c.B) || close3) {
				x.NonTrivial()
			}
			return nil
		},
		MinLabelFrac: map[string]float64{"signs differ": 0.05, "zero/subnormal operand": 0.02, "infinite operand": 0.005},
	})
}
