package measure_test

import (
	"context"
	"fmt"
	"sort"
	"testing"
	"time"

	"google.golang.org/protobuf/proto"
	"google.golang.org/protobuf/types/known/timestamppb"
	"pgregory.net/rapid"

	"github.com/apache/skywalking-banyandb/api/common"
	commonv1 "github.com/apache/skywalking-banyandb/api/proto/banyandb/common/v1"
	measurev1 "github.com/apache/skywalking-banyandb/api/proto/banyandb/measure/v1"
	modelv1 "github.com/apache/skywalking-banyandb/api/proto/banyandb/model/v1"
	"github.com/apache/skywalking-banyandb/pkg/bus"
	"github.com/apache/skywalking-banyandb/pkg/index"
	"github.com/apache/skywalking-banyandb/pkg/query/executor"
	"github.com/apache/skywalking-banyandb/pkg/query/logical"
	"github.com/apache/skywalking-banyandb/pkg/query/logical/measure"
	"github.com/apache/skywalking-banyandb/pkg/query/model"
	"github.com/apache/skywalking-banyandb/verifkit"
)

// C09 (measure window): a time-ordered measure query with limit and offset through the real plans - the
// single-place plan (Analyze) on a standalone server and the coordinator plan (DistributedAnalyze) over
// 1..4 data nodes which each answer through their own single-place plan - returns exactly the window
// [offset, offset+limit) of the globally ordered rows, limit 0 meaning the documented default of 100.

type w09Row struct {
	Node int   `json:"node"`
	ID   int   `json:"id"`
	T    int   `json:"t"` // second offset; (id, t) is unique over the whole data set, except for replica copies
	V    int64 `json:"v"`
	// Ver: version of this copy (0 = 1). A replica copy of a point - the same (id, t) on another node, e.g. a replica that lags
	// behind a rewrite - carries another version and another value: the coordinator has to return the copy with the highest version.
	Ver int64 `json:"ver,omitempty"`
}

func (r w09Row) ver() int64 {
	if r.Ver == 0 {
		return 1
	}
	return r.Ver
}

// w09Winners keeps, for every (id, t), the copy with the highest version.
func w09Winners(rows []w09Row) []w09Row {
	best := map[[2]int]int{}
	var out []w09Row
	for _, r := range rows {
		k := [2]int{r.ID, r.T}
		if i, ok := best[k]; ok {
			if r.ver() > out[i].ver() {
				out[i] = r
			}
			continue
		}
		best[k] = len(out)
		out = append(out, r)
	}
	return out
}

type w09Case struct {
	Rows   []w09Row `json:"rows"`
	Nodes  int      `json:"nodes"`
	Desc   bool     `json:"desc"`
	Limit  uint32   `json:"limit"` // 0 = default
	Offset uint32   `json:"offset"`
}

// w09EC is the storage stand-in of one server: it answers in the order the query options ask for, as the
// measure engine does (time ascending unless a descending time order is requested).
type w09EC struct {
	rows  []w09Row
	shard common.ShardID
}

func (e *w09EC) Query(_ context.Context, opts model.MeasureQueryOptions) (model.MeasureQueryResult, error) {
	if opts.Order != nil && opts.Order.Type != index.OrderByTypeTime {
		return nil, fmt.Errorf("stand-in storage: unexpected order type %v", opts.Order.Type)
	}
	desc := opts.Order != nil && opts.Order.Sort == modelv1.Sort_SORT_DESC
	rows := append([]w09Row(nil), e.rows...)
	sort.SliceStable(rows, func(i, j int) bool {
		if rows[i].T != rows[j].T {
			if desc {
				return rows[i].T > rows[j].T
			}
			return rows[i].T < rows[j].T
		}
		return rows[i].ID < rows[j].ID
	})
	return &w09Result{rows: rows, shard: e.shard}, nil
}

type w09Result struct {
	rows  []w09Row
	shard common.ShardID
	idx   int
}

func (r *w09Result) Pull() *model.MeasureResult {
	if r.idx >= len(r.rows) {
		return nil
	}
	row := r.rows[r.idx]
	r.idx++
	return &model.MeasureResult{
		SID:        common.SeriesID(1000 + row.ID),
		Timestamps: []int64{time.Unix(1500+int64(row.T), 0).UnixNano()},
		Versions:   []int64{row.ver()},
		ShardIDs:   []common.ShardID{r.shard},
		TagFamilies: []model.TagFamily{{Name: "default", Tags: []model.Tag{
			{Name: "id", Values: []*modelv1.TagValue{strTag(fmt.Sprintf("svc-%d", row.ID))}},
			{Name: "region", Values: []*modelv1.TagValue{strTag("r0")}},
		}}},
		Fields: []model.Field{
			{Name: "value", Values: []*modelv1.FieldValue{{Value: &modelv1.FieldValue_Int{Int: &modelv1.Int{Value: row.V}}}}},
			{Name: "fval", Values: []*modelv1.FieldValue{{Value: &modelv1.FieldValue_Float{Float: &modelv1.Float{Value: float64(row.V) / 4}}}}},
		},
	}
}

func (r *w09Result) Release() {}

func w09RunLocal(req *measurev1.QueryRequest, ec *w09EC) ([]*measurev1.InternalDataPoint, error) {
	md := c10Schema()
	s, err := measure.BuildSchema(md, nil)
	if err != nil {
		return nil, err
	}
	plan, err := measure.Analyze(req, []*commonv1.Metadata{md.Metadata}, []logical.Schema{s}, []executor.MeasureExecutionContext{ec}, false)
	if err != nil {
		return nil, fmt.Errorf("analyze: %w", err)
	}
	it, err := plan.(executor.MeasureExecutable).Execute(context.Background())
	if err != nil {
		return nil, fmt.Errorf("execute: %w", err)
	}
	defer it.Close()
	var out []*measurev1.InternalDataPoint
	for it.Next() {
		out = append(out, it.Current()...)
	}
	return out, nil
}

type w09Cluster struct {
	tr     *modelv1.TimeRange
	nodes  []*w09EC
	pushed []uint32
}

func (c *w09Cluster) Broadcast(_ time.Duration, _ bus.Topic, message bus.Message) ([]bus.Future, error) {
	ir, ok := message.Data().(*measurev1.InternalQueryRequest)
	if !ok {
		return nil, fmt.Errorf("unexpected payload %T", message.Data())
	}
	ff := make([]bus.Future, 0, len(c.nodes))
	for i, n := range c.nodes {
		req := proto.Clone(ir.GetRequest()).(*measurev1.QueryRequest)
		c.pushed = append(c.pushed, req.GetLimit())
		dps, err := w09RunLocal(req, n) // a data node answers the coordinator's request through its own plan
		if err != nil {
			return nil, err
		}
		ff = append(ff, c10Future{m: bus.NewMessageWithNode(bus.MessageID(i+1), fmt.Sprintf("node-%d", i), &measurev1.InternalQueryResponse{DataPoints: dps})})
	}
	return ff, nil
}

func (c *w09Cluster) TimeRange() *modelv1.TimeRange      { return c.tr }
func (c *w09Cluster) NodeSelectors() map[string][]string { return nil }

func (c w09Case) request() *measurev1.QueryRequest {
	srt := modelv1.Sort_SORT_ASC
	if c.Desc {
		srt = modelv1.Sort_SORT_DESC
	}
	return &measurev1.QueryRequest{
		Groups: []string{c10Group}, Name: c10Measure,
		TimeRange:       &modelv1.TimeRange{Begin: timestamppb.New(time.Unix(1000, 0)), End: timestamppb.New(time.Unix(9000, 0))},
		TagProjection:   &modelv1.TagProjection{TagFamilies: []*modelv1.TagProjection_TagFamily{{Name: "default", Tags: []string{"id"}}}},
		FieldProjection: &measurev1.QueryRequest_FieldProjection{Names: []string{"value"}},
		OrderBy:         &modelv1.QueryOrder{Sort: srt},
		Limit:           c.Limit,
		Offset:          c.Offset,
	}
}

type w09Out struct {
	id string
	t  int
	v  int64
}

func w09Render(dps []*measurev1.DataPoint) ([]w09Out, error) {
	var out []w09Out
	for _, dp := range dps {
		o := w09Out{t: int(dp.GetTimestamp().AsTime().Unix() - 1500)}
		for _, tf := range dp.GetTagFamilies() {
			for _, tg := range tf.GetTags() {
				if tg.GetKey() == "id" {
					o.id = tg.GetValue().GetStr().GetValue()
				}
			}
		}
		if len(dp.GetFields()) != 1 {
			return nil, fmt.Errorf("malformed data point %v", dp)
		}
		o.v = dp.GetFields()[0].GetValue().GetInt().GetValue()
		out = append(out, o)
	}
	return out, nil
}

func w09Check(what string, got []w09Out, c w09Case, distinct bool) error {
	all := w09Winners(c.Rows)
	// With repeated sort keys a node's page (limit+offset rows) may end inside a group of equal keys; which rows of the group a node
	// sends is then arbitrary, and the newest copy of a point can lie beyond its node's page while an older copy on another node is
	// inside: the coordinator cannot know. The highest-version requirement is therefore asserted only when no node's page cuts
	// (every copy reaches the coordinator) or the sort keys are distinct; otherwise any stored copy of the point is accepted.
	pageCut := false
	{
		lim := int(c.Limit)
		if lim == 0 {
			lim = 100
		}
		per := map[int]int{}
		for _, r := range c.Rows {
			per[r.Node]++
		}
		for _, n := range per {
			if n > lim+int(c.Offset) {
				pageCut = true
			}
		}
	}
	anyCopy := map[string]map[int64]bool{}
	for _, r := range c.Rows {
		k := fmt.Sprintf("svc-%d@%d", r.ID, r.T)
		if anyCopy[k] == nil {
			anyCopy[k] = map[int64]bool{}
		}
		anyCopy[k][r.V] = true
	}
	lenient := pageCut && !distinct
	sort.SliceStable(all, func(i, j int) bool {
		if all[i].T != all[j].T {
			if c.Desc {
				return all[i].T > all[j].T
			}
			return all[i].T < all[j].T
		}
		return all[i].ID < all[j].ID
	})
	limit := int(c.Limit)
	if limit == 0 {
		limit = 100 // documented default
	}
	lo := min(int(c.Offset), len(all))
	hi := min(lo+limit, len(all))
	want := all[lo:hi]
	if len(got) != len(want) {
		return verifkit.Failf("%s: %d rows returned, the window [%d, %d) of the %d rows ordered by time (desc=%v) has %d (limit %d, offset %d, %d nodes)",
			what, len(got), c.Offset, int(c.Offset)+limit, len(all), c.Desc, len(want), c.Limit, c.Offset, c.Nodes)
	}
	stored := map[string]int64{}
	for _, r := range all {
		stored[fmt.Sprintf("svc-%d@%d", r.ID, r.T)] = r.V
	}
	seen := map[string]bool{}
	for i, g := range got {
		if g.t != want[i].T {
			return verifkit.Failf("%s: row %d of the answer has time %d, row %d of the ordered data (offset %d + %d) has time %d (limit %d, desc=%v, %d nodes)",
				what, i, g.t, lo+i, c.Offset, i, want[i].T, c.Limit, c.Desc, c.Nodes)
		}
		k := fmt.Sprintf("%s@%d", g.id, g.t)
		v, ok := stored[k]
		if ok && v != g.v && lenient && anyCopy[k][g.v] {
			v = g.v
		}
		if !ok || v != g.v {
			return verifkit.Failf("%s: row %d is %s with value %d; the copy with the highest version of that point has value %d (a point that was never written, or a replica's stale copy)", what, i, k, g.v, v)
		}
		if seen[k] {
			return verifkit.Failf("%s: %s returned twice", what, k)
		}
		seen[k] = true
		if distinct && g.id != fmt.Sprintf("svc-%d", want[i].ID) {
			return verifkit.Failf("%s: row %d is %s, expected svc-%d@%d (sort keys are distinct)", what, i, k, want[i].ID, want[i].T)
		}
	}
	return nil
}

func seqN(n int) []int {
	out := make([]int, n)
	for i := range out {
		out[i] = i
	}
	return out
}

func TestVerifC09MeasureWindow(t *testing.T) { verifkit.Run(t, w09Spec("C09", "measure_window")) }

// C02 at the coordinator: of the copies of one point that replicas return, the one with the highest version is kept.
func TestVerifC02MeasureReplicas(t *testing.T) {
	verifkit.Run(t, w09Spec("C02", "measure_coordinator_replicas"))
}

func w09Spec(pid, unit string) verifkit.Spec[w09Case] {
	return verifkit.Spec[w09Case]{
		Property: pid, Unit: unit,
		Rule: "0..320 rows (series svc-0..7, unique (series, time), times either all distinct or drawn from a small range so that sort keys repeat) spread over 1..4 data nodes, in half of the multi-node cases with 1..12 replica copies (the same point on another node with a higher version and another value; the coordinator has to return the highest version, C02 - asserted unless a node's page ends inside a group of equal sort keys, where the newest copy may lie beyond its node's page); " +
			"a raw query ordered by time ascending or descending with limit in {0 = default 100, 1..20, 90..130} and offset in {0, 1..10, 40..160}; answered by the real " +
			"single-place plan (measure.Analyze) over all rows and by the real coordinator plan (measure.DistributedAnalyze) whose data nodes answer the broadcast request " +
			"through their own single-place plan over a storage stand-in that orders by time as requested; oracle: both answers have the times of the window " +
			"[offset, offset+limit) of the globally ordered rows, every returned row was written and none is returned twice, and with distinct times the rows themselves are the window's; " +
			"non-trivial = >= 2 nodes and an offset > 0 that lies inside the data",
		Gen: func(t *rapid.T, _ *verifkit.KnownSet) w09Case {
			c := w09Case{Nodes: rapid.IntRange(1, 4).Draw(t, "nodes"), Desc: rapid.Bool().Draw(t, "desc")}
			switch rapid.IntRange(0, 3).Draw(t, "limitkind") {
			case 0, 1:
				c.Limit = 0
			case 2:
				c.Limit = uint32(rapid.IntRange(1, 20).Draw(t, "limit"))
			default:
				c.Limit = uint32(rapid.IntRange(90, 130).Draw(t, "limit"))
			}
			switch rapid.IntRange(0, 3).Draw(t, "offsetkind") {
			case 0:
				c.Offset = 0
			case 1, 2:
				c.Offset = uint32(rapid.IntRange(1, 10).Draw(t, "offset"))
			default:
				c.Offset = uint32(rapid.IntRange(40, 160).Draw(t, "offset"))
			}
			n := rapid.SampledFrom([]int{0, 3, 30, 120, 200, 320}).Draw(t, "n")
			if n > 3 {
				n = rapid.IntRange(n/2, n).Draw(t, "rows")
			}
			span := 6000
			if rapid.Bool().Draw(t, "dupkeys") {
				span = max(n/3, 1)
			}
			used := map[[2]int]bool{}
			for i := 0; i < n; i++ {
				r := w09Row{Node: rapid.IntRange(0, c.Nodes-1).Draw(t, "node"), ID: rapid.IntRange(0, 7).Draw(t, "id"), T: rapid.IntRange(0, span).Draw(t, "t"), V: int64(i)}
				if span == 6000 {
					// distinct times over all series
					if used[[2]int{-1, r.T}] {
						continue
					}
					used[[2]int{-1, r.T}] = true
				}
				if used[[2]int{r.ID, r.T}] {
					continue
				}
				used[[2]int{r.ID, r.T}] = true
				c.Rows = append(c.Rows, r)
			}
			if c.Nodes >= 2 && len(c.Rows) > 0 && rapid.Bool().Draw(t, "replicas") {
				// replica copies: the same point on another node with another version and another value
				has := map[[3]int]bool{}
				top := map[[2]int]int64{}
				for _, r := range c.Rows {
					has[[3]int{r.Node, r.ID, r.T}] = true
					top[[2]int{r.ID, r.T}] = 1
				}
				base := len(c.Rows)
				for k := rapid.IntRange(1, 12).Draw(t, "ncopies"); k > 0; k-- {
					r := c.Rows[rapid.IntRange(0, base-1).Draw(t, "copyof")]
					node := rapid.IntRange(0, c.Nodes-1).Draw(t, "copynode")
					if has[[3]int{node, r.ID, r.T}] {
						continue
					}
					has[[3]int{node, r.ID, r.T}] = true
					top[[2]int{r.ID, r.T}] += int64(rapid.IntRange(1, 3).Draw(t, "verstep"))
					c.Rows = append(c.Rows, w09Row{Node: node, ID: r.ID, T: r.T, V: int64(1000000 + len(c.Rows)), Ver: top[[2]int{r.ID, r.T}]})
				}
				// the copies arrive in any order relative to the originals
				perm := rapid.Permutation(seqN(len(c.Rows))).Draw(t, "roworder")
				rows := make([]w09Row, len(c.Rows))
				for i, j := range perm {
					rows[i] = c.Rows[j]
				}
				c.Rows = rows
			}
			return c
		},
		Check: func(x *verifkit.Ctx, c w09Case) error {
			if c.Nodes < 1 || c.Nodes > 8 {
				return verifkit.Failf("bad case: %d nodes", c.Nodes)
			}
			times := map[int]bool{}
			distinct, replicas := true, false
			perNode := make([]int, c.Nodes)
			all := &w09EC{}
			nodes := make([]*w09EC, c.Nodes)
			for i := range nodes {
				nodes[i] = &w09EC{shard: common.ShardID(i)}
			}
			onNode := map[[3]int]bool{}
			vers := map[[2]int]map[int64]bool{}
			for _, r := range c.Rows {
				if r.Node < 0 || r.Node >= c.Nodes {
					return verifkit.Failf("bad case: node %d", r.Node)
				}
				if onNode[[3]int{r.Node, r.ID, r.T}] {
					return verifkit.Failf("bad case: two copies of one point on one node")
				}
				onNode[[3]int{r.Node, r.ID, r.T}] = true
				k := [2]int{r.ID, r.T}
				if vers[k] == nil {
					vers[k] = map[int64]bool{}
				}
				if vers[k][r.ver()] {
					return verifkit.Failf("bad case: two copies of one point with the same version")
				}
				vers[k][r.ver()] = true
				if len(vers[k]) > 1 {
					replicas = true
				}
				perNode[r.Node]++
				nodes[r.Node].rows = append(nodes[r.Node].rows, r)
			}
			for _, r := range w09Winners(c.Rows) { // a standalone server keeps the highest version of a point
				if times[r.T] {
					distinct = false
				}
				times[r.T] = true
				all.rows = append(all.rows, r)
			}
			req := c.request()
			idps, err := w09RunLocal(req, all)
			if err != nil {
				return verifkit.Failf("standalone plan: %v", err)
			}
			var dps []*measurev1.DataPoint
			for _, d := range idps {
				dps = append(dps, d.GetDataPoint())
			}
			got, err := w09Render(dps)
			if err != nil {
				return verifkit.Failf("standalone plan: %v", err)
			}
			if err := w09Check("standalone", got, c, distinct); err != nil {
				return err
			}
			s, err := measure.BuildSchema(c10Schema(), nil)
			if err != nil {
				return err
			}
			plan, err := measure.DistributedAnalyze(c.request(), []logical.Schema{s}, time.Second)
			if err != nil {
				return verifkit.Failf("distributed analyze: %v", err)
			}
			cl := &w09Cluster{tr: req.TimeRange, nodes: nodes}
			it, err := plan.(executor.MeasureExecutable).Execute(executor.WithDistributedExecutionContext(context.Background(), cl))
			if err != nil {
				return verifkit.Failf("distributed execute: %v", err)
			}
			dps = nil
			for it.Next() {
				for _, d := range it.Current() {
					dps = append(dps, d.GetDataPoint())
				}
			}
			_ = it.Close()
			got, err = w09Render(dps)
			if err != nil {
				return verifkit.Failf("distributed plan: %v", err)
			}
			if err := w09Check(fmt.Sprintf("cluster of %d nodes (limit pushed to the nodes: %v)", c.Nodes, cl.pushed), got, c, distinct); err != nil {
				return err
			}
			limit := int(c.Limit)
			if limit == 0 {
				limit = 100
			}
			deep := false
			for _, n := range perNode {
				if n > int(c.Offset)+limit {
					deep = true
				}
			}
			x.LabelIf(c.Limit == 0, "default limit")
			x.LabelIf(c.Limit == 0 && c.Offset > 0, "default limit with an offset")
			x.LabelIf(c.Limit == 0 && c.Offset > 0 && len(c.Rows) > int(c.Offset)+100, "default limit with an offset, more rows than the window end")
			x.LabelIf(!distinct, "repeated sort keys")
			x.LabelIf(replicas, "replica copies with different versions")
			x.LabelIf(replicas && !distinct, "replica copies among repeated sort keys")
			x.LabelIf(c.Nodes >= 2, ">=2 nodes")
			x.LabelIf(deep, "a node holds more rows than offset+limit")
			x.LabelIf(len(c.Rows) > int(c.Offset), "offset inside the data")
			if c.Nodes >= 2 && c.Offset > 0 && len(c.Rows) > int(c.Offset) {
				x.NonTrivial()
			}
			return nil
		},
		MinLabelFrac: map[string]float64{"default limit with an offset": 0.2, "repeated sort keys": 0.2, ">=2 nodes": 0.5, "offset inside the data": 0.3,
			"default limit with an offset, more rows than the window end": 0.03},
	}
}
