package measure_test

import (
	"context"
	"fmt"
	"github.com/apache/skywalking-banyandb/api/data"
	"math"
	"sort"
	"strings"
	"testing"
	"time"

	"google.golang.org/protobuf/proto"
	"google.golang.org/protobuf/types/known/timestamppb"
	"pgregory.net/rapid"

	"github.com/apache/skywalking-banyandb/api/common"
	commonv1 "github.com/apache/skywalking-banyandb/api/proto/banyandb/common/v1"
	databasev1 "github.com/apache/skywalking-banyandb/api/proto/banyandb/database/v1"
	measurev1 "github.com/apache/skywalking-banyandb/api/proto/banyandb/measure/v1"
	modelv1 "github.com/apache/skywalking-banyandb/api/proto/banyandb/model/v1"
	"github.com/apache/skywalking-banyandb/pkg/bus"
	"github.com/apache/skywalking-banyandb/pkg/query/executor"
	"github.com/apache/skywalking-banyandb/pkg/query/logical"
	"github.com/apache/skywalking-banyandb/pkg/query/logical/measure"
	"github.com/apache/skywalking-banyandb/pkg/query/model"
	vmeasure "github.com/apache/skywalking-banyandb/pkg/query/vectorized/measure"
	vecplan "github.com/apache/skywalking-banyandb/pkg/query/vectorized/measure/plan"
	"github.com/apache/skywalking-banyandb/verifkit"
)

// C10 (plans): aggregation / group-by / top-N through the real logical plans over in-memory rows.
// (1) the single-place plan equals a reference evaluator of the documented definitions;
// (2) the distributed plan (map on every data node, de-dup + reduce + top on the coordinator)
//     over ANY partition of the series into shards/nodes, with replica responses, equals (1).

type c10Row struct {
	ID     int   `json:"id"`     // entity tag value "svc-<id>"
	Region int   `json:"region"` // non-entity tag "r<region>"
	V      int64 `json:"v"`      // int field "value"; float field "fval" = v/4
	T      int   `json:"t"`      // second offset
}

type c10Plan struct {
	Rows     []c10Row `json:"rows"`
	Shards   int      `json:"shards"`
	ShardOf  []int    `json:"shard_of"` // per series id (index = id) -> shard
	Replicas []int    `json:"replicas"` // per shard: number of additional replica responses
	Fn       string   `json:"fn"`       // SUM | COUNT | MIN | MAX | MEAN
	Float    bool     `json:"float"`
	GroupBy  string   `json:"group_by"` // region | id
	TopN     int      `json:"top_n"`    // 0 = no top
	TopDesc  bool     `json:"top_desc"`
	// ShardBase is added to the shard indexes 0..Shards-1 to form the shard ids the data nodes report (groups with many shards).
	ShardBase uint32 `json:"shard_base,omitempty"`
}

const (
	c10Group   = "sw_metric"
	c10Measure = "service_cpm"
)

var c10Fn = map[string]modelv1.AggregationFunction{
	"SUM": modelv1.AggregationFunction_AGGREGATION_FUNCTION_SUM, "COUNT": modelv1.AggregationFunction_AGGREGATION_FUNCTION_COUNT,
	"MIN": modelv1.AggregationFunction_AGGREGATION_FUNCTION_MIN, "MAX": modelv1.AggregationFunction_AGGREGATION_FUNCTION_MAX,
	"MEAN": modelv1.AggregationFunction_AGGREGATION_FUNCTION_MEAN,
}

func c10Schema() *databasev1.Measure {
	return &databasev1.Measure{
		Metadata: &commonv1.Metadata{Name: c10Measure, Group: c10Group},
		TagFamilies: []*databasev1.TagFamilySpec{{Name: "default", Tags: []*databasev1.TagSpec{
			{Name: "id", Type: databasev1.TagType_TAG_TYPE_STRING}, {Name: "region", Type: databasev1.TagType_TAG_TYPE_STRING},
		}}},
		Fields: []*databasev1.FieldSpec{
			{Name: "value", FieldType: databasev1.FieldType_FIELD_TYPE_INT}, {Name: "fval", FieldType: databasev1.FieldType_FIELD_TYPE_FLOAT},
		},
		Entity: &databasev1.Entity{TagNames: []string{"id"}},
	}
}

type c10EC struct {
	rows  []c10Row
	shard common.ShardID
}

// Query returns the rows series by series in timestamp order, as the storage engine does (the
// group-by-entity plan relies on that contiguity).
func (e *c10EC) Query(_ context.Context, _ model.MeasureQueryOptions) (model.MeasureQueryResult, error) {
	rows := append([]c10Row(nil), e.rows...)
	sort.SliceStable(rows, func(i, j int) bool {
		if rows[i].ID != rows[j].ID {
			return rows[i].ID < rows[j].ID
		}
		return rows[i].T < rows[j].T
	})
	return &c10Result{rows: rows, shard: e.shard}, nil
}

type c10Result struct {
	rows  []c10Row
	shard common.ShardID
	idx   int
}

func strTag(s string) *modelv1.TagValue {
	return &modelv1.TagValue{Value: &modelv1.TagValue_Str{Str: &modelv1.Str{Value: s}}}
}

func (r *c10Result) Pull() *model.MeasureResult {
	if r.idx >= len(r.rows) {
		return nil
	}
	row := r.rows[r.idx]
	r.idx++
	return &model.MeasureResult{
		SID:        common.SeriesID(1000 + row.ID),
		Timestamps: []int64{time.Unix(1500+int64(row.T), 0).UnixNano()},
		Versions:   []int64{1},
		ShardIDs:   []common.ShardID{r.shard},
		TagFamilies: []model.TagFamily{{Name: "default", Tags: []model.Tag{
			{Name: "id", Values: []*modelv1.TagValue{strTag(fmt.Sprintf("svc-%d", row.ID))}},
			{Name: "region", Values: []*modelv1.TagValue{strTag(fmt.Sprintf("r%d", row.Region))}},
		}}},
		Fields: []model.Field{
			{Name: "value", Values: []*modelv1.FieldValue{{Value: &modelv1.FieldValue_Int{Int: &modelv1.Int{Value: row.V}}}}},
			{Name: "fval", Values: []*modelv1.FieldValue{{Value: &modelv1.FieldValue_Float{Float: &modelv1.Float{Value: float64(row.V) / 4}}}}},
		},
	}
}

func (r *c10Result) Release() {}

func c10RunLocal(req *measurev1.QueryRequest, ec *c10EC, emitPartial bool) ([]*measurev1.InternalDataPoint, error) {
	md := c10Schema()
	s, err := measure.BuildSchema(md, nil)
	if err != nil {
		return nil, err
	}
	plan, err := measure.Analyze(req, []*commonv1.Metadata{md.Metadata}, []logical.Schema{s}, []executor.MeasureExecutionContext{ec}, emitPartial)
	if err != nil {
		return nil, fmt.Errorf("analyze: %w", err)
	}
	it, err := plan.(executor.MeasureExecutable).Execute(context.Background())
	if err != nil {
		return nil, fmt.Errorf("execute: %w", err)
	}
	defer it.Close()
	var out []*measurev1.InternalDataPoint
	for it.Next() {
		out = append(out, it.Current()...)
	}
	return out, nil
}

// c10RunVec answers the request with the vectorized executor the way banyand/query/processor.go does
// when the measure vectorized flag is on (vectorized/measure/plan.Dispatch).
func c10RunVec(req *measurev1.QueryRequest, ec *c10EC, batch int) (out []*measurev1.DataPoint, err error) {
	defer func() {
		if r := recover(); r != nil {
			err = fmt.Errorf("panic: %v", r)
		}
	}()
	md := c10Schema()
	s, err := measure.BuildSchema(md, nil)
	if err != nil {
		return nil, err
	}
	cfg := vmeasure.DefaultConfig()
	cfg.BatchSize = batch
	it, _, handled, err := vecplan.Dispatch(context.Background(), req, md.Metadata, md, s, ec, cfg, false, false)
	if err != nil {
		return nil, err
	}
	if !handled {
		return nil, fmt.Errorf("dispatch declined the request with the flag on")
	}
	for it.Next() {
		for _, idp := range it.Current() {
			out = append(out, idp.GetDataPoint())
		}
	}
	if cerr := it.Close(); cerr != nil {
		return nil, fmt.Errorf("iterator: %w", cerr)
	}
	return out, nil
}

type c10Node struct {
	name string
	ec   *c10EC
}

type c10Cluster struct {
	tr    *modelv1.TimeRange
	nodes []c10Node
	err   error
	// vec: the data nodes answer with the columnar executor and a raw frame body (flag on), as
	// banyand/query.measureInternalQueryProcessor does; batch is their batch size
	vec   bool
	batch int
}

// c10NodeFrame runs the node-side vectorized plan and returns the raw frame body the data node would send.
func c10NodeFrame(req *measurev1.QueryRequest, ec *c10EC, emitPartial bool, batch int) (body []byte, err error) {
	defer func() {
		if r := recover(); r != nil {
			err = fmt.Errorf("panic: %v", r)
		}
	}()
	md := c10Schema()
	s, err := measure.BuildSchema(md, nil)
	if err != nil {
		return nil, err
	}
	cfg := vmeasure.DefaultConfig()
	cfg.BatchSize = batch
	it, _, handled, err := vecplan.Dispatch(context.Background(), req, md.Metadata, md, s, ec, cfg, emitPartial, false)
	if err != nil {
		return nil, err
	}
	if !handled {
		return nil, fmt.Errorf("dispatch declined the node request with the flag on")
	}
	defer it.Close()
	emitter, ok := it.(vmeasure.FrameEmitter)
	if !ok {
		return nil, fmt.Errorf("node iterator %T cannot emit a frame", it)
	}
	return emitter.EmitFrame(context.Background())
}

type c10Future struct{ m bus.Message }

func (f c10Future) Get() (bus.Message, error)      { return f.m, nil }
func (f c10Future) GetAll() ([]bus.Message, error) { return []bus.Message{f.m}, nil }

func (c *c10Cluster) Broadcast(_ time.Duration, _ bus.Topic, message bus.Message) ([]bus.Future, error) {
	ir, ok := message.Data().(*measurev1.InternalQueryRequest)
	if !ok {
		return nil, fmt.Errorf("unexpected payload %T", message.Data())
	}
	ff := make([]bus.Future, 0, len(c.nodes))
	for i, n := range c.nodes {
		req := proto.Clone(ir.GetRequest()).(*measurev1.QueryRequest)
		if c.vec {
			body, ferr := c10NodeFrame(req, n.ec, ir.GetAggReturnPartial(), c.batch)
			if ferr != nil {
				c.err = ferr
				return nil, ferr
			}
			ff = append(ff, c10Future{m: bus.NewMessageWithNode(bus.MessageID(i+1), n.name, &measurev1.InternalQueryResponse{RawFrameBody: body})})
			continue
		}
		dps, err := c10RunLocal(req, n.ec, ir.GetAggReturnPartial())
		if err != nil {
			c.err = err
			return nil, err
		}
		ff = append(ff, c10Future{m: bus.NewMessageWithNode(bus.MessageID(i+1), n.name, &measurev1.InternalQueryResponse{DataPoints: dps})})
	}
	return ff, nil
}

func (c *c10Cluster) TimeRange() *modelv1.TimeRange      { return c.tr }
func (c *c10Cluster) NodeSelectors() map[string][]string { return nil }

func c10RunDistributed(req *measurev1.QueryRequest, nodes []c10Node) ([]*measurev1.DataPoint, error) {
	s, err := measure.BuildSchema(c10Schema(), nil)
	if err != nil {
		return nil, err
	}
	plan, err := measure.DistributedAnalyze(req, []logical.Schema{s}, time.Second)
	if err != nil {
		return nil, fmt.Errorf("distributed analyze: %w", err)
	}
	ctx := executor.WithDistributedExecutionContext(context.Background(), &c10Cluster{tr: req.TimeRange, nodes: nodes})
	it, err := plan.(executor.MeasureExecutable).Execute(ctx)
	if err != nil {
		return nil, fmt.Errorf("distributed execute: %w", err)
	}
	defer it.Close()
	var out []*measurev1.DataPoint
	for it.Next() {
		for _, c := range it.Current() {
			out = append(out, c.GetDataPoint())
		}
	}
	return out, nil
}

// c10RunVecDistributed: coordinator and data nodes with the flag on - the vectorized distributed plan over raw frames.
func c10RunVecDistributed(req *measurev1.QueryRequest, nodes []c10Node, batch int) (out []*measurev1.DataPoint, err error) {
	defer func() {
		if r := recover(); r != nil {
			err = fmt.Errorf("panic: %v", r)
		}
	}()
	data.SetMeasureWireModeRaw(true)
	defer data.SetMeasureWireModeRaw(false)
	cfg := vmeasure.DefaultConfig()
	cfg.BatchSize = batch
	plan, err := vecplan.AnalyzeDistributed(req, []*databasev1.Measure{c10Schema()}, [][]*databasev1.IndexRule{nil}, cfg)
	if err != nil {
		return nil, fmt.Errorf("vectorized distributed analyze: %w", err)
	}
	ctx := executor.WithDistributedExecutionContext(context.Background(), &c10Cluster{tr: req.TimeRange, nodes: nodes, vec: true, batch: batch})
	it, err := plan.Execute(ctx)
	if err != nil {
		return nil, fmt.Errorf("vectorized distributed execute: %w", err)
	}
	defer it.Close()
	for it.Next() {
		for _, c := range it.Current() {
			out = append(out, c.GetDataPoint())
		}
	}
	return out, nil
}

// vecBatch derives a batch size from the case (no extra draw, so committed replays stay valid).
func (c c10Plan) vecBatch() int {
	return []int{1, 2, 3, 7, 1024}[(len(c.Rows)+c.Shards+c.TopN)%5]
}

func (c c10Plan) field() string {
	if c.Float {
		return "fval"
	}
	return "value"
}

func (c c10Plan) request() *measurev1.QueryRequest {
	gb := c.GroupBy
	if gb == "none" {
		gb = "region"
	}
	proj := &modelv1.TagProjection{TagFamilies: []*modelv1.TagProjection_TagFamily{{Name: "default", Tags: []string{gb}}}}
	req := &measurev1.QueryRequest{
		Groups: []string{c10Group}, Name: c10Measure,
		TimeRange:       &modelv1.TimeRange{Begin: timestamppb.New(time.Unix(1000, 0)), End: timestamppb.New(time.Unix(9000, 0))},
		TagProjection:   proj,
		FieldProjection: &measurev1.QueryRequest_FieldProjection{Names: []string{c.field()}},
		GroupBy:         &measurev1.QueryRequest_GroupBy{TagProjection: proj, FieldName: c.field()},
		Agg:             &measurev1.QueryRequest_Aggregation{Function: c10Fn[c.Fn], FieldName: c.field()},
		Limit:           10000,
	}
	if c.GroupBy == "none" {
		req.GroupBy = nil
	}
	if c.TopN > 0 && c.GroupBy != "none" {
		srt := modelv1.Sort_SORT_ASC
		if c.TopDesc {
			srt = modelv1.Sort_SORT_DESC
		}
		req.Top = &measurev1.QueryRequest_Top{Number: int32(c.TopN), FieldName: c.field(), FieldValueSort: srt}
	}
	return req
}

type c10Out struct {
	group string
	val   string // rendered value
	num   float64
	inum  int64 // exact value of an int result (float64 cannot tell neighbours above 2^53 apart)
	isInt bool
}

// c10Less orders results exactly: int results by their int64 value.
func c10Less(a, b c10Out) bool {
	if a.isInt && b.isInt {
		return a.inum < b.inum
	}
	return a.num < b.num
}

func c10Render(dps []*measurev1.DataPoint, groupBy string) ([]c10Out, error) {
	var out []c10Out
	for _, dp := range dps {
		if len(dp.GetFields()) == 0 {
			return nil, fmt.Errorf("malformed data point %v", dp)
		}
		o := c10Out{group: "*"}
		if groupBy != "none" {
			if len(dp.GetTagFamilies()) == 0 || len(dp.GetTagFamilies()[0].GetTags()) == 0 {
				return nil, fmt.Errorf("data point without group tags %v", dp)
			}
			o.group = dp.GetTagFamilies()[0].GetTags()[0].GetValue().GetStr().GetValue()
		}
		switch v := dp.GetFields()[0].GetValue().GetValue().(type) {
		case *modelv1.FieldValue_Int:
			o.val, o.num, o.inum, o.isInt = fmt.Sprintf("int:%d", v.Int.GetValue()), float64(v.Int.GetValue()), v.Int.GetValue(), true
		case *modelv1.FieldValue_Float:
			o.val, o.num = fmt.Sprintf("float:%v", v.Float.GetValue()), v.Float.GetValue()
		default:
			o.val = fmt.Sprintf("?%v", dp.GetFields()[0])
		}
		out = append(out, o)
	}
	return out, nil
}

// reference evaluates the documented definitions directly.
func (c c10Plan) reference() map[string]c10Out {
	groups := map[string][]int64{}
	for _, r := range c.Rows {
		g := fmt.Sprintf("r%d", r.Region)
		if c.GroupBy == "id" {
			g = fmt.Sprintf("svc-%d", r.ID)
		}
		if c.GroupBy == "none" {
			g = "*"
		}
		groups[g] = append(groups[g], r.V)
	}
	out := map[string]c10Out{}
	for g, vs := range groups {
		if c.Float {
			var sum float64
			mn, mx := math.Inf(1), math.Inf(-1)
			for _, v := range vs {
				f := float64(v) / 4
				sum += f
				mn, mx = math.Min(mn, f), math.Max(mx, f)
			}
			var res float64
			switch c.Fn {
			case "SUM":
				res = sum
			case "COUNT":
				res = float64(len(vs))
			case "MIN":
				res = mn
			case "MAX":
				res = mx
			default:
				res = sum / float64(len(vs))
			}
			out[g] = c10Out{group: g, val: fmt.Sprintf("float:%v", res), num: res}
		} else {
			var sum int64
			mn, mx := vs[0], vs[0]
			for _, v := range vs {
				sum += v
				mn, mx = min(mn, v), max(mx, v)
			}
			var res int64
			switch c.Fn {
			case "SUM":
				res = sum
			case "COUNT":
				res = int64(len(vs))
			case "MIN":
				res = mn
			case "MAX":
				res = mx
			default:
				res = sum / int64(len(vs))
			}
			out[g] = c10Out{group: g, val: fmt.Sprintf("int:%d", res), num: float64(res), inum: res, isInt: true}
		}
	}
	return out
}

// checkAgainst verifies a result against the reference: without top every group exactly once with
// its reference value; with top-N a valid window (right size, correct values, the multiset of
// values equals the N best values; ties may pick any group).
func (c c10Plan) checkAgainst(got []c10Out, ref map[string]c10Out, who string) error {
	seen := map[string]bool{}
	for _, g := range got {
		r, ok := ref[g.group]
		if !ok {
			return fmt.Errorf("%s: returned group %q which has no rows", who, g.group)
		}
		if seen[g.group] {
			return fmt.Errorf("%s: group %q returned twice", who, g.group)
		}
		seen[g.group] = true
		if r.val != g.val {
			return fmt.Errorf("%s: %s(%s) of group %q = %s, definition gives %s", who, c.Fn, c.field(), g.group, g.val, r.val)
		}
	}
	if c.TopN == 0 || c.GroupBy == "none" {
		if len(got) != len(ref) {
			return fmt.Errorf("%s: %d groups returned, %d groups have rows", who, len(got), len(ref))
		}
		return nil
	}
	want := min(c.TopN, len(ref))
	if len(got) != want {
		return fmt.Errorf("%s: top-%d returned %d groups out of %d", who, c.TopN, len(got), len(ref))
	}
	var all []c10Out
	for _, r := range ref {
		all = append(all, r)
	}
	sorted := append([]c10Out(nil), got...)
	for _, l := range [][]c10Out{all, sorted} {
		l := l
		sort.SliceStable(l, func(i, j int) bool {
			if c.TopDesc {
				return c10Less(l[j], l[i])
			}
			return c10Less(l[i], l[j])
		})
	}
	for i := range sorted {
		if sorted[i].val != all[i].val {
			var gv, best []string
			for _, g := range got {
				gv = append(gv, g.val)
			}
			for _, a := range all[:want] {
				best = append(best, a.val)
			}
			return fmt.Errorf("%s: top-%d (desc=%v) returned values %v, the %d best of all groups are %v", who, c.TopN, c.TopDesc, gv, want, best)
		}
	}
	return nil
}

func meanBelowOnePlan(c c10Plan) bool {
	if c.Fn != "MEAN" {
		return false
	}
	for _, r := range c.reference() {
		if r.num < 1 {
			return true
		}
	}
	return false
}

func TestVerifC10Plans(t *testing.T) {
	verifkit.Run(t, verifkit.Spec[c10Plan]{
		Property: "C10", Unit: "plans",
		Rule: "1..40 rows (series svc-0..7 in regions r0..3, int field value / float field value/4, boundary ints for MIN/MAX/COUNT, moderate ints for " +
			"SUM/MEAN), function in {SUM,COUNT,MIN,MAX,MEAN}, group-by region (non-entity: a group spans nodes) or id, optional TOP/BOTTOM-N, and a " +
			"partition of the series over 1..4 shards (= data nodes; shard ids start at a base in {0, 30, 61, 63, 64, 255, 4096, 2^31}) with 0..2 extra replica responses per shard; oracles: single-place plan == reference " +
			"evaluator; distributed plan over the partition == single-place plan (valid-window comparison under top-N ties); non-trivial = >= 2 shards " +
			"with rows and a group whose rows live on >= 2 shards",
		Known: []verifkit.Known[c10Plan]{{Key: "mean-clamped-to-1", Match: meanBelowOnePlan}},
		Gen: func(t *rapid.T, ks *verifkit.KnownSet) c10Plan {
			c := c10Plan{Fn: rapid.SampledFrom([]string{"SUM", "COUNT", "MIN", "MAX", "MEAN"}).Draw(t, "fn"), Float: rapid.Bool().Draw(t, "float"),
				GroupBy: rapid.SampledFrom([]string{"region", "region", "id", "none"}).Draw(t, "gb"), Shards: rapid.IntRange(1, 4).Draw(t, "shards")}
			if rapid.Bool().Draw(t, "top") {
				c.TopN = rapid.IntRange(1, 4).Draw(t, "topn")
				c.TopDesc = rapid.Bool().Draw(t, "desc")
			}
			for i := 0; i < 8; i++ {
				c.ShardOf = append(c.ShardOf, rapid.IntRange(0, c.Shards-1).Draw(t, "shardof"))
			}
			c.ShardBase = rapid.SampledFrom([]uint32{0, 0, 0, 30, 61, 63, 64, 255, 4096, 1 << 31}).Draw(t, "shardbase")
			for i := 0; i < c.Shards; i++ {
				c.Replicas = append(c.Replicas, rapid.SampledFrom([]int{0, 0, 1, 2}).Draw(t, "replicas"))
			}
			positive := c.Fn == "MEAN" && ks.Active("mean-clamped-to-1")
			if positive {
				ks.Excluded("mean-clamped-to-1")
			}
			n := rapid.IntRange(1, 40).Draw(t, "rows")
			seen := map[[2]int]bool{}
			regionOf := map[int]int{}
			for i := 0; i < n; i++ {
				r := c10Row{ID: rapid.IntRange(0, 7).Draw(t, "id"), T: rapid.IntRange(0, 30).Draw(t, "t")}
				if seen[[2]int{r.ID, r.T}] {
					continue
				}
				seen[[2]int{r.ID, r.T}] = true
				if _, ok := regionOf[r.ID]; !ok {
					regionOf[r.ID] = rapid.IntRange(0, 3).Draw(t, "region")
				}
				r.Region = regionOf[r.ID]
				switch {
				case positive:
					// zeros and small negatives too (a shard's partial may sum to exactly zero); groups whose mean would fall below 1 are lifted below
					switch rapid.IntRange(0, 3).Draw(t, "pk") {
					case 0:
						r.V = 0
					case 1:
						r.V = int64(rapid.IntRange(-40, 40).Draw(t, "v"))
					default:
						r.V = int64(rapid.IntRange(4, 100000).Draw(t, "v"))
					}
				case c.Float || c.Fn == "SUM" || c.Fn == "MEAN":
					r.V = int64(rapid.IntRange(-100000, 100000).Draw(t, "v"))
				default:
					r.V = verifkit.Int64(t, "v")
				}
				c.Rows = append(c.Rows, r)
			}
			if len(c.Rows) == 0 {
				c.Rows = []c10Row{{ID: 0, Region: 0, V: 7, T: 0}}
			}
			if positive {
				// construct around the recorded finding: raise the largest value of every group whose mean is below 1 (float field: value/4)
				for tries := 0; tries < 8 && meanBelowOnePlan(c); tries++ {
					for g, r := range c.reference() {
						if r.num >= 1 {
							continue
						}
						best := -1
						for i, row := range c.Rows {
							rg := fmt.Sprintf("r%d", row.Region)
							if c.GroupBy == "id" {
								rg = fmt.Sprintf("svc-%d", row.ID)
							}
							if c.GroupBy == "none" {
								rg = "*"
							}
							if rg == g && (best < 0 || row.V > c.Rows[best].V) {
								best = i
							}
						}
						if best >= 0 {
							c.Rows[best].V = 4_000_000
						}
					}
				}
			}
			return c
		},
		Check: func(x *verifkit.Ctx, c c10Plan) error {
			req := c.request()
			ref := c.reference()
			all := &c10EC{rows: c.Rows}
			localIDP, err := c10RunLocal(proto.Clone(req).(*measurev1.QueryRequest), all, false)
			if err != nil {
				return verifkit.Failf("single-place plan failed: %v", err)
			}
			var localDP []*measurev1.DataPoint
			for _, idp := range localIDP {
				localDP = append(localDP, idp.GetDataPoint())
			}
			local, err := c10Render(localDP, c.GroupBy)
			if err != nil {
				return err
			}
			if err := c.checkAgainst(local, ref, "single-place plan"); err != nil {
				return err
			}
			// the vectorized executor over the same rows (batch sizes around the row count)
			vecDP, err := c10RunVec(proto.Clone(req).(*measurev1.QueryRequest), all, c.vecBatch())
			if err != nil {
				return verifkit.Failf("vectorized single-place plan failed: %v", err)
			}
			vec, err := c10Render(vecDP, c.GroupBy)
			if err != nil {
				return err
			}
			if err := c.checkAgainst(vec, ref, "vectorized single-place plan"); err != nil {
				return err
			}
			// partition the series over shards; every shard is one data node, plus replica responders
			perShard := make([][]c10Row, c.Shards)
			for _, r := range c.Rows {
				s := c.ShardOf[r.ID%len(c.ShardOf)] % c.Shards
				perShard[s] = append(perShard[s], r)
			}
			var nodes []c10Node
			withRows := 0
			for s := 0; s < c.Shards; s++ {
				if len(perShard[s]) > 0 {
					withRows++
				}
				for k := 0; k <= c.Replicas[s%len(c.Replicas)]; k++ {
					nodes = append(nodes, c10Node{name: fmt.Sprintf("data-%d-%d", s, k), ec: &c10EC{rows: perShard[s], shard: common.ShardID(c.ShardBase + uint32(s))}})
				}
			}
			distDP, err := c10RunDistributed(proto.Clone(req).(*measurev1.QueryRequest), nodes)
			if err != nil {
				return verifkit.Failf("distributed plan failed: %v", err)
			}
			dist, err := c10Render(distDP, c.GroupBy)
			if err != nil {
				return err
			}
			if err := c.checkAgainst(dist, ref, fmt.Sprintf("distributed plan over %d shards / %d responders", c.Shards, len(nodes))); err != nil {
				return err
			}
			// the same partition answered by the vectorized distributed plan (flag on everywhere)
			vdistDP, err := c10RunVecDistributed(proto.Clone(req).(*measurev1.QueryRequest), nodes, c.vecBatch())
			if err != nil {
				return verifkit.Failf("vectorized distributed plan failed: %v", err)
			}
			vdist, err := c10Render(vdistDP, c.GroupBy)
			if err != nil {
				return err
			}
			if err := c.checkAgainst(vdist, ref, fmt.Sprintf("vectorized distributed plan over %d shards / %d responders", c.Shards, len(nodes))); err != nil {
				return err
			}
			// a group spanning >= 2 shards
			span := false
			gs := map[string]map[int]bool{}
			for _, r := range c.Rows {
				g := fmt.Sprintf("r%d", r.Region)
				if c.GroupBy == "id" {
					g = fmt.Sprintf("svc-%d", r.ID)
				}
				if c.GroupBy == "none" {
					g = "*"
				}
				if gs[g] == nil {
					gs[g] = map[int]bool{}
				}
				gs[g][c.ShardOf[r.ID%len(c.ShardOf)]%c.Shards] = true
				if len(gs[g]) >= 2 {
					span = true
				}
			}
			x.Label("fn:" + c.Fn)
			x.LabelIf(c.TopN > 0, "top-N")
			x.Label("group-by:" + c.GroupBy)
			x.LabelIf(span, "group spans >=2 shards")
			x.LabelIf(len(nodes) > c.Shards, "replica responses")
			x.LabelIf(len(nodes) > c.Shards && c.ShardBase+uint32(c.Shards) > 64, "replica responses for shard ids >= 64")
			x.LabelIf(c.TopN > 0 && c.TopN < len(ref), "top-N cuts")
			if withRows >= 2 && span {
				x.NonTrivial()
			}
			return nil
		},
		MinLabelFrac: map[string]float64{"group spans >=2 shards": 0.25, "replica responses": 0.3, "top-N cuts": 0.1},
	})
}

var _ = strings.Join
