package measure_test

import (
	"context"
	"fmt"
	"math"
	"sort"
	"strings"
	"testing"
	"time"

	"google.golang.org/protobuf/proto"
	"google.golang.org/protobuf/types/known/timestamppb"
	"pgregory.net/rapid"

	"github.com/apache/skywalking-banyandb/api/common"
	commonv1 "github.com/apache/skywalking-banyandb/api/proto/banyandb/common/v1"
	databasev1 "github.com/apache/skywalking-banyandb/api/proto/banyandb/database/v1"
	measurev1 "github.com/apache/skywalking-banyandb/api/proto/banyandb/measure/v1"
	modelv1 "github.com/apache/skywalking-banyandb/api/proto/banyandb/model/v1"
	pbv1 "github.com/apache/skywalking-banyandb/pkg/pb/v1"
	"github.com/apache/skywalking-banyandb/pkg/query/executor"
	"github.com/apache/skywalking-banyandb/pkg/query/logical"
	"github.com/apache/skywalking-banyandb/pkg/query/logical/measure"
	"github.com/apache/skywalking-banyandb/pkg/query/model"
	"github.com/apache/skywalking-banyandb/pkg/query/vectorized"
	vmeasure "github.com/apache/skywalking-banyandb/pkg/query/vectorized/measure"
	vecplan "github.com/apache/skywalking-banyandb/pkg/query/vectorized/measure/plan"
	"github.com/apache/skywalking-banyandb/verifkit"
)

// C15 (single node, measure): the same request over the same storage result answered by the
// row-at-a-time plan (flag off: logical/measure.Analyze + Execute) and by the columnar plan (flag on:
// vectorized/measure/plan.Dispatch, as banyand/query/processor.go calls it) yields the same response:
// same data points, values and order, and an error on one side iff on the other.

type c15Row struct {
	ID         int   `json:"id"`
	T          int   `json:"t"`
	Region     int   `json:"region"` // <0: null
	Zone       int64 `json:"zone"`
	ZoneNull   bool  `json:"zone_null,omitempty"`
	V          int64 `json:"v"`
	VNull      bool  `json:"v_null,omitempty"`
	FQuarter   int64 `json:"fq"` // fval = fq/4
	FNull      bool  `json:"f_null,omitempty"`
	RegionNull bool  `json:"-"`
}

type c15Case struct {
	Rows     []c15Row `json:"rows"`
	Chunk    int      `json:"chunk"` // rows per storage result block of one series
	Tags     []string `json:"tags"`
	Fields   []string `json:"fields"`
	GroupBy  []string `json:"group_by"`
	Fn       string   `json:"fn"`
	AggField string   `json:"agg_field"`
	TopN     int      `json:"top_n"`
	TopDesc  bool     `json:"top_desc"`
	TopField string   `json:"top_field"`
	Limit    int      `json:"limit"`
	Offset   int      `json:"offset"`
	IDs      []int    `json:"ids"` // criteria on the entity tag: 1 = eq, >1 = in
	Begin    int      `json:"begin"`
	End      int      `json:"end"`
	Batch    int      `json:"batch"`
	BatchEC  bool     `json:"batch_ec"` // storage stand-in answers the columnar side with pooled MeasureBatches (as banyand/measure does)
	Repeat   int      `json:"repeat"`   // the vectorized side is asked the same request this many extra times (pooled columns are reused)
}

func c15Schema() *databasev1.Measure {
	return &databasev1.Measure{
		Metadata: &commonv1.Metadata{Name: c10Measure, Group: c10Group},
		TagFamilies: []*databasev1.TagFamilySpec{{Name: "default", Tags: []*databasev1.TagSpec{
			{Name: "id", Type: databasev1.TagType_TAG_TYPE_STRING}, {Name: "region", Type: databasev1.TagType_TAG_TYPE_STRING},
			{Name: "zone", Type: databasev1.TagType_TAG_TYPE_INT},
		}}},
		Fields: []*databasev1.FieldSpec{
			{Name: "value", FieldType: databasev1.FieldType_FIELD_TYPE_INT}, {Name: "fval", FieldType: databasev1.FieldType_FIELD_TYPE_FLOAT},
		},
		Entity: &databasev1.Entity{TagNames: []string{"id"}},
	}
}

// c15EC is the storage stand-in: it honours the options the plans hand to storage (time range,
// entities, tag/field projection) and returns the rows series by series in blocks.
type c15EC struct {
	rows  []c15Row
	chunk int
	batch bool
}

func (e *c15EC) Query(_ context.Context, opts model.MeasureQueryOptions) (model.MeasureQueryResult, error) {
	rows := make([]c15Row, 0, len(e.rows))
	for _, r := range e.rows {
		ts := time.Unix(1500+int64(r.T), 0).UnixNano()
		if opts.TimeRange != nil && !opts.TimeRange.Contains(ts) {
			continue
		}
		if len(opts.Entities) > 0 {
			match := false
			for _, ent := range opts.Entities {
				if len(ent) == 0 || ent[0] == pbv1.AnyTagValue || ent[0].GetStr().GetValue() == fmt.Sprintf("svc-%d", r.ID) {
					match = true
				}
			}
			if !match {
				continue
			}
		}
		rows = append(rows, r)
	}
	sort.SliceStable(rows, func(i, j int) bool {
		if rows[i].ID != rows[j].ID {
			return rows[i].ID < rows[j].ID
		}
		return rows[i].T < rows[j].T
	})
	if len(rows) == 0 {
		return nil, nil
	}
	res := &c15Result{rows: rows, chunk: e.chunk, tags: opts.TagProjection, fields: opts.FieldProjection}
	if e.batch {
		bs, err := vmeasure.BuildBatchSchema(c15Schema(), opts)
		if err != nil {
			return nil, err
		}
		return &c15BatchResult{c15Result: res, schema: bs}, nil
	}
	return res, nil
}

// c15BatchResult additionally implements model.MeasureBatchResult the way banyand/measure does: one
// pooled MeasureBatch per storage block, native typed columns where the schema asks for them.
type c15BatchResult struct {
	*c15Result
	schema *vectorized.BatchSchema
}

func (r *c15BatchResult) PullBatch(_ context.Context) (*model.MeasureBatch, error) {
	mr := r.Pull()
	if mr == nil {
		return nil, nil
	}
	n := len(mr.Timestamps)
	mb := model.AcquireMeasureBatch(r.schema, n)
	for i := 0; i < n; i++ {
		mb.Timestamps = append(mb.Timestamps, mr.Timestamps[i])
		mb.Versions = append(mb.Versions, mr.Versions[i])
		mb.ShardIDs = append(mb.ShardIDs, mr.ShardIDs[i])
		mb.SeriesIDs = append(mb.SeriesIDs, mr.SID)
	}
	ti, fi := 0, 0
	for _, def := range r.schema.Columns {
		switch def.Role {
		case vectorized.RoleTag:
			var vals []*modelv1.TagValue
			for _, tf := range mr.TagFamilies {
				for _, tag := range tf.Tags {
					if tf.Name == def.TagFamily && tag.Name == def.Name {
						vals = tag.Values
					}
				}
			}
			col := mb.Tags[ti]
			ti++
			for i := 0; i < n; i++ {
				v := pbv1.NullTagValue
				if vals != nil {
					v = vals[i]
				}
				_, isNull := v.GetValue().(*modelv1.TagValue_Null)
				switch tc := col.(type) {
				case *vectorized.TypedColumn[string]:
					if isNull {
						tc.AppendNull()
					} else {
						tc.Append(v.GetStr().GetValue())
					}
				case *vectorized.TypedColumn[int64]:
					if isNull {
						tc.AppendNull()
					} else {
						tc.Append(v.GetInt().GetValue())
					}
				case *vectorized.TypedColumn[*modelv1.TagValue]:
					tc.Append(v)
				default:
					return nil, fmt.Errorf("stand-in: unexpected tag column type %T", col)
				}
			}
		case vectorized.RoleField:
			var vals []*modelv1.FieldValue
			for _, f := range mr.Fields {
				if f.Name == def.Name {
					vals = f.Values
				}
			}
			col := mb.Fields[fi]
			fi++
			for i := 0; i < n; i++ {
				v := pbv1.NullFieldValue
				if vals != nil {
					v = vals[i]
				}
				_, isNull := v.GetValue().(*modelv1.FieldValue_Null)
				switch tc := col.(type) {
				case *vectorized.TypedColumn[int64]:
					if isNull {
						tc.AppendNull()
					} else {
						tc.Append(v.GetInt().GetValue())
					}
				case *vectorized.TypedColumn[float64]:
					if isNull {
						tc.AppendNull()
					} else {
						tc.Append(v.GetFloat().GetValue())
					}
				case *vectorized.TypedColumn[*modelv1.FieldValue]:
					tc.Append(v)
				default:
					return nil, fmt.Errorf("stand-in: unexpected field column type %T", col)
				}
			}
		}
	}
	return mb, nil
}

type c15Result struct {
	rows   []c15Row
	tags   []model.TagProjection
	fields []string
	chunk  int
	idx    int
}

func (r *c15Result) Pull() *model.MeasureResult {
	if r.idx >= len(r.rows) {
		return nil
	}
	end := r.idx + 1
	for end < len(r.rows) && r.rows[end].ID == r.rows[r.idx].ID && end-r.idx < r.chunk {
		end++
	}
	blk := r.rows[r.idx:end]
	r.idx = end
	res := &model.MeasureResult{SID: common.SeriesID(1000 + blk[0].ID)}
	for _, row := range blk {
		res.Timestamps = append(res.Timestamps, time.Unix(1500+int64(row.T), 0).UnixNano())
		res.Versions = append(res.Versions, 1)
		res.ShardIDs = append(res.ShardIDs, 0)
	}
	for _, tp := range r.tags {
		tf := model.TagFamily{Name: tp.Family}
		for _, name := range tp.Names {
			tag := model.Tag{Name: name}
			for _, row := range blk {
				v := pbv1.NullTagValue
				switch {
				case name == "id":
					v = strTag(fmt.Sprintf("svc-%d", row.ID))
				case name == "region" && row.Region >= 0:
					v = strTag(fmt.Sprintf("r%d", row.Region))
				case name == "zone" && !row.ZoneNull:
					v = &modelv1.TagValue{Value: &modelv1.TagValue_Int{Int: &modelv1.Int{Value: row.Zone}}}
				}
				tag.Values = append(tag.Values, v)
			}
			tf.Tags = append(tf.Tags, tag)
		}
		res.TagFamilies = append(res.TagFamilies, tf)
	}
	for _, name := range r.fields {
		f := model.Field{Name: name}
		for _, row := range blk {
			v := pbv1.NullFieldValue
			switch {
			case name == "value" && !row.VNull:
				v = &modelv1.FieldValue{Value: &modelv1.FieldValue_Int{Int: &modelv1.Int{Value: row.V}}}
			case name == "fval" && !row.FNull:
				v = &modelv1.FieldValue{Value: &modelv1.FieldValue_Float{Float: &modelv1.Float{Value: float64(row.FQuarter) / 4}}}
			}
			f.Values = append(f.Values, v)
		}
		res.Fields = append(res.Fields, f)
	}
	return res
}

func (r *c15Result) Release() {}

func (c c15Case) request() *measurev1.QueryRequest {
	req := &measurev1.QueryRequest{
		Groups: []string{c10Group}, Name: c10Measure,
		TimeRange: &modelv1.TimeRange{Begin: timestamppb.New(time.Unix(1500+int64(c.Begin), 0)), End: timestamppb.New(time.Unix(1500+int64(c.End), 0))},
		Limit:     uint32(c.Limit), Offset: uint32(c.Offset),
	}
	if len(c.Tags) > 0 {
		req.TagProjection = &modelv1.TagProjection{TagFamilies: []*modelv1.TagProjection_TagFamily{{Name: "default", Tags: c.Tags}}}
	}
	if len(c.Fields) > 0 {
		req.FieldProjection = &measurev1.QueryRequest_FieldProjection{Names: c.Fields}
	}
	if len(c.GroupBy) > 0 {
		req.GroupBy = &measurev1.QueryRequest_GroupBy{
			TagProjection: &modelv1.TagProjection{TagFamilies: []*modelv1.TagProjection_TagFamily{{Name: "default", Tags: c.GroupBy}}},
			FieldName:     c.AggField,
		}
	}
	if c.Fn != "" {
		req.Agg = &measurev1.QueryRequest_Aggregation{Function: c10Fn[c.Fn], FieldName: c.AggField}
	}
	if c.TopN > 0 {
		srt := modelv1.Sort_SORT_ASC
		if c.TopDesc {
			srt = modelv1.Sort_SORT_DESC
		}
		req.Top = &measurev1.QueryRequest_Top{Number: int32(c.TopN), FieldName: c.TopField, FieldValueSort: srt}
	}
	switch len(c.IDs) {
	case 0:
	case 1:
		req.Criteria = &modelv1.Criteria{Exp: &modelv1.Criteria_Condition{Condition: &modelv1.Condition{
			Name: "id", Op: modelv1.Condition_BINARY_OP_EQ, Value: strTag(fmt.Sprintf("svc-%d", c.IDs[0])),
		}}}
	default:
		var vals []string
		for _, id := range c.IDs {
			vals = append(vals, fmt.Sprintf("svc-%d", id))
		}
		req.Criteria = &modelv1.Criteria{Exp: &modelv1.Criteria_Condition{Condition: &modelv1.Condition{
			Name: "id", Op: modelv1.Condition_BINARY_OP_IN, Value: &modelv1.TagValue{Value: &modelv1.TagValue_StrArray{StrArray: &modelv1.StrArray{Value: vals}}},
		}}}
	}
	return req
}

// collect mirrors banyand/query/processor.go collectInternalDataPoints.
func c15Collect(it executor.MIterator) []string {
	var out []string
	for it.Next() {
		cur := it.Current()
		if len(cur) > 0 {
			raw, _ := proto.MarshalOptions{Deterministic: true}.Marshal(cur[0])
			out = append(out, fmt.Sprintf("%x | %v", raw, cur[0]))
			c15LastFields = append(c15LastFields, cur[0].GetDataPoint().GetFields())
		}
	}
	return out
}

// c15LastFields keeps the fields of the collected data points of the current run (single-threaded harness).
var c15LastFields [][]*measurev1.DataPoint_Field

func c15FieldOf(fields []*measurev1.DataPoint_Field, name string) string {
	for _, f := range fields {
		if f.GetName() == name {
			raw, _ := proto.MarshalOptions{Deterministic: true}.Marshal(f.GetValue())
			return fmt.Sprintf("%x", raw)
		}
	}
	return "<absent>"
}

func c15Row_(req *measurev1.QueryRequest, ec executor.MeasureExecutionContext) (out []string, err error) {
	defer func() {
		if r := recover(); r != nil {
			err = fmt.Errorf("panic: %v", r)
		}
	}()
	md := c15Schema()
	s, err := measure.BuildSchema(md, nil)
	if err != nil {
		return nil, err
	}
	plan, err := measure.Analyze(req, []*commonv1.Metadata{md.Metadata}, []logical.Schema{s}, []executor.MeasureExecutionContext{ec}, false)
	if err != nil {
		return nil, fmt.Errorf("analyze: %w", err)
	}
	it, err := plan.(executor.MeasureExecutable).Execute(context.Background())
	if err != nil {
		return nil, fmt.Errorf("execute: %w", err)
	}
	out = c15Collect(it)
	if cerr := it.Close(); cerr != nil {
		return nil, fmt.Errorf("iterator: %w", cerr)
	}
	return out, nil
}

func c15Vec(req *measurev1.QueryRequest, ec executor.MeasureExecutionContext, batch int) (out []string, err error) {
	defer func() {
		if r := recover(); r != nil {
			err = fmt.Errorf("panic: %v", r)
		}
	}()
	md := c15Schema()
	s, err := measure.BuildSchema(md, nil)
	if err != nil {
		return nil, err
	}
	cfg := vmeasure.DefaultConfig()
	cfg.BatchSize = batch
	it, _, handled, err := vecplan.Dispatch(context.Background(), req, md.Metadata, md, s, ec, cfg, false, false)
	if err != nil {
		return nil, err
	}
	if !handled {
		return nil, fmt.Errorf("dispatch declined the request with the flag on")
	}
	out = c15Collect(it)
	if cerr := it.Close(); cerr != nil {
		return nil, fmt.Errorf("iterator: %w", cerr)
	}
	return out, nil
}

// aggOverNull: an aggregation (or top-N) whose input field is null in some row the request can reach.
func aggOverNull(c c15Case) bool {
	if c.Fn == "" {
		return false
	}
	for _, r := range c.Rows {
		if (c.AggField == "value" && r.VNull) || (c.AggField == "fval" && r.FNull) {
			return true
		}
	}
	return false
}

// topOverNull: a top-N directly over stored rows whose key field is null in some row.
func topOverNull(c c15Case) bool {
	if c.TopN == 0 || c.Fn != "" {
		return false
	}
	for _, r := range c.Rows {
		if (c.TopField == "value" && r.VNull) || (c.TopField == "fval" && r.FNull) {
			return true
		}
	}
	return false
}

func TestVerifC15MeasureParity(t *testing.T) {
	verifkit.Run(t, verifkit.Spec[c15Case]{
		Property: "C15", Unit: "measure_dispatch_parity",
		Rule: "1..60 rows over series svc-0..5 (string entity tag id, nullable string tag region, nullable int tag zone, nullable int field value, nullable " +
			"float field fval), delivered by an in-memory storage stand-in series by series in blocks of 1..5 rows; requests: tag/field projections in any " +
			"order, optional group-by over projected tags, optional aggregation SUM/COUNT/MIN/MAX/MEAN over a projected field, optional top-N, limit/offset, " +
			"optional entity criteria (eq / in), a time range that may cut rows, vectorized batch size in {1,2,3,7,1024}; oracle: row plan response == " +
			"columnar plan response (serialised data points in order; error iff error), the columnar side asked 1..3 times in the same process, the storage stand-in answering the columnar side either row-shaped (BatchScan) or with pooled typed MeasureBatches; " +
			"non-trivial = both sides returned >= 2 data points or a group-by/aggregate ran over >= 2 storage blocks",
		Known: []verifkit.Known[c15Case]{{Key: "agg-over-null-field", Match: aggOverNull}, {Key: "top-over-null-field", Match: topOverNull}},
		Gen: func(t *rapid.T, ks *verifkit.KnownSet) c15Case {
			c := c15Case{Chunk: rapid.IntRange(1, 5).Draw(t, "chunk"), Batch: rapid.SampledFrom([]int{1, 2, 3, 7, 1024}).Draw(t, "batch"),
				Repeat: rapid.IntRange(0, 2).Draw(t, "repeat"), BatchEC: rapid.Bool().Draw(t, "batchec")}
			n := rapid.IntRange(1, 60).Draw(t, "rows")
			bigInts := rapid.IntRange(0, 4).Draw(t, "bigints") == 0
			seen := map[[2]int]bool{}
			nullBias := rapid.SampledFrom([]int{0, 2, 5}).Draw(t, "nullbias")
			for i := 0; i < n; i++ {
				r := c15Row{ID: rapid.IntRange(0, 5).Draw(t, "id"), T: rapid.IntRange(0, 40).Draw(t, "t")}
				if seen[[2]int{r.ID, r.T}] {
					continue
				}
				seen[[2]int{r.ID, r.T}] = true
				r.Region = rapid.IntRange(0, 2).Draw(t, "region")
				if rapid.IntRange(0, 9).Draw(t, "rnull") < nullBias {
					r.Region = -1
				}
				r.Zone = int64(rapid.IntRange(0, 2).Draw(t, "zone"))
				r.ZoneNull = rapid.IntRange(0, 9).Draw(t, "znull") < nullBias
				r.V = int64(rapid.IntRange(-1000, 1000).Draw(t, "v"))
				if bigInts {
					// neighbours that float64 cannot tell apart (a comparison through float64 would tie them)
					r.V = rapid.SampledFrom([]int64{1 << 53, 1<<53 + 1, 1<<53 + 2, -(1 << 53), -(1 << 53) - 1, 1 << 62, 1<<62 + 1, 1<<62 - 1, math.MaxInt64 / 4, math.MaxInt64/4 - 1}).Draw(t, "bigv")
				}
				r.VNull = rapid.IntRange(0, 9).Draw(t, "vnull") < nullBias
				r.FQuarter = int64(rapid.IntRange(-4000, 4000).Draw(t, "fq"))
				r.FNull = rapid.IntRange(0, 9).Draw(t, "fnull") < nullBias
				c.Rows = append(c.Rows, r)
			}
			c.Tags = rapid.Permutation([]string{"id", "region", "zone"}).Draw(t, "tags")[:rapid.IntRange(0, 3).Draw(t, "ntags")]
			c.Fields = rapid.Permutation([]string{"value", "fval"}).Draw(t, "fields")[:rapid.IntRange(0, 2).Draw(t, "nfields")]
			shape := rapid.SampledFrom([]string{"raw", "raw", "agg", "group+agg", "group+agg", "group", "top", "group+agg+top"}).Draw(t, "shape")
			if len(c.Fields) == 0 && shape != "raw" && shape != "group" {
				c.Fields = []string{rapid.SampledFrom([]string{"value", "fval"}).Draw(t, "f1")}
			}
			if len(c.Tags) == 0 && strings.Contains(shape, "group") {
				c.Tags = []string{rapid.SampledFrom([]string{"id", "region", "zone"}).Draw(t, "t1")}
			}
			if strings.Contains(shape, "group") {
				k := rapid.IntRange(1, len(c.Tags)).Draw(t, "ngroup")
				c.GroupBy = append([]string(nil), rapid.Permutation(c.Tags).Draw(t, "gtags")[:k]...)
			}
			if len(c.Fields) > 0 {
				c.AggField = rapid.SampledFrom(c.Fields).Draw(t, "aggfield")
			}
			if strings.Contains(shape, "agg") {
				c.Fn = rapid.SampledFrom([]string{"SUM", "COUNT", "MIN", "MAX", "MEAN"}).Draw(t, "fn")
			}
			if strings.Contains(shape, "top") {
				c.TopN = rapid.IntRange(1, 4).Draw(t, "topn")
				c.TopDesc = rapid.Bool().Draw(t, "desc")
				c.TopField = c.AggField
				if c.Fn == "" {
					c.TopField = rapid.SampledFrom(c.Fields).Draw(t, "topfield")
				}
			}
			if ks.Active("agg-over-null-field") && aggOverNull(c) {
				ks.Excluded("agg-over-null-field")
				for i := range c.Rows {
					if c.AggField == "value" {
						c.Rows[i].VNull = false
					} else {
						c.Rows[i].FNull = false
					}
				}
			}
			if ks.Active("top-over-null-field") && topOverNull(c) {
				ks.Excluded("top-over-null-field")
				for i := range c.Rows {
					if c.TopField == "value" {
						c.Rows[i].VNull = false
					} else {
						c.Rows[i].FNull = false
					}
				}
			}
			c.Limit = rapid.SampledFrom([]int{0, 0, 1, 3, 10, 100}).Draw(t, "limit")
			c.Offset = rapid.SampledFrom([]int{0, 0, 0, 1, 2, 5}).Draw(t, "offset")
			switch rapid.IntRange(0, 3).Draw(t, "crit") {
			case 0:
				c.IDs = []int{rapid.IntRange(0, 6).Draw(t, "cid")}
			case 1:
				c.IDs = []int{rapid.IntRange(0, 6).Draw(t, "cid"), rapid.IntRange(0, 6).Draw(t, "cid2")}
			}
			c.Begin, c.End = 0, 40
			if rapid.IntRange(0, 2).Draw(t, "cut") == 0 {
				c.Begin = rapid.IntRange(0, 20).Draw(t, "begin")
				c.End = rapid.IntRange(c.Begin, 40).Draw(t, "end")
			}
			return c
		},
		Check: func(x *verifkit.Ctx, c c15Case) error {
			req := c.request()
			c15LastFields = nil
			rowOut, rowErr := c15Row_(proto.Clone(req).(*measurev1.QueryRequest), &c15EC{rows: c.Rows, chunk: c.Chunk})
			rowFields := c15LastFields
			ties := false
			for k := 0; k <= c.Repeat; k++ {
				c15LastFields = nil
				vecOut, vecErr := c15Vec(proto.Clone(req).(*measurev1.QueryRequest), &c15EC{rows: c.Rows, chunk: c.Chunk, batch: c.BatchEC}, c.Batch)
				if (rowErr != nil) != (vecErr != nil) {
					return verifkit.Failf("run %d: row plan error = %v, columnar plan error = %v", k, rowErr, vecErr)
				}
				if rowErr != nil {
					x.Label("both reject")
					return nil
				}
				if len(rowOut) != len(vecOut) {
					return verifkit.Failf("run %d: row plan returned %d data points, columnar plan %d\nrow: %v\nvec: %v", k, len(rowOut), len(vecOut), c15Tail(rowOut), c15Tail(vecOut))
				}
				vecFields := c15LastFields
				for i := range rowOut {
					if rowOut[i] != vecOut[i] && c.TopN > 0 {
						// top-N leaves the choice among equal keys open (the row plan's heap is not stable): a different
						// row is accepted only at a position whose key is the same on both sides and is shared by
						// several candidates
						rv, vv := c15FieldOf(rowFields[i], c.TopField), c15FieldOf(vecFields[i], c.TopField)
						if rv == vv && (c.Fn != "" || c.candidatesWithTopValue(rv) >= 2) {
							ties = true
							continue
						}
					}
					if rowOut[i] != vecOut[i] {
						return verifkit.Failf("run %d: data point %d differs\nrow: %s\nvec: %s", k, i, c15Short(rowOut[i]), c15Short(vecOut[i]))
					}
				}
			}
			blocks := map[int]int{}
			for _, r := range c.Rows {
				blocks[r.ID]++
			}
			shape := "raw"
			switch {
			case len(c.GroupBy) > 0 && c.Fn != "":
				shape = "group+agg"
			case len(c.GroupBy) > 0:
				shape = "group"
			case c.Fn != "":
				shape = "scalar agg"
			}
			x.Label("shape:" + shape)
			x.LabelIf(c.TopN > 0, "top-N")
			x.LabelIf(c.BatchEC, "storage answers with pooled MeasureBatches")
			x.LabelIf(ties, "top-N tie resolved differently (accepted)")
			x.LabelIf(len(c.IDs) > 0, "entity criteria")
			x.LabelIf(c.Batch < 1024 && len(c.Rows) > c.Batch, "several batches")
			x.LabelIf(len(rowOut) >= 2, ">=2 data points")
			x.LabelIf(len(rowOut) == 0, "empty response")
			if len(rowOut) >= 2 || (shape != "raw" && len(blocks) >= 2 && len(rowOut) >= 1) {
				x.NonTrivial()
			}
			return nil
		},
		MinLabelFrac: map[string]float64{"shape:group+agg": 0.15, "top-N": 0.1, "several batches": 0.4, ">=2 data points": 0.2},
	})
}

func (c c15Case) candidatesWithTopValue(rendered string) int {
	n := 0
	for _, r := range c.Rows {
		var fv *modelv1.FieldValue
		switch {
		case c.TopField == "value" && !r.VNull:
			fv = &modelv1.FieldValue{Value: &modelv1.FieldValue_Int{Int: &modelv1.Int{Value: r.V}}}
		case c.TopField == "fval" && !r.FNull:
			fv = &modelv1.FieldValue{Value: &modelv1.FieldValue_Float{Float: &modelv1.Float{Value: float64(r.FQuarter) / 4}}}
		default:
			fv = pbv1.NullFieldValue
		}
		raw, _ := proto.MarshalOptions{Deterministic: true}.Marshal(fv)
		if fmt.Sprintf("%x", raw) == rendered {
			n++
		}
	}
	return n
}

func c15Short(s string) string {
	if i := strings.Index(s, " | "); i >= 0 {
		return s[i+3:]
	}
	return s
}

func c15Tail(ss []string) []string {
	var out []string
	for _, s := range ss {
		out = append(out, c15Short(s))
	}
	return out
}
