package stream

import (
	"context"
	"fmt"
	"math"
	"sort"
	"testing"

	"pgregory.net/rapid"

	"github.com/apache/skywalking-banyandb/api/common"
	modelv1 "github.com/apache/skywalking-banyandb/api/proto/banyandb/model/v1"
	"github.com/apache/skywalking-banyandb/pkg/query/model"
	"github.com/apache/skywalking-banyandb/pkg/query/vectorized"
	"github.com/apache/skywalking-banyandb/verifkit"
)

// C15 (stream merge): the per-node merge of the parts' sorted results - row path: model.MergeStreamResults (heap merge,
// de-duplication by element id, stop at top-N); columnar path: BuildStreamMergePipeline (sorted merge, distinct, limit)
// with the parameters the stream plan passes - returns the same elements in the same order, for every batch size.

type m15Row struct {
	TS int64  `json:"ts"`
	ID uint64 `json:"id"`
}

type m15Case struct {
	Parts [][]m15Row `json:"parts"` // each part sorted in the requested direction; an element (same id, same time) may sit in several parts
	Desc  bool       `json:"desc"`
	TopN  int        `json:"top_n"` // limit + offset of the request (the per-node cap)
	Batch int        `json:"batch"` // columnar batch size
	Defer bool       `json:"defer"` // the plan defers the cap to the egress (criteria query): uncapped merge, pass-through limit
}

type m15Source struct {
	schema  *vectorized.BatchSchema
	batches []*vectorized.RecordBatch
	pos     int
}

func (s *m15Source) Init(context.Context) error            { return nil }
func (s *m15Source) OutputSchema() *vectorized.BatchSchema { return s.schema }
func (s *m15Source) Close() error                          { return nil }
func (s *m15Source) NextBatch(context.Context) (*vectorized.RecordBatch, error) {
	if s.pos >= len(s.batches) {
		return nil, nil
	}
	b := s.batches[s.pos]
	s.pos++
	return b, nil
}

func m15Row1(c m15Case, topN int) []m15Row {
	var results []*model.StreamResult
	for _, part := range c.Parts {
		sr := model.NewStreamResult(len(part), !c.Desc)
		for _, r := range part {
			sr.Timestamps = append(sr.Timestamps, r.TS)
			sr.ElementIDs = append(sr.ElementIDs, r.ID)
			sr.SIDs = append(sr.SIDs, common.SeriesID(0))
		}
		results = append(results, sr)
	}
	merged := model.MergeStreamResults(results, topN, !c.Desc)
	var out []m15Row
	for i := range merged.Timestamps {
		out = append(out, m15Row{merged.Timestamps[i], merged.ElementIDs[i]})
	}
	return out
}

func m15Vec(c m15Case, topN int) (out []m15Row, err error) {
	defer func() {
		if r := recover(); r != nil {
			err = fmt.Errorf("panic: %v", r)
		}
	}()
	schema := BuildStreamBatchSchema([]model.TagProjection{{Family: "searchable", Names: []string{"service"}}}, "", "")
	tagIdx, _ := schema.TagIndex("searchable", "service")
	src := &m15Source{schema: schema}
	for _, part := range c.Parts {
		b := vectorized.NewRecordBatch(schema, len(part))
		for _, r := range part {
			b.Columns[schema.TimestampIndex()].(*vectorized.TypedColumn[int64]).Append(r.TS)
			b.Columns[schema.ElementIDIndex()].(*vectorized.TypedColumn[int64]).Append(ElementIDToColumn(r.ID))
			b.Columns[schema.SeriesIDIndex()].(*vectorized.TypedColumn[int64]).Append(0)
			b.Columns[tagIdx].(*vectorized.TypedColumn[*modelv1.TagValue]).Append(&modelv1.TagValue{Value: &modelv1.TagValue_Str{Str: &modelv1.Str{Value: "svc"}}})
			b.Len++
		}
		src.batches = append(src.batches, b)
	}
	// as stream_plan_indexscan_local_vectorized.go passes them
	limitRows, mergeCap := uint32(topN), topN
	if c.Defer {
		limitRows, mergeCap = math.MaxUint32, 0
	}
	pipe, perr := BuildStreamMergePipeline(src, schema, c.Desc, 0, limitRows, c.Batch, mergeCap)
	if perr != nil {
		return nil, perr
	}
	defer func() { _ = pipe.Close() }()
	ctx := context.Background()
	if ierr := pipe.Init(ctx); ierr != nil {
		return nil, ierr
	}
	for {
		batch, nerr := pipe.Next(ctx)
		if nerr != nil {
			return nil, nerr
		}
		if batch == nil {
			break
		}
		tsData := batch.Columns[schema.TimestampIndex()].(*vectorized.TypedColumn[int64]).Data()
		idData := batch.Columns[schema.ElementIDIndex()].(*vectorized.TypedColumn[int64]).Data()
		for active := 0; active < batch.ActiveLen(); active++ {
			row := active
			if batch.Selection != nil {
				row = int(batch.Selection[active])
			}
			out = append(out, m15Row{tsData[row], ColumnToElementID(idData[row])})
		}
	}
	return out, nil
}

func TestVerifC15StreamMerge(t *testing.T) {
	verifkit.Run(t, verifkit.Spec[m15Case]{
		Property: "C15", Unit: "stream_merge_parity",
		Rule: "1..4 parts of 0..12 elements (distinct times, each part sorted in the requested direction; 0..6 elements re-delivered, i.e. the same id and time in a second part), " +
			"ascending or descending, per-node cap (limit+offset) 1..25, batch size in {1,2,3,4,7,1024}, capped in the merge or deferred to the egress as the stream plan does for criteria " +
			"queries; oracle: the row merge (model.MergeStreamResults) and the columnar pipeline (BuildStreamMergePipeline with the plan's parameters) both return the distinct elements " +
			"in order, cut at the cap; non-trivial = duplicates across parts and a result of more than one batch",
		Gen: func(t *rapid.T, _ *verifkit.KnownSet) m15Case {
			c := m15Case{Desc: rapid.Bool().Draw(t, "desc"), TopN: rapid.IntRange(1, 25).Draw(t, "topn"),
				Batch: rapid.SampledFrom([]int{1, 2, 3, 4, 7, 1024}).Draw(t, "batch"), Defer: rapid.IntRange(0, 3).Draw(t, "defer") == 0}
			np := rapid.IntRange(1, 4).Draw(t, "parts")
			c.Parts = make([][]m15Row, np)
			id := uint64(0)
			var all []m15Row
			for p := 0; p < np; p++ {
				for i := rapid.IntRange(0, 12).Draw(t, "n"); i > 0; i-- {
					id++
					r := m15Row{TS: int64(rapid.IntRange(0, 400).Draw(t, "ts"))*1000 + int64(id), ID: id} // distinct times
					c.Parts[p] = append(c.Parts[p], r)
					all = append(all, r)
				}
			}
			if np >= 2 && len(all) > 0 {
				for k := rapid.IntRange(0, 6).Draw(t, "dups"); k > 0; k-- {
					r := rapid.SampledFrom(all).Draw(t, "dup")
					p := rapid.IntRange(0, np-1).Draw(t, "duppart")
					present := false
					for _, x := range c.Parts[p] {
						if x.ID == r.ID {
							present = true
						}
					}
					if !present {
						c.Parts[p] = append(c.Parts[p], r)
					}
				}
			}
			for p := range c.Parts {
				part := c.Parts[p]
				sort.Slice(part, func(i, j int) bool {
					if c.Desc {
						return part[i].TS > part[j].TS
					}
					return part[i].TS < part[j].TS
				})
			}
			return c
		},
		Check: func(x *verifkit.Ctx, c m15Case) error {
			if c.TopN < 1 || c.Batch < 1 || len(c.Parts) == 0 {
				return verifkit.Failf("bad case")
			}
			seen := map[uint64]int64{}
			dups := 0
			var distinct []m15Row
			for _, part := range c.Parts {
				for i, r := range part {
					if i > 0 && ((c.Desc && part[i-1].TS < r.TS) || (!c.Desc && part[i-1].TS > r.TS)) {
						return verifkit.Failf("bad case: part not sorted")
					}
					if ts, ok := seen[r.ID]; ok {
						if ts != r.TS {
							return verifkit.Failf("bad case: element %d with two times", r.ID)
						}
						dups++
						continue
					}
					seen[r.ID] = r.TS
					distinct = append(distinct, r)
				}
			}
			sort.Slice(distinct, func(i, j int) bool {
				if c.Desc {
					return distinct[i].TS > distinct[j].TS
				}
				return distinct[i].TS < distinct[j].TS
			})
			topN := c.TopN
			if c.Defer {
				topN = len(distinct) + dups + 1 // the whole ordered set
			}
			want := distinct
			if len(want) > topN {
				want = want[:topN]
			}
			row := m15Row1(c, topN)
			vec, err := m15Vec(c, topN)
			if err != nil {
				return verifkit.Failf("columnar pipeline failed: %v", err)
			}
			if fmt.Sprint(row) != fmt.Sprint(want) {
				return verifkit.Failf("row merge returns %v, the distinct elements in order cut at %d are %v", row, topN, want)
			}
			if fmt.Sprint(vec) != fmt.Sprint(want) {
				return verifkit.Failf("columnar pipeline (batch size %d, deferred cap=%v) returns %d elements %v, the row merge %d elements %v", c.Batch, c.Defer, len(vec), vec, len(row), row)
			}
			multi := len(want) > c.Batch
			x.LabelIf(dups > 0, "re-delivered elements")
			x.LabelIf(multi, "result of more than one batch")
			x.LabelIf(len(distinct) > topN, "cap binds")
			if dups > 0 && multi {
				x.NonTrivial()
			}
			return nil
		},
		MinLabelFrac: map[string]float64{"re-delivered elements": 0.3, "result of more than one batch": 0.4, "cap binds": 0.2},
	})
}
