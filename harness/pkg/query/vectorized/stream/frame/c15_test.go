package frame

import (
	"bytes"
	"fmt"
	"math"
	"testing"

	"google.golang.org/protobuf/proto"
	"pgregory.net/rapid"

	modelv1 "github.com/apache/skywalking-banyandb/api/proto/banyandb/model/v1"
	pbv1 "github.com/apache/skywalking-banyandb/pkg/pb/v1"
	"github.com/apache/skywalking-banyandb/pkg/query/vectorized"
	"github.com/apache/skywalking-banyandb/verifkit"
)

// C15 (stream columnar frame wire format): a RecordBatch that travels between data node and coordinator as
// a frame arrives with the same active rows: same column layout, same nullness per cell and the same
// value in every non-null cell; re-encoding the decoded batch yields the same bytes. A damaged frame
// is rejected or decoded, never a panic.

type fCell struct {
	Null bool     `json:"null,omitempty"`
	K    string   `json:"k,omitempty"` // passthrough kind: str int bin intarr strarr null float
	I    int64    `json:"i,omitempty"`
	F    uint64   `json:"f,omitempty"`
	S    string   `json:"s,omitempty"`
	B    []byte   `json:"b,omitempty"`
	IA   []int64  `json:"ia,omitempty"`
	SA   []string `json:"sa,omitempty"`
}

type fCol struct {
	Name   string  `json:"name"`
	Family string  `json:"family"`
	Role   int     `json:"role"`
	Type   int     `json:"type"`
	Cells  []fCell `json:"cells"`
}

type fCase struct {
	Rows   int    `json:"rows"`
	Cols   []fCol `json:"cols"`
	HasSel bool   `json:"has_sel"`
	Sel    []int  `json:"sel"`
	// damage applied to the encoded frame for the robustness half
	Cut   int   `json:"cut"`  // <0: none
	Flip  []int `json:"flip"` // positions (mod len) whose byte is replaced
	FlipV []int `json:"flip_v"`
}

func (c fCell) tagValue() *modelv1.TagValue {
	switch c.K {
	case "str":
		return &modelv1.TagValue{Value: &modelv1.TagValue_Str{Str: &modelv1.Str{Value: c.S}}}
	case "int":
		return &modelv1.TagValue{Value: &modelv1.TagValue_Int{Int: &modelv1.Int{Value: c.I}}}
	case "bin":
		return &modelv1.TagValue{Value: &modelv1.TagValue_BinaryData{BinaryData: append([]byte{}, c.B...)}}
	case "intarr":
		return &modelv1.TagValue{Value: &modelv1.TagValue_IntArray{IntArray: &modelv1.IntArray{Value: c.IA}}}
	case "strarr":
		return &modelv1.TagValue{Value: &modelv1.TagValue_StrArray{StrArray: &modelv1.StrArray{Value: c.SA}}}
	}
	return pbv1.NullTagValue
}

func (c fCell) fieldValue() *modelv1.FieldValue {
	switch c.K {
	case "str":
		return &modelv1.FieldValue{Value: &modelv1.FieldValue_Str{Str: &modelv1.Str{Value: c.S}}}
	case "int":
		return &modelv1.FieldValue{Value: &modelv1.FieldValue_Int{Int: &modelv1.Int{Value: c.I}}}
	case "bin":
		return &modelv1.FieldValue{Value: &modelv1.FieldValue_BinaryData{BinaryData: append([]byte{}, c.B...)}}
	case "float":
		return &modelv1.FieldValue{Value: &modelv1.FieldValue_Float{Float: &modelv1.Float{Value: math.Float64frombits(c.F)}}}
	}
	return pbv1.NullFieldValue
}

func (c fCase) build() *vectorized.RecordBatch {
	defs := make([]vectorized.ColumnDef, len(c.Cols))
	for i, col := range c.Cols {
		defs[i] = vectorized.ColumnDef{Name: col.Name, TagFamily: col.Family, Role: vectorized.ColumnRole(col.Role), Type: vectorized.ColumnType(col.Type)}
	}
	b := vectorized.NewRecordBatch(vectorized.NewBatchSchema(defs), c.Rows)
	for i, col := range c.Cols {
		for r := 0; r < c.Rows; r++ {
			cell := col.Cells[r]
			switch tc := b.Columns[i].(type) {
			case *vectorized.TypedColumn[int64]:
				tc.Append(cell.I)
			case *vectorized.TypedColumn[float64]:
				tc.Append(math.Float64frombits(cell.F))
			case *vectorized.TypedColumn[string]:
				tc.Append(cell.S)
			case *vectorized.TypedColumn[[]byte]:
				tc.Append(append([]byte{}, cell.B...))
			case *vectorized.TypedColumn[*modelv1.TagValue]:
				tc.Append(cell.tagValue())
			case *vectorized.TypedColumn[*modelv1.FieldValue]:
				tc.Append(cell.fieldValue())
			}
			if cell.Null {
				b.Columns[i].MarkNullAt(r)
			}
		}
	}
	b.Len = c.Rows
	if c.HasSel {
		b.Selection = make([]uint16, len(c.Sel))
		for i, s := range c.Sel {
			b.Selection[i] = uint16(s)
		}
	}
	return b
}

func cellString(col vectorized.Column, r int) string {
	if col.IsNull(r) {
		return "null"
	}
	switch tc := col.(type) {
	case *vectorized.TypedColumn[int64]:
		return fmt.Sprintf("i:%d", tc.Data()[r])
	case *vectorized.TypedColumn[float64]:
		return fmt.Sprintf("f:%016x", math.Float64bits(tc.Data()[r]))
	case *vectorized.TypedColumn[string]:
		return fmt.Sprintf("s:%q", tc.Data()[r])
	case *vectorized.TypedColumn[[]byte]:
		return fmt.Sprintf("b:%x", tc.Data()[r])
	case *vectorized.TypedColumn[*modelv1.TagValue]:
		raw, _ := proto.MarshalOptions{Deterministic: true}.Marshal(tc.Data()[r])
		return fmt.Sprintf("tv:%x", raw)
	case *vectorized.TypedColumn[*modelv1.FieldValue]:
		raw, _ := proto.MarshalOptions{Deterministic: true}.Marshal(tc.Data()[r])
		return fmt.Sprintf("fv:%x", raw)
	}
	return fmt.Sprintf("?%T", col)
}

var c15Roles = []vectorized.ColumnRole{vectorized.RoleTimestamp, vectorized.RoleElementID, vectorized.RoleSeriesID, vectorized.RoleOrderKey}

var c15Types = []vectorized.ColumnType{
	vectorized.ColumnTypeInt64, vectorized.ColumnTypeFloat64, vectorized.ColumnTypeString, vectorized.ColumnTypeBytes,
	vectorized.ColumnTypeTagValue, vectorized.ColumnTypeFieldValue,
}

var c15StreamTypes = []vectorized.ColumnType{vectorized.ColumnTypeInt64, vectorized.ColumnTypeString, vectorized.ColumnTypeBytes, vectorized.ColumnTypeTagValue}

func genCell(t *rapid.T, typ vectorized.ColumnType, nullBias int) fCell {
	c := fCell{Null: rapid.IntRange(0, 9).Draw(t, "null") < nullBias}
	switch typ {
	case vectorized.ColumnTypeInt64:
		c.I = verifkit.Int64(t, "i")
	case vectorized.ColumnTypeFloat64:
		c.F = verifkit.FloatBits(t, "f", true)
	case vectorized.ColumnTypeString:
		c.S = verifkit.String(t, "s")
	case vectorized.ColumnTypeBytes:
		c.B = verifkit.Bytes(t, "b", 10)
	case vectorized.ColumnTypeTagValue:
		c.K = rapid.SampledFrom([]string{"str", "int", "bin", "intarr", "strarr", "null"}).Draw(t, "k")
	case vectorized.ColumnTypeFieldValue:
		c.K = rapid.SampledFrom([]string{"str", "int", "bin", "float", "null"}).Draw(t, "k")
	}
	switch c.K {
	case "str":
		c.S = verifkit.String(t, "s")
	case "int":
		c.I = verifkit.Int64(t, "i")
	case "bin":
		c.B = verifkit.Bytes(t, "b", 10)
	case "float":
		c.F = verifkit.FloatBits(t, "f", false)
	case "intarr":
		n := rapid.IntRange(0, 3).Draw(t, "n")
		for i := 0; i < n; i++ {
			c.IA = append(c.IA, verifkit.Int64(t, "ia"))
		}
	case "strarr":
		n := rapid.IntRange(0, 3).Draw(t, "n")
		for i := 0; i < n; i++ {
			c.SA = append(c.SA, verifkit.String(t, "sa"))
		}
	}
	return c
}

func TestVerifC15StreamFrame(t *testing.T) {
	verifkit.Run(t, verifkit.Spec[fCase]{
		Property: "C15", Unit: "frame_stream",
		Rule: "batches of 0..70 rows (so validity bitmaps cross the 64-bit word and byte boundaries) and 1..7 columns: at most one int64 column per metadata role " +
			"(timestamp, element id, series id, order key) plus tag columns of every stream wire type (int64, string, bytes, " +
			"TagValue passthrough incl. arrays and the null value), per-cell nulls at a per-column bias, optional Selection (nil / empty / " +
			"any order with repeats); round trip Decode(Encode(b)) == active rows of b cell by cell, re-encoding a decoded frame is a byte-identical fixed point; then " +
			"the frame is truncated / byte-damaged and Decode must return an error or a batch; non-trivial = a null cell and >= 2 column types and >= 9 rows",
		Gen: func(t *rapid.T, _ *verifkit.KnownSet) fCase {
			c := fCase{Rows: rapid.SampledFrom([]int{0, 1, 2, 7, 8, 9, 15, 16, 17, 31, 33, 63, 64, 65, 70}).Draw(t, "rows"), Cut: -1}
			if rapid.Bool().Draw(t, "anyrows") {
				c.Rows = rapid.IntRange(0, 70).Draw(t, "rows2")
			}
			ncols := rapid.IntRange(1, 7).Draw(t, "ncols") // the engines always carry at least the metadata columns; a 0-column frame with rows is rejected by ValidateHeader
			used := map[vectorized.ColumnRole]bool{}
			for i := 0; i < ncols; i++ {
				col := fCol{Name: fmt.Sprintf("c%d%s", i, rapid.SampledFrom([]string{"", "", "é", " x"}).Draw(t, "nm"))}
				kind := rapid.IntRange(0, 5).Draw(t, "kind")
				var typ vectorized.ColumnType
				switch {
				case kind == 0:
					role := rapid.SampledFrom(c15Roles).Draw(t, "role")
					if used[role] {
						role = vectorized.RoleTag
					}
					used[role] = true
					col.Role, typ = int(role), vectorized.ColumnTypeInt64
				case kind <= 3:
					col.Role = int(vectorized.RoleTag)
					col.Family = rapid.SampledFrom([]string{"default", "extra", ""}).Draw(t, "fam")
					typ = rapid.SampledFrom(c15StreamTypes).Draw(t, "type")
				default:
					col.Role = int(vectorized.RoleTag)
					col.Family = "searchable"
					typ = rapid.SampledFrom(c15StreamTypes).Draw(t, "type")
				}
				col.Type = int(typ)
				bias := rapid.SampledFrom([]int{0, 1, 3, 9}).Draw(t, "nullbias")
				for r := 0; r < c.Rows; r++ {
					col.Cells = append(col.Cells, genCell(t, typ, bias))
				}
				c.Cols = append(c.Cols, col)
			}
			if c.Rows > 0 && rapid.IntRange(0, 2).Draw(t, "sel") == 0 {
				c.HasSel = true
				n := rapid.IntRange(0, c.Rows+3).Draw(t, "nsel")
				c.Sel = []int{}
				for i := 0; i < n; i++ {
					c.Sel = append(c.Sel, rapid.IntRange(0, c.Rows-1).Draw(t, "s"))
				}
			}
			if rapid.Bool().Draw(t, "damage") {
				if rapid.Bool().Draw(t, "cutq") {
					c.Cut = rapid.IntRange(0, 400).Draw(t, "cut")
				}
				n := rapid.IntRange(0, 3).Draw(t, "nflip")
				for i := 0; i < n; i++ {
					c.Flip = append(c.Flip, rapid.IntRange(0, 4000).Draw(t, "pos"))
					c.FlipV = append(c.FlipV, rapid.SampledFrom([]int{0, 1, 0x7f, 0x80, 0xff, 0xfe, 2, 5, 9}).Draw(t, "val"))
				}
			}
			return c
		},
		Check: func(x *verifkit.Ctx, c fCase) error {
			b := c.build()
			enc, err := Encode(b)
			if err != nil {
				return verifkit.Failf("Encode failed on a valid batch: %v", err)
			}
			dec, err := Decode(enc)
			if err != nil {
				return verifkit.Failf("Decode failed on an encoded frame: %v", err)
			}
			active := make([]int, 0, c.Rows)
			if c.HasSel {
				active = append(active, c.Sel...)
			} else {
				for r := 0; r < c.Rows; r++ {
					active = append(active, r)
				}
			}
			if dec.Len != len(active) || dec.Selection != nil {
				return verifkit.Failf("decoded Len=%d Selection=%v, want %d active rows", dec.Len, dec.Selection, len(active))
			}
			if len(dec.Columns) != len(c.Cols) || len(dec.Schema.Columns) != len(c.Cols) {
				return verifkit.Failf("decoded %d columns, want %d", len(dec.Columns), len(c.Cols))
			}
			nulls, types := 0, map[int]bool{}
			for i, col := range c.Cols {
				if got, want := dec.Schema.Columns[i], b.Schema.Columns[i]; got != want {
					return verifkit.Failf("column %d def: got %+v want %+v", i, got, want)
				}
				if dec.Columns[i].Len() != len(active) {
					return verifkit.Failf("column %d has %d rows, want %d", i, dec.Columns[i].Len(), len(active))
				}
				types[col.Type] = true
				for j, r := range active {
					got, want := cellString(dec.Columns[i], j), cellString(b.Columns[i], r)
					if want == "null" {
						nulls++
					}
					if got != want {
						return verifkit.Failf("column %d (%s) active row %d (source row %d): sent %s, received %s", i, vectorized.ColumnType(col.Type), j, r, want, got)
					}
				}
			}
			enc2, err := Encode(dec)
			if err != nil {
				return verifkit.Failf("re-encoding the decoded batch failed: %v", err)
			}
			// the payload under a null cell is not part of the contract, so byte identity is demanded from the
			// decoded (canonical) form onwards
			dec2, err := Decode(enc2)
			if err != nil {
				return verifkit.Failf("Decode of the re-encoded frame failed: %v", err)
			}
			enc3, err := Encode(dec2)
			if err != nil || !bytes.Equal(enc2, enc3) {
				return verifkit.Failf("Encode(Decode(f)) is not a fixed point for a decoded frame f (%d vs %d bytes, err %v)", len(enc3), len(enc2), err)
			}
			// damaged frame: error or batch, never a panic (rapid reports a panic as a failure)
			damaged := false
			if c.Cut >= 0 || len(c.Flip) > 0 {
				bad := append([]byte(nil), enc...)
				if c.Cut >= 0 && c.Cut < len(bad) {
					bad = bad[:c.Cut]
				}
				for i, p := range c.Flip {
					if len(bad) > 0 {
						bad[p%len(bad)] = byte(c.FlipV[i])
					}
				}
				damaged = !bytes.Equal(bad, enc)
				if gerr := verifkit.Guarded(1<<30, 20000, func() {
					if db, derr := Decode(bad); derr == nil && db != nil {
						for _, col := range db.Columns {
							if col.Len() != db.Len {
								panic(fmt.Sprintf("decoded damaged frame has a column of %d rows in a batch of %d", col.Len(), db.Len))
							}
						}
					}
				}); gerr != nil {
					return gerr
				}
			}
			x.LabelIf(c.HasSel, "selection")
			x.LabelIf(nulls > 0, "null cells")
			x.LabelIf(damaged, "damaged frame")
			x.LabelIf(c.Rows > 64, ">64 rows")
			if nulls > 0 && len(types) >= 2 && len(active) >= 9 {
				x.NonTrivial()
			}
			return nil
		},
		MinLabelFrac: map[string]float64{"selection": 0.15, "null cells": 0.3, "damaged frame": 0.2},
	})
}
