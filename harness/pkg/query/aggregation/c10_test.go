package aggregation

import (
	"fmt"
	"math"
	"testing"

	"pgregory.net/rapid"

	modelv1 "github.com/apache/skywalking-banyandb/api/proto/banyandb/model/v1"
	"github.com/apache/skywalking-banyandb/verifkit"
)

// C10 (algebra): Map over all points equals the documented definition, and
// Reduce(Map(p1) ... Map(pn)) == Map(p1 u ... u pn) for every partition, exactly for int64.

type c10Alg struct {
	Fn    string    `json:"fn"` // SUM | COUNT | MIN | MAX | MEAN
	Float bool      `json:"float"`
	Parts [][]int64 `json:"parts"` // values per partition (floats are v/4)
	Wire  bool      `json:"wire"`  // ship partials through PartialToFieldValues/FieldValuesToPartial
}

var fnOf = map[string]modelv1.AggregationFunction{
	"SUM": modelv1.AggregationFunction_AGGREGATION_FUNCTION_SUM, "COUNT": modelv1.AggregationFunction_AGGREGATION_FUNCTION_COUNT,
	"MIN": modelv1.AggregationFunction_AGGREGATION_FUNCTION_MIN, "MAX": modelv1.AggregationFunction_AGGREGATION_FUNCTION_MAX,
	"MEAN": modelv1.AggregationFunction_AGGREGATION_FUNCTION_MEAN,
}

func refInt(fn string, all []int64) (int64, bool) {
	if len(all) == 0 {
		return 0, false
	}
	var sum int64
	mn, mx := all[0], all[0]
	for _, v := range all {
		sum += v // Go wrap-around, like the accumulator's field type
		mn, mx = min(mn, v), max(mx, v)
	}
	switch fn {
	case "SUM":
		return sum, true
	case "COUNT":
		return int64(len(all)), true
	case "MIN":
		return mn, true
	case "MAX":
		return mx, true
	}
	return sum / int64(len(all)), true
}

func refFloat(fn string, all []float64) (float64, bool) {
	if len(all) == 0 {
		return 0, false
	}
	var sum float64
	mn, mx := all[0], all[0]
	for _, v := range all {
		sum += v
		mn, mx = math.Min(mn, v), math.Max(mx, v)
	}
	switch fn {
	case "SUM":
		return sum, true
	case "COUNT":
		return float64(len(all)), true
	case "MIN":
		return mn, true
	case "MAX":
		return mx, true
	}
	return sum / float64(len(all)), true
}

func runAlg[N Number](c c10Alg, conv func(int64) N) (mapAll N, reduced N, err error) {
	af := fnOf[c.Fn]
	all, err := NewMap[N](af)
	if err != nil {
		return
	}
	red, err := NewReduce[N](af)
	if err != nil {
		return
	}
	for _, p := range c.Parts {
		m, merr := NewMap[N](af)
		if merr != nil {
			return mapAll, reduced, merr
		}
		for _, v := range p {
			all.In(conv(v))
			m.In(conv(v))
		}
		if len(p) == 0 {
			continue // a node without rows for the group sends no partial
		}
		part := m.Partial()
		if c.Wire {
			fvs, werr := PartialToFieldValues(af, part)
			if werr != nil {
				return mapAll, reduced, werr
			}
			back, berr := FieldValuesToPartial[N](af, fvs)
			if berr != nil {
				return mapAll, reduced, berr
			}
			if back != part {
				return mapAll, reduced, fmt.Errorf("partial %v changed to %v on the wire", part, back)
			}
			part = back
		}
		red.Combine(part)
	}
	return all.Val(), red.Val(), nil
}

func meanBelowOne(c c10Alg) bool {
	if c.Fn != "MEAN" {
		return false
	}
	var sum, n int64
	for _, p := range c.Parts {
		for _, v := range p {
			sum += v
			n++
		}
	}
	if n == 0 {
		return false
	}
	if c.Float {
		return float64(sum)/4/float64(n) < 1
	}
	return sum/n < 1
}

func TestVerifC10Algebra(t *testing.T) {
	verifkit.Run(t, verifkit.Spec[c10Alg]{
		Property: "C10", Unit: "algebra",
		Rule: "a function in {SUM,COUNT,MIN,MAX,MEAN}, int64 or float64 (floats are k/4, exactly summable), and a partition of 0..40 values " +
			"(boundary pool incl. Min/MaxInt64, zeros, negatives) into 1..6 parts incl. empty ones, partials optionally shipped through the wire " +
			"encoding; oracles: Map(all) == reference definition (Go int64 wrap-around sum, truncating integer mean), Reduce(partials) == Map(all) " +
			"exactly; non-trivial = >= 2 non-empty parts or an int64 extreme present",
		Known: []verifkit.Known[c10Alg]{{Key: "mean-clamped-to-1", Match: meanBelowOne}},
		Gen: func(t *rapid.T, ks *verifkit.KnownSet) c10Alg {
			c := c10Alg{Fn: rapid.SampledFrom([]string{"SUM", "COUNT", "MIN", "MAX", "MEAN"}).Draw(t, "fn"), Float: rapid.Bool().Draw(t, "float"), Wire: rapid.Bool().Draw(t, "wire")}
			np := rapid.IntRange(1, 6).Draw(t, "parts")
			positive := c.Fn == "MEAN" && ks.Active("mean-clamped-to-1")
			for i := 0; i < np; i++ {
				n := rapid.IntRange(0, 8).Draw(t, "n")
				var p []int64
				for j := 0; j < n; j++ {
					var v int64
					if c.Float {
						v = int64(rapid.IntRange(-4000, 4000).Draw(t, "v"))
					} else {
						v = verifkit.Int64(t, "v")
					}
					if positive {
						// moderate values incl. zeros and negatives (a part may sum to exactly zero); the overall mean is lifted to >= 1 below
						switch rapid.IntRange(0, 3).Draw(t, "pk") {
						case 0:
							v = 0
						case 1:
							v = int64(rapid.IntRange(-40, 40).Draw(t, "pv"))
						default:
							if c.Float {
								v = int64(rapid.IntRange(4, 4000).Draw(t, "pv"))
							} else {
								v = int64(rapid.IntRange(1, 1<<40).Draw(t, "pv"))
							}
						}
					}
					p = append(p, v)
				}
				c.Parts = append(c.Parts, p)
			}
			if positive {
				ks.Excluded("mean-clamped-to-1")
				// construct around the recorded finding: one large value in a part of its own until the overall mean is >= 1
				for meanBelowOne(c) {
					c.Parts = append(c.Parts, []int64{1 << 20})
				}
			}
			return c
		},
		Check: func(x *verifkit.Ctx, c c10Alg) error {
			var alli []int64
			nonEmpty := 0
			extreme := false
			for _, p := range c.Parts {
				if len(p) > 0 {
					nonEmpty++
				}
				for _, v := range p {
					alli = append(alli, v)
					if v == math.MaxInt64 || v == math.MinInt64 {
						extreme = true
					}
				}
			}
			if c.Float {
				m, r, err := runAlg[float64](c, func(v int64) float64 { return float64(v) / 4 })
				if err != nil {
					return err
				}
				var allf []float64
				for _, v := range alli {
					allf = append(allf, float64(v)/4)
				}
				if want, ok := refFloat(c.Fn, allf); ok {
					if m != want {
						return verifkit.Failf("%s over %v: Map gives %v, definition gives %v", c.Fn, allf, m, want)
					}
					if r != m {
						return verifkit.Failf("%s: Reduce over partials of %v gives %v, Map over all gives %v", c.Fn, c.Parts, r, m)
					}
				}
			} else {
				m, r, err := runAlg[int64](c, func(v int64) int64 { return v })
				if err != nil {
					return err
				}
				if want, ok := refInt(c.Fn, alli); ok {
					if m != want {
						return verifkit.Failf("%s over %v: Map gives %d, definition gives %d", c.Fn, alli, m, want)
					}
					if r != m {
						return verifkit.Failf("%s: Reduce over partials of %v gives %d, Map over all gives %d", c.Fn, c.Parts, r, m)
					}
				}
			}
			x.Label("fn:" + c.Fn)
			x.LabelIf(nonEmpty >= 2, ">=2 non-empty parts")
			x.LabelIf(extreme, "int64 extreme")
			x.LabelIf(nonEmpty < len(c.Parts), "has empty part")
			if nonEmpty >= 2 || extreme {
				x.NonTrivial()
			}
			return nil
		},
		MinLabelFrac: map[string]float64{">=2 non-empty parts": 0.4, "has empty part": 0.1},
	})
}
