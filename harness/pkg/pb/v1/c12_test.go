package v1

import (
	"bytes"
	"fmt"
	"testing"

	"google.golang.org/protobuf/types/known/timestamppb"
	"pgregory.net/rapid"

	modelv1 "github.com/apache/skywalking-banyandb/api/proto/banyandb/model/v1"
	"github.com/apache/skywalking-banyandb/verifkit"
)

// C12 (series identity): Series.Marshal is injective over (subject, entity values), decodes back
// to the same subject and values (empty string / empty bytes read back as null) and equal tuples
// give equal series ids.

type c12EV struct {
	Kind string `json:"kind"` // null | str | int | bin | ts
	S    string `json:"s,omitempty"`
	I    int64  `json:"i,omitempty"`
	B    []byte `json:"b,omitempty"`
	Sec  int64  `json:"sec,omitempty"`
	Nano int32  `json:"nano,omitempty"`
}

type c12Tuple struct {
	Subject string  `json:"subject"`
	Values  []c12EV `json:"values"`
}

type c12SeriesCase struct {
	A c12Tuple `json:"a"`
	B c12Tuple `json:"b"`
	// How B was derived from A (for the label histogram only).
	How string `json:"how"`
}

func (e c12EV) tagValue() *modelv1.TagValue {
	switch e.Kind {
	case "null":
		return &modelv1.TagValue{Value: &modelv1.TagValue_Null{}}
	case "str":
		return &modelv1.TagValue{Value: &modelv1.TagValue_Str{Str: &modelv1.Str{Value: e.S}}}
	case "int":
		return &modelv1.TagValue{Value: &modelv1.TagValue_Int{Int: &modelv1.Int{Value: e.I}}}
	case "bin":
		return &modelv1.TagValue{Value: &modelv1.TagValue_BinaryData{BinaryData: e.B}}
	case "ts":
		return &modelv1.TagValue{Value: &modelv1.TagValue_Timestamp{Timestamp: &timestamppb.Timestamp{Seconds: e.Sec, Nanos: e.Nano}}}
	}
	panic("bad kind " + e.Kind)
}

// canon is the identity the oracle compares tuples by: kind + payload (nil and empty bytes are
// the same value).
func (e c12EV) canon() string {
	switch e.Kind {
	case "null":
		return "N"
	case "str":
		return "S" + e.S
	case "int":
		return fmt.Sprintf("I%d", e.I)
	case "bin":
		return "B" + string(e.B)
	case "ts":
		return fmt.Sprintf("T%d.%09d", e.Sec, e.Nano)
	}
	panic("bad kind")
}

// readback is the documented read-back form: empty string / empty bytes read back as null.
func (e c12EV) readback() string {
	if (e.Kind == "str" && e.S == "") || (e.Kind == "bin" && len(e.B) == 0) {
		return "N"
	}
	return e.canon()
}

func tvCanon(tv *modelv1.TagValue) string {
	switch v := tv.GetValue().(type) {
	case *modelv1.TagValue_Null:
		return "N"
	case *modelv1.TagValue_Str:
		return "S" + v.Str.GetValue()
	case *modelv1.TagValue_Int:
		return fmt.Sprintf("I%d", v.Int.GetValue())
	case *modelv1.TagValue_BinaryData:
		return "B" + string(v.BinaryData)
	case *modelv1.TagValue_Timestamp:
		return fmt.Sprintf("T%d.%09d", v.Timestamp.GetSeconds(), v.Timestamp.GetNanos())
	}
	return fmt.Sprintf("?%v", tv)
}

func tupleEqual(a, b c12Tuple) bool {
	if a.Subject != b.Subject || len(a.Values) != len(b.Values) {
		return false
	}
	for i := range a.Values {
		if a.Values[i].canon() != b.Values[i].canon() {
			return false
		}
	}
	return true
}

func genEV(t *rapid.T, label string) c12EV {
	switch rapid.IntRange(0, 9).Draw(t, label+"/kind") {
	case 0:
		return c12EV{Kind: "null"}
	case 1, 2, 3, 4:
		return c12EV{Kind: "str", S: verifkit.String(t, label+"/s")}
	case 5, 6:
		return c12EV{Kind: "int", I: verifkit.Int64(t, label+"/i")}
	case 7, 8:
		return c12EV{Kind: "bin", B: verifkit.Bytes(t, label+"/b", 6)}
	default:
		return c12EV{Kind: "ts", Sec: int64(rapid.IntRange(0, 9_000_000_000).Draw(t, label+"/sec")), Nano: int32(rapid.IntRange(0, 999_999_999).Draw(t, label+"/ns"))}
	}
}

func genTuple(t *rapid.T, label string) c12Tuple {
	n := rapid.IntRange(0, 4).Draw(t, label+"/n")
	tp := c12Tuple{Subject: verifkit.String(t, label+"/subject")}
	for i := 0; i < n; i++ {
		tp.Values = append(tp.Values, genEV(t, fmt.Sprintf("%s/v%d", label, i)))
	}
	return tp
}

func cloneTuple(a c12Tuple) c12Tuple {
	b := c12Tuple{Subject: a.Subject, Values: append([]c12EV(nil), a.Values...)}
	return b
}

// nearCollision derives a tuple that a sloppy (non-injective) encoder would confuse with a.
func nearCollision(t *rapid.T, a c12Tuple) (c12Tuple, string) {
	b := cloneTuple(a)
	strIdx := func() []int {
		var ix []int
		for i, v := range b.Values {
			if v.Kind == "str" {
				ix = append(ix, i)
			}
		}
		return ix
	}
	switch how := rapid.SampledFrom([]string{"identical", "shift-boundary", "merge-fields", "subject-absorbs", "escape-vs-not", "retype", "split-field", "drop-last", "independent"}).Draw(t, "how"); how {
	case "identical":
		return b, how
	case "shift-boundary": // ["a|","b"] vs ["a","|b"]
		ix := strIdx()
		if len(ix) >= 2 {
			i := rapid.IntRange(0, len(ix)-2).Draw(t, "i")
			p, q := ix[i], ix[i+1]
			if q == p+1 && len(b.Values[p].S) > 0 {
				s := b.Values[p].S
				r := []rune(s)
				b.Values[p].S = string(r[:len(r)-1])
				b.Values[q].S = string(r[len(r)-1:]) + b.Values[q].S
				return b, how
			}
		}
		b.Values = append(b.Values, c12EV{Kind: "str", S: "|"})
		return b, "append-delimiter-field"
	case "merge-fields": // ["a","b"] vs ["a|b"] (as the raw bytes a non-escaping encoder would produce)
		ix := strIdx()
		for k := 0; k+1 < len(ix); k++ {
			if ix[k+1] == ix[k]+1 {
				p := ix[k]
				merged := b.Values[p].S + "|\x01" + b.Values[p+1].S // 0x01 = type byte of a string value
				b.Values = append(append(append([]c12EV(nil), b.Values[:p]...), c12EV{Kind: "str", S: merged}), b.Values[p+2:]...)
				return b, how
			}
		}
		b.Subject += "|"
		return b, "subject-plus-delimiter"
	case "subject-absorbs": // subject "s", ["a"] vs subject "s|\x01a", []
		if len(b.Values) > 0 && b.Values[0].Kind == "str" {
			b.Subject = b.Subject + "|\x01" + b.Values[0].S
			b.Values = b.Values[1:]
			return b, how
		}
		b.Subject += "\\"
		return b, "subject-plus-escape"
	case "escape-vs-not": // "a\|b" vs "a|b", "\\" vs "\"
		ix := strIdx()
		if len(ix) > 0 {
			p := ix[rapid.IntRange(0, len(ix)-1).Draw(t, "i")]
			s := b.Values[p].S
			var out []rune
			for _, r := range s {
				if r == '|' || r == '\\' {
					out = append(out, '\\')
				}
				out = append(out, r)
			}
			if string(out) != s {
				b.Values[p].S = string(out)
				return b, how
			}
			b.Values[p].S = s + "\\"
			return b, "append-escape"
		}
		b.Subject = "\\" + b.Subject
		return b, "subject-escape-prefix"
	case "retype": // same payload bytes, different kind
		if len(b.Values) > 0 {
			p := rapid.IntRange(0, len(b.Values)-1).Draw(t, "i")
			switch v := b.Values[p]; v.Kind {
			case "str":
				b.Values[p] = c12EV{Kind: "bin", B: []byte(v.S)}
			case "bin":
				if !bytes.ContainsRune(v.B, 0xFFFD) && validUTF8(v.B) {
					b.Values[p] = c12EV{Kind: "str", S: string(v.B)}
				} else {
					b.Values[p] = c12EV{Kind: "null"}
				}
			case "null":
				b.Values[p] = c12EV{Kind: "str", S: ""}
			case "int":
				b.Values[p] = c12EV{Kind: "ts", Sec: 0, Nano: 0}
			case "ts":
				b.Values[p] = c12EV{Kind: "int", I: v.Sec*1_000_000_000 + int64(v.Nano)}
			}
			return b, how
		}
		b.Values = append(b.Values, c12EV{Kind: "null"})
		return b, "append-null"
	case "split-field":
		ix := strIdx()
		if len(ix) > 0 {
			p := ix[0]
			r := []rune(b.Values[p].S)
			if len(r) >= 2 {
				k := rapid.IntRange(1, len(r)-1).Draw(t, "k")
				nv := append(append([]c12EV(nil), b.Values[:p]...), c12EV{Kind: "str", S: string(r[:k])}, c12EV{Kind: "str", S: string(r[k:])})
				b.Values = append(nv, b.Values[p+1:]...)
				return b, how
			}
		}
		b.Values = append(b.Values, c12EV{Kind: "str", S: ""})
		return b, "append-empty"
	case "drop-last":
		if len(b.Values) > 0 {
			b.Values = b.Values[:len(b.Values)-1]
			return b, how
		}
		b.Values = append(b.Values, c12EV{Kind: "bin"})
		return b, "append-empty-bin"
	default:
		return genTuple(t, "b"), "independent"
	}
}

func validUTF8(b []byte) bool {
	for _, r := range string(b) {
		if r == 0xFFFD {
			return false
		}
	}
	return true
}

func (tp c12Tuple) series() *Series {
	s := &Series{Subject: tp.Subject}
	for _, v := range tp.Values {
		s.EntityValues = append(s.EntityValues, v.tagValue())
	}
	return s
}

func hasDelims(tp c12Tuple) bool {
	has := func(b []byte) bool { return bytes.IndexByte(b, '|') >= 0 || bytes.IndexByte(b, '\\') >= 0 }
	if has([]byte(tp.Subject)) {
		return true
	}
	for _, v := range tp.Values {
		s := v.tagValue()
		buf, _ := MarshalTagValues(nil, []*modelv1.TagValue{s})
		// the raw payload contains a delimiter or escape byte iff the marshalled form contains an escape
		if bytes.IndexByte(buf, '\\') >= 0 {
			return true
		}
	}
	return false
}

func TestVerifC12SeriesKey(t *testing.T) {
	verifkit.Run(t, verifkit.Spec[c12SeriesCase]{
		Property: "C12", Unit: "series_key",
		Rule: "tuple A = subject + 0..4 entity values (null/str/int/binary/timestamp; strings and bytes biased to '|', '\\\\', empty, 0x7c/0x5c inside " +
			"big-endian ints) and a tuple B derived from A as a near-collision (boundary shifted between adjacent fields, fields merged with the raw " +
			"delimiter+type byte, subject absorbing the first value, escaped vs unescaped text, same payload under another type, split field, dropped " +
			"field) or drawn independently; non-trivial = A or B contains a delimiter/escape byte in a payload, or B is a near-collision different from A",
		Gen: func(t *rapid.T, _ *verifkit.KnownSet) c12SeriesCase {
			a := genTuple(t, "a")
			b, how := nearCollision(t, a)
			return c12SeriesCase{A: a, B: b, How: how}
		},
		Check: func(x *verifkit.Ctx, c c12SeriesCase) error {
			sa, sb := c.A.series(), c.B.series()
			if err := sa.Marshal(); err != nil {
				return verifkit.Failf("Marshal(A) failed: %v", err)
			}
			if err := sb.Marshal(); err != nil {
				return verifkit.Failf("Marshal(B) failed: %v", err)
			}
			eq := tupleEqual(c.A, c.B)
			same := bytes.Equal(sa.Buffer, sb.Buffer)
			if eq && !same {
				return verifkit.Failf("equal tuples marshal differently: %q vs %q", sa.Buffer, sb.Buffer)
			}
			if eq && sa.ID != sb.ID {
				return verifkit.Failf("equal tuples got different series ids %d vs %d", sa.ID, sb.ID)
			}
			if !eq && same {
				return verifkit.Failf("two different entities share the series key %q (id %d): A=%+v B=%+v", sa.Buffer, sa.ID, c.A, c.B)
			}
			// determinism: a second, independently built series gives the same buffer/id
			sa2 := c.A.series()
			if err := sa2.Marshal(); err != nil || !bytes.Equal(sa2.Buffer, sa.Buffer) || sa2.ID != sa.ID {
				return verifkit.Failf("Marshal is not deterministic for %+v", c.A)
			}
			// round trip, for both tuples
			for _, p := range []struct {
				tp c12Tuple
				s  *Series
			}{{c.A, sa}, {c.B, sb}} {
				var dec Series
				if err := dec.Unmarshal(p.s.Buffer); err != nil {
					return verifkit.Failf("Unmarshal(Marshal(%+v)) failed: %v (buffer %q)", p.tp, err, p.s.Buffer)
				}
				if dec.Subject != p.tp.Subject {
					return verifkit.Failf("subject %q decoded as %q (buffer %q)", p.tp.Subject, dec.Subject, p.s.Buffer)
				}
				if len(dec.EntityValues) != len(p.tp.Values) {
					return verifkit.Failf("%d entity values decoded as %d (buffer %q): %+v", len(p.tp.Values), len(dec.EntityValues), p.s.Buffer, p.tp)
				}
				for i, v := range p.tp.Values {
					if got, want := tvCanon(dec.EntityValues[i]), v.readback(); got != want {
						return verifkit.Failf("entity value %d: wrote %q read %q (buffer %q)", i, want, got, p.s.Buffer)
					}
				}
				if dec.ID != p.s.ID {
					return verifkit.Failf("Unmarshal computed id %d, Marshal %d", dec.ID, p.s.ID)
				}
			}
			x.Label("how:" + c.How)
			d := hasDelims(c.A) || hasDelims(c.B)
			x.LabelIf(d, "delimiter/escape in payload")
			x.LabelIf(eq, "equal tuples")
			if d || (!eq && c.How != "independent") {
				x.NonTrivial()
			}
			return nil
		},
		MinLabelFrac: map[string]float64{"delimiter/escape in payload": 0.2},
	})
}
