package node

import (
	"fmt"
	"sort"
	"testing"

	"pgregory.net/rapid"

	commonv1 "github.com/apache/skywalking-banyandb/api/proto/banyandb/common/v1"
	databasev1 "github.com/apache/skywalking-banyandb/api/proto/banyandb/database/v1"
	"github.com/apache/skywalking-banyandb/banyand/metadata/schema"
	"github.com/apache/skywalking-banyandb/verifkit"
)

// C16 (node placement): given the same set of groups and live data nodes every coordinator
// computes the same shard->node assignment whatever the order/repetition of the events it saw;
// every shard of every known group is assigned; copies of a shard sit on distinct nodes when
// enough nodes exist.

type c16Event struct {
	Kind     string `json:"kind"` // add-group | del-group | add-node | del-node | bad-group
	Name     string `json:"name"`
	Shards   uint32 `json:"shards,omitempty"`
	Replicas uint32 `json:"replicas,omitempty"`
}

type c16Case struct {
	Events []c16Event `json:"events"`
	Perm   []int      `json:"perm"` // order in which the canonical history of the final topology is replayed on a second selector
}

type c16Group struct{ shards, replicas uint32 }

func (c c16Case) final() (map[string]c16Group, []string) {
	groups := map[string]c16Group{}
	nodes := map[string]bool{}
	for _, e := range c.Events {
		switch e.Kind {
		case "add-group":
			groups[e.Name] = c16Group{e.Shards, e.Replicas}
		case "del-group":
			delete(groups, e.Name)
		case "add-node":
			nodes[e.Name] = true
		case "del-node":
			delete(nodes, e.Name)
		}
	}
	var nl []string
	for n := range nodes {
		nl = append(nl, n)
	}
	sort.Strings(nl)
	return groups, nl
}

func apply(sel Selector, e c16Event) {
	rr := sel.(*roundRobinSelector)
	switch e.Kind {
	case "add-group":
		rr.OnAddOrUpdate(schema.Metadata{TypeMeta: schema.TypeMeta{Kind: schema.KindGroup, Name: e.Name}, Spec: &commonv1.Group{
			Metadata: &commonv1.Metadata{Name: e.Name}, Catalog: commonv1.Catalog_CATALOG_MEASURE,
			ResourceOpts: &commonv1.ResourceOpts{ShardNum: e.Shards, Replicas: e.Replicas},
		}})
	case "bad-group": // invalid group specs are ignored by the selector
		rr.OnAddOrUpdate(schema.Metadata{TypeMeta: schema.TypeMeta{Kind: schema.KindGroup, Name: e.Name}, Spec: &commonv1.Group{
			Metadata: &commonv1.Metadata{Name: e.Name}, Catalog: commonv1.Catalog_CATALOG_UNSPECIFIED,
			ResourceOpts: &commonv1.ResourceOpts{ShardNum: e.Shards},
		}})
	case "del-group":
		rr.OnDelete(schema.Metadata{TypeMeta: schema.TypeMeta{Kind: schema.KindGroup, Name: e.Name}, Spec: &commonv1.Group{
			Metadata: &commonv1.Metadata{Name: e.Name}, Catalog: commonv1.Catalog_CATALOG_MEASURE, ResourceOpts: &commonv1.ResourceOpts{ShardNum: 1},
		}})
	case "add-node": // the liaison calls AddNode for node additions AND node updates (clusterNodeService.OnAddOrUpdate)
		rr.AddNode(&databasev1.Node{Metadata: &commonv1.Metadata{Name: e.Name}})
	case "del-node":
		rr.RemoveNode(&databasev1.Node{Metadata: &commonv1.Metadata{Name: e.Name}})
	}
}

func hasRepeatedLiveNode(c c16Case) bool {
	live := map[string]bool{}
	for _, e := range c.Events {
		switch e.Kind {
		case "add-node":
			if live[e.Name] {
				return true
			}
			live[e.Name] = true
		case "del-node":
			delete(live, e.Name)
		}
	}
	return false
}

func TestVerifC16Selector(t *testing.T) {
	groupNames := []string{"g1", "g2", "metrics", "traces", "events", "a", "z"}
	nodeNames := []string{"n1", "n2", "n3", "n4", "node-a", "node-b", "data-0"}
	verifkit.Run(t, verifkit.Spec[c16Case]{
		Property: "C16", Unit: "selector",
		Rule: "event histories of 0..24 add/update/remove-group (1..8 shards, 0..3 replicas), invalid-group, add-node (incl. repeated = node update) and " +
			"remove-node events fed to the real round-robin selector; a second selector is fed the canonical history of the same final topology (each " +
			"final group and node once) in a generated permutation; oracle: both selectors return the same node for every (group, shard, replica), every " +
			"shard of every final group is pickable when >= 1 node exists, removed groups are unknown, replicas of a shard are pairwise distinct when " +
			"nodes > replicas; non-trivial = >= 2 final groups, >= 2 final nodes and the history contains a removal, an update or a repetition",
		Known: []verifkit.Known[c16Case]{{Key: "addnode-no-dedup", Match: hasRepeatedLiveNode}},
		Gen: func(t *rapid.T, ks *verifkit.KnownSet) c16Case {
			n := rapid.IntRange(0, 24).Draw(t, "n")
			var c c16Case
			live := map[string]bool{}
			for i := 0; i < n; i++ {
				var e c16Event
				switch rapid.IntRange(0, 9).Draw(t, "kind") {
				case 0, 1, 2, 3:
					e = c16Event{Kind: "add-group", Name: rapid.SampledFrom(groupNames).Draw(t, "g"), Shards: uint32(rapid.IntRange(1, 8).Draw(t, "sh")), Replicas: uint32(rapid.IntRange(0, 3).Draw(t, "rp"))}
				case 4:
					e = c16Event{Kind: "del-group", Name: rapid.SampledFrom(groupNames).Draw(t, "g")}
				case 5, 6, 7:
					e = c16Event{Kind: "add-node", Name: rapid.SampledFrom(nodeNames).Draw(t, "nd")}
					if live[e.Name] && ks.Active("addnode-no-dedup") {
						ks.Excluded("addnode-no-dedup")
						continue
					}
					live[e.Name] = true
				case 8:
					e = c16Event{Kind: "del-node", Name: rapid.SampledFrom(nodeNames).Draw(t, "nd")}
					delete(live, e.Name)
				default:
					e = c16Event{Kind: "bad-group", Name: rapid.SampledFrom(groupNames).Draw(t, "g"), Shards: 2}
				}
				c.Events = append(c.Events, e)
			}
			groups, nodes := c.final()
			c.Perm = rapid.Permutation(seqInts(len(groups)+len(nodes))).Draw(t, "perm")
			return c
		},
		Check: func(x *verifkit.Ctx, c c16Case) error {
			a := NewRoundRobinSelector("a", nil)
			for _, e := range c.Events {
				apply(a, e)
			}
			groups, nodes := c.final()
			var gnames []string
			for g := range groups {
				gnames = append(gnames, g)
			}
			sort.Strings(gnames)
			var canon []c16Event
			for _, g := range gnames {
				canon = append(canon, c16Event{Kind: "add-group", Name: g, Shards: groups[g].shards, Replicas: groups[g].replicas})
			}
			for _, n := range nodes {
				canon = append(canon, c16Event{Kind: "add-node", Name: n})
			}
			b := NewRoundRobinSelector("b", nil)
			if len(c.Perm) == len(canon) {
				for _, i := range c.Perm {
					apply(b, canon[i])
				}
			} else {
				for _, e := range canon {
					apply(b, e)
				}
			}
			for _, g := range gnames {
				gr := groups[g]
				for s := uint32(0); s < gr.shards; s++ {
					seen := map[string]uint32{}
					for r := uint32(0); r <= gr.replicas; r++ {
						na, ea := a.Pick(g, "", s, r)
						nb, eb := b.Pick(g, "", s, r)
						if len(nodes) == 0 {
							if ea == nil || eb == nil {
								return verifkit.Failf("Pick(%s,%d,%d) succeeded with no live node", g, s, r)
							}
							continue
						}
						if ea != nil {
							return verifkit.Failf("shard %s-%d (replica %d) of a known group is not assigned after the event history: %v (nodes %v)", g, s, r, ea, nodes)
						}
						if eb != nil {
							return verifkit.Failf("shard %s-%d (replica %d) is not assigned on the canonical selector: %v", g, s, r, eb)
						}
						if na != nb {
							return verifkit.Failf("coordinators disagree on %s-%d replica %d: %q after the event history, %q after the canonical history of the same topology (groups %v nodes %v)",
								g, s, r, na, nb, gnames, nodes)
						}
						ok := false
						for _, n := range nodes {
							if n == na {
								ok = true
							}
						}
						if !ok {
							return verifkit.Failf("%s-%d replica %d assigned to %q which is not a live node %v", g, s, r, na, nodes)
						}
						if prev, dup := seen[na]; dup && len(nodes) > int(gr.replicas) {
							return verifkit.Failf("copies %d and %d of shard %s-%d are both placed on %q although %d nodes are live for %d copies", prev, r, g, s, na, len(nodes), gr.replicas+1)
						}
						seen[na] = r
					}
				}
				// a shard beyond the group's count is unknown
				if _, err := a.Pick(g, "", gr.shards, 0); err == nil && len(nodes) > 0 {
					return verifkit.Failf("Pick(%s, shard %d) succeeded although the group has %d shards", g, gr.shards, gr.shards)
				}
			}
			for _, g := range groupNames {
				if _, live := groups[g]; !live && len(nodes) > 0 {
					if n, err := a.Pick(g, "", 0, 0); err == nil {
						return verifkit.Failf("removed/unknown group %s is still assigned (to %s)", g, n)
					}
				}
			}
			removal, repeat := false, false
			seenG := map[string]bool{}
			for _, e := range c.Events {
				if e.Kind == "del-group" || e.Kind == "del-node" {
					removal = true
				}
				if e.Kind == "add-group" {
					if seenG[e.Name] {
						repeat = true
					}
					seenG[e.Name] = true
				}
			}
			repeat = repeat || hasRepeatedLiveNode(c)
			x.LabelIf(removal, "has removal")
			x.LabelIf(repeat, "has update/repetition")
			x.LabelIf(hasRepeatedLiveNode(c), "node update (AddNode repeated)")
			x.LabelIf(len(groups) >= 2, ">=2 final groups")
			x.LabelIf(len(nodes) >= 2, ">=2 final nodes")
			if len(groups) >= 2 && len(nodes) >= 2 && (removal || repeat) {
				x.NonTrivial()
			}
			return nil
		},
		MinLabelFrac: map[string]float64{"has removal": 0.3, ">=2 final groups": 0.3, ">=2 final nodes": 0.3},
	})
}

func seqInts(n int) []int {
	s := make([]int, n)
	for i := range s {
		s[i] = i
	}
	return s
}

var _ = fmt.Sprint

// C16 (pick-first selector): the selector used where one node serves a whole group - every coordinator
// picks the same node for the same set of live nodes, whatever the history of additions and removals.
func TestVerifC16PickFirst(t *testing.T) {
	nodeNames := []string{"n1", "n2", "n3", "n4", "n5", "node-a", "node-b", "data-0"}
	type pfCase struct {
		Events []c16Event `json:"events"`
	}
	verifkit.Run(t, verifkit.Spec[pfCase]{
		Property: "C16", Unit: "pick_first",
		Rule: "event histories of 0..30 add-node (incl. repeated) and remove-node (incl. of unknown nodes) events over 8 node names fed to the real pick-first " +
			"selector, with a Pick after every event; oracle: Pick fails exactly when no node is live, otherwise it returns the smallest live node - the node a " +
			"second selector fed only the final live set returns - and never a removed node; non-trivial = >= 3 nodes were live at some point and a node other than " +
			"the last two in order was removed",
		Gen: func(t *rapid.T, _ *verifkit.KnownSet) pfCase {
			var c pfCase
			for i := rapid.IntRange(0, 30).Draw(t, "n"); i > 0; i-- {
				kind := "add-node"
				if rapid.IntRange(0, 2).Draw(t, "kind") == 0 {
					kind = "del-node"
				}
				c.Events = append(c.Events, c16Event{Kind: kind, Name: rapid.SampledFrom(nodeNames).Draw(t, "nd")})
			}
			return c
		},
		Check: func(x *verifkit.Ctx, c pfCase) error {
			sel, err := NewPickFirstSelector()
			if err != nil {
				return err
			}
			live := map[string]bool{}
			interesting := false
			for i, e := range c.Events {
				n := &databasev1.Node{Metadata: &commonv1.Metadata{Name: e.Name}}
				if e.Kind == "add-node" {
					sel.AddNode(n)
					live[e.Name] = true
				} else {
					if live[e.Name] && len(live) >= 3 {
						var order []string
						for k := range live {
							order = append(order, k)
						}
						sort.Strings(order)
						if e.Name != order[len(order)-1] && e.Name != order[len(order)-2] {
							interesting = true
						}
					}
					sel.RemoveNode(n)
					delete(live, e.Name)
				}
				got, perr := sel.Pick("g", "", 0, 0)
				if len(live) == 0 {
					if perr == nil {
						return verifkit.Failf("after event %d (%s %s): Pick returned %q although no node is live", i, e.Kind, e.Name, got)
					}
					continue
				}
				var order []string
				for k := range live {
					order = append(order, k)
				}
				sort.Strings(order)
				if perr != nil {
					return verifkit.Failf("after event %d (%s %s): Pick failed with %v although %v are live", i, e.Kind, e.Name, perr, order)
				}
				fresh, _ := NewPickFirstSelector()
				for _, k := range order {
					fresh.AddNode(&databasev1.Node{Metadata: &commonv1.Metadata{Name: k}})
				}
				want, _ := fresh.Pick("g", "", 0, 0)
				if got != want || got != order[0] {
					return verifkit.Failf("after event %d (%s %s): this coordinator picks %q, a coordinator that learned only the live nodes %v picks %q", i, e.Kind, e.Name, got, order, want)
				}
			}
			x.LabelIf(interesting, "removal of a node that is not among the last two")
			if interesting {
				x.NonTrivial()
			}
			return nil
		},
		MinLabelFrac: map[string]float64{"removal of a node that is not among the last two": 0.2},
	})
}
