package encoding

import (
	"bytes"
	"fmt"
	"math"
	"testing"

	"pgregory.net/rapid"

	"github.com/apache/skywalking-banyandb/verifkit"
)

// C11: every storage codec decodes to exactly what was encoded (or refuses so that the lossless
// fallback is used), and error-returning decoders never crash / hang / over-allocate on bad bytes.

func genLen(t *rapid.T, label string, min int) int {
	switch rapid.IntRange(0, 19).Draw(t, label+"/lenclass") {
	case 0:
		return rapid.IntRange(max(min, 300), 2000).Draw(t, label)
	case 1:
		if verifkit.Thorough() {
			return rapid.IntRange(max(min, 8000), 8200).Draw(t, label)
		}
		return rapid.IntRange(max(min, 250), 300).Draw(t, label)
	case 2, 3:
		// counts whose one-byte-per-item length list sits on the plain/zstd (128) and one-byte size (256) edges
		return rapid.SampledFrom([]int{125, 126, 127, 128, 129, 253, 254, 255, 256, 257, 258}).Draw(t, label)
	case 4, 5:
		return rapid.IntRange(max(min, 17), 300).Draw(t, label)
	default:
		return rapid.IntRange(min, 16).Draw(t, label)
	}
}

// ---------------------------------------------------------------- int64 lists

type c11IntList struct {
	Shape string  `json:"shape"`
	Vals  []int64 `json:"vals"`
}

func genIntList(t *rapid.T) c11IntList {
	n := genLen(t, "n", 1)
	shape := rapid.SampledFrom([]string{"const", "arith", "monotone", "monotone-desc", "counter-resets", "random", "hostile", "small", "overflow-delta"}).Draw(t, "shape")
	vals := make([]int64, n)
	switch shape {
	case "const":
		v := verifkit.Int64(t, "v")
		for i := range vals {
			vals[i] = v
		}
	case "arith":
		v := verifkit.Int64(t, "v0")
		d := verifkit.Int64(t, "d")
		for i := range vals {
			vals[i] = v
			v += d // wraps on purpose
		}
	case "monotone", "monotone-desc":
		v := verifkit.Int64(t, "v0")
		maxd := rapid.SampledFrom([]int{1, 3, 100, 1 << 20, 1 << 40}).Draw(t, "maxd")
		for i := range vals {
			vals[i] = v
			d := int64(rapid.IntRange(0, maxd).Draw(t, "d"))
			if shape == "monotone" {
				v += d
			} else {
				v -= d
			}
		}
	case "counter-resets":
		v := int64(rapid.IntRange(0, 1<<30).Draw(t, "v0"))
		for i := range vals {
			vals[i] = v
			if rapid.IntRange(0, 9).Draw(t, "reset") == 0 {
				v = int64(rapid.IntRange(0, 5).Draw(t, "r"))
			} else {
				v += int64(rapid.IntRange(0, 1000).Draw(t, "d"))
			}
		}
	case "random":
		for i := range vals {
			vals[i] = rapid.Int64().Draw(t, "v")
		}
	case "hostile":
		for i := range vals {
			vals[i] = verifkit.Int64(t, "v")
		}
	case "small":
		for i := range vals {
			vals[i] = int64(rapid.IntRange(-70, 70).Draw(t, "v"))
		}
	case "overflow-delta":
		pool := []int64{math.MinInt64, math.MaxInt64, 0, -1, 1, math.MinInt64 + 1, math.MaxInt64 - 1}
		for i := range vals {
			vals[i] = rapid.SampledFrom(pool).Draw(t, "v")
		}
	}
	return c11IntList{Shape: shape, Vals: vals}
}

func checkIntList(x *verifkit.Ctx, c c11IntList) error {
	if len(c.Vals) == 0 {
		return nil
	}
	enc, mt, first := Int64ListToBytes(nil, c.Vals)
	got, err := BytesToInt64List(nil, enc, mt, first, len(c.Vals))
	if err != nil {
		return verifkit.Failf("BytesToInt64List(Int64ListToBytes(%d values, shape %s)) mode %d: %v", len(c.Vals), c.Shape, mt, err)
	}
	if len(got) != len(c.Vals) {
		return verifkit.Failf("mode %d: decoded %d values, encoded %d", mt, len(got), len(c.Vals))
	}
	for i := range got {
		if got[i] != c.Vals[i] {
			return verifkit.Failf("mode %d: value %d decoded as %d, encoded %d (first=%d, n=%d)", mt, i, got[i], c.Vals[i], first, len(c.Vals))
		}
	}
	// appending to a non-empty dst must keep the prefix and not depend on it
	prefix := []byte{0xAA, 0xBB}
	enc2, mt2, first2 := Int64ListToBytes(append([]byte(nil), prefix...), c.Vals)
	if mt2 != mt || first2 != first || !bytes.Equal(enc2[:2], prefix) || !bytes.Equal(enc2[2:], enc) {
		return verifkit.Failf("Int64ListToBytes depends on dst prefix")
	}
	got2, err := BytesToInt64List([]int64{7, 8}, enc, mt, first, len(c.Vals))
	if err != nil || len(got2) != len(c.Vals)+2 || got2[0] != 7 || got2[1] != 8 || (len(c.Vals) > 0 && got2[len(got2)-1] != c.Vals[len(c.Vals)-1]) {
		return verifkit.Failf("BytesToInt64List with non-empty dst: err=%v len=%d", err, len(got2))
	}
	// versioned type mapping is a bijection on the four base modes
	if vt := GetVersionType(mt); vt == EncodeTypeUnknown || GetCommonType(vt) != mt {
		return verifkit.Failf("GetCommonType(GetVersionType(%d)) = %d", mt, GetCommonType(GetVersionType(mt)))
	}
	x.Label(fmt.Sprintf("mode:%d", mt))
	x.Label("shape:" + c.Shape)
	x.LabelIf(len(c.Vals) > 300, "long")
	if mt != EncodeTypeConst || len(c.Vals) > 1 {
		x.NonTrivial()
	}
	return nil
}

func TestVerifC11IntList(t *testing.T) {
	verifkit.Run(t, verifkit.Spec[c11IntList]{
		Property: "C11", Unit: "int_list",
		Rule: "int64 sequences of length 1..8200 (mostly <=16, 5% >=300) in shapes that force every mode: const, arithmetic (delta-const, wrapping), " +
			"monotone asc/desc (delta-of-delta), counters with resets, random, boundary pool, small, Min/Max mixes (overflowing deltas); " +
			"non-trivial = encoder chose a mode other than const, or length > 1",
		Gen:   func(t *rapid.T, _ *verifkit.KnownSet) c11IntList { return genIntList(t) },
		Check: checkIntList,
		MinLabelFrac: map[string]float64{
			fmt.Sprintf("mode:%d", EncodeTypeConst): 0.03, fmt.Sprintf("mode:%d", EncodeTypeDeltaConst): 0.03,
			fmt.Sprintf("mode:%d", EncodeTypeDelta): 0.03, fmt.Sprintf("mode:%d", EncodeTypeDeltaOfDelta): 0.03,
		},
	})
}

// ---------------------------------------------------------------- varints / fixed ints

type c11VarInts struct {
	Vals []int64 `json:"vals"`
}

func TestVerifC11VarInt(t *testing.T) {
	verifkit.Run(t, verifkit.Spec[c11VarInts]{
		Property: "C11", Unit: "varint",
		Rule: "int64/uint64 sequences (length 0..300) from the boundary pool, 2^k+-d and uniform draws through VarInt64List, VarUint64s, VarUint64, " +
			"zig-zag Int64ToBytes and fixed-width Uint16/32/64 codecs incl. a trailing tail; non-trivial = some value needs >= 2 bytes",
		Gen: func(t *rapid.T, _ *verifkit.KnownSet) c11VarInts {
			n := genLen(t, "n", 0)
			if n > 300 {
				n = 300
			}
			vals := make([]int64, n)
			for i := range vals {
				vals[i] = verifkit.Int64(t, "v")
			}
			return c11VarInts{Vals: vals}
		},
		Check: func(x *verifkit.Ctx, c c11VarInts) error {
			tail := []byte{0x81, 0x01, 0xff}
			enc := VarInt64ListToBytes(nil, c.Vals)
			dst := make([]int64, len(c.Vals))
			rest, err := BytesToVarInt64List(dst, append(append([]byte(nil), enc...), tail...))
			if err != nil {
				return verifkit.Failf("BytesToVarInt64List: %v", err)
			}
			if !bytes.Equal(rest, tail) {
				return verifkit.Failf("BytesToVarInt64List tail %x, want %x", rest, tail)
			}
			multi := false
			for i, v := range c.Vals {
				if dst[i] != v {
					return verifkit.Failf("varint64 %d decoded as %d", v, dst[i])
				}
				one := VarInt64ToBytes(nil, v)
				r, got, err := BytesToVarInt64(one)
				if err != nil || got != v || len(r) != 0 {
					return verifkit.Failf("VarInt64ToBytes(%d) -> %x -> %d, %v, rest %d", v, one, got, err, len(r))
				}
				if len(one) > 1 {
					multi = true
				}
				u := uint64(v)
				ue := VarUint64ToBytes(nil, u)
				r2, gu := BytesToVarUint64(append(append([]byte(nil), ue...), tail...))
				if gu != u || !bytes.Equal(r2, tail) {
					return verifkit.Failf("VarUint64ToBytes(%d) -> %x -> %d rest %x", u, ue, gu, r2)
				}
				if got := BytesToInt64(Int64ToBytes(nil, v)); got != v {
					return verifkit.Failf("zigzag Int64ToBytes(%d) -> %d", v, got)
				}
				if BytesToUint64(Uint64ToBytes(nil, u)) != u || BytesToUint32(Uint32ToBytes(nil, uint32(u))) != uint32(u) ||
					BytesToUint16(Uint16ToBytes(nil, uint16(u))) != uint16(u) {
					return verifkit.Failf("fixed-width round trip of %d", u)
				}
			}
			us := make([]uint64, len(c.Vals))
			for i, v := range c.Vals {
				us[i] = uint64(v)
			}
			uenc := VarUint64sToBytes(nil, us)
			udst := make([]uint64, len(us))
			rest, err = BytesToVarUint64s(udst, append(append([]byte(nil), uenc...), tail...))
			if err != nil || !bytes.Equal(rest, tail) {
				return verifkit.Failf("BytesToVarUint64s: %v rest %x", err, rest)
			}
			for i := range us {
				if udst[i] != us[i] {
					return verifkit.Failf("varuint64 %d decoded as %d", us[i], udst[i])
				}
			}
			x.LabelIf(multi, "multi-byte")
			if multi {
				x.NonTrivial()
			}
			return nil
		},
	})
}

// ---------------------------------------------------------------- decimal floats

type c11Floats struct {
	Bits []uint64 `json:"bits"`
}

// classes of the known decimal-codec defect, as predicates over the input sequence
func floatMantissaBig(bits []uint64) bool {
	var buf [64]byte
	for _, b := range bits {
		f := math.Float64frombits(b)
		if f != f || math.IsInf(f, 0) {
			continue
		}
		m, _, ok := floatToDecimal(f, buf[:])
		if ok && (m > 1<<53 || m < -(1<<53)) {
			return true
		}
	}
	return false
}

func hasNegZero(bits []uint64) bool {
	for _, b := range bits {
		if b == 1<<63 {
			return true
		}
	}
	return false
}

func checkFloats(x *verifkit.Ctx, c c11Floats) error {
	src := make([]float64, len(c.Bits))
	for i, b := range c.Bits {
		src[i] = math.Float64frombits(b)
	}
	ints, exp, err := Float64ListToDecimalIntList(nil, src)
	if err != nil {
		if err != errCannotEncodeLossless {
			return verifkit.Failf("unexpected error %v", err)
		}
		x.Label("refused (lossless fallback)")
		if len(c.Bits) > 0 {
			x.NonTrivial()
		}
		return nil
	}
	if len(ints) != len(src) {
		return verifkit.Failf("encoded %d ints for %d floats", len(ints), len(src))
	}
	got, err := DecimalIntListToFloat64List(nil, ints, exp, len(ints))
	if err != nil {
		return verifkit.Failf("DecimalIntListToFloat64List: %v", err)
	}
	if len(got) != len(src) {
		return verifkit.Failf("decoded %d floats for %d", len(got), len(src))
	}
	for i := range got {
		if math.Float64bits(got[i]) != c.Bits[i] {
			return verifkit.Failf("float %d: wrote bits %016x (%v), accepted as %d*10^%d, read bits %016x (%v)",
				i, c.Bits[i], src[i], ints[i], exp, math.Float64bits(got[i]), got[i])
		}
	}
	x.Label("accepted")
	x.LabelIf(exp < 0, "negative exponent")
	x.LabelIf(exp > 0, "positive exponent")
	if len(c.Bits) > 0 {
		x.NonTrivial()
	}
	return nil
}

func TestVerifC11FloatDecimal(t *testing.T) {
	verifkit.Run(t, verifkit.Spec[c11Floats]{
		Property: "C11", Unit: "float_decimal",
		Rule: "float64 sequences (length 0..300) of bit patterns from the boundary pool (+-0, subnormals, Inf, NaN, 2^53 neighbours, 17-digit values, " +
			"huge/small exponents), short decimals m*10^-e, integers and uniform bit patterns; oracle: accepted => decodes bit-exactly, else " +
			"errCannotEncodeLossless; non-trivial = non-empty sequence",
		Known: []verifkit.Known[c11Floats]{
			{Key: "float-decimal-mantissa-gt-2^53", Match: func(c c11Floats) bool { return floatMantissaBig(c.Bits) }},
			{Key: "float-decimal-neg-zero", Match: func(c c11Floats) bool { return hasNegZero(c.Bits) }},
		},
		Gen: func(t *rapid.T, ks *verifkit.KnownSet) c11Floats {
			n := genLen(t, "n", 0)
			if n > 300 {
				n = 300
			}
			mode := rapid.IntRange(0, 3).Draw(t, "mode")
			bits := make([]uint64, n)
			for i := range bits {
				switch mode {
				case 0: // all short decimals: the encoder's home ground
					m := int64(rapid.IntRange(-999999, 999999).Draw(t, "m"))
					e := rapid.IntRange(0, 4).Draw(t, "e")
					bits[i] = math.Float64bits(float64(m) / math.Pow10(e))
				case 1: // finite values only
					b := verifkit.FloatBits(t, "b", false)
					if (b>>52)&0x7ff == 0x7ff {
						b &^= 1 << 62
					}
					bits[i] = b
				default:
					bits[i] = verifkit.FloatBits(t, "b", true)
				}
				if bits[i] == 1<<63 && ks.Active("float-decimal-neg-zero") {
					bits[i] = 0
					ks.Excluded("float-decimal-neg-zero")
				}
			}
			return c11Floats{Bits: bits}
		},
		Check:        checkFloats,
		MinLabelFrac: map[string]float64{"accepted": 0.2, "refused (lossless fallback)": 0.05},
	})
}

// ---------------------------------------------------------------- byte blocks / uint64 blocks

type c11Item struct {
	Nil bool   `json:"nil,omitempty"`
	B   []byte `json:"b,omitempty"`
}

type c11Bytes struct {
	Items []c11Item `json:"items"`
	U64   []uint64  `json:"u64"`
}

func (c c11Bytes) values() [][]byte {
	out := make([][]byte, len(c.Items))
	for i, it := range c.Items {
		if it.Nil {
			out[i] = nil
		} else if it.B == nil {
			out[i] = []byte{}
		} else {
			out[i] = it.B
		}
	}
	return out
}

func sameBytes(a, b []byte) bool {
	return (a == nil) == (b == nil) && bytes.Equal(a, b)
}

func genItems(t *rapid.T, maxDistinct int) []c11Item {
	n := genLen(t, "n", 0)
	if n > 1200 {
		n = 1200
	}
	kind := rapid.SampledFrom([]string{"low-card", "high-card", "mixed", "long", "all-nil", "all-empty", "exact-total"}).Draw(t, "kind")
	if kind == "long" && n > 24 {
		n = 24
	}
	items := make([]c11Item, n)
	pool := make([][]byte, 0, 8)
	for i := 0; i < rapid.IntRange(1, 6).Draw(t, "pooln"); i++ {
		pool = append(pool, verifkit.Bytes(t, "pool", 10))
	}
	if kind == "exact-total" {
		// payload whose concatenation is exactly T bytes, T on the 128 / 256 edges
		total := rapid.SampledFrom([]int{126, 127, 128, 129, 254, 255, 256, 257, 512}).Draw(t, "total")
		k := rapid.IntRange(1, 8).Draw(t, "k")
		items = items[:0]
		for i := 0; i < k; i++ {
			l := total / k
			if i == k-1 {
				l = total - (total/k)*(k-1)
			}
			b := make([]byte, l)
			for j := range b {
				b[j] = byte(rapid.IntRange(0, 255).Draw(t, "x"))
			}
			items = append(items, c11Item{B: b})
		}
		return items
	}
	for i := range items {
		switch kind {
		case "all-nil":
			items[i] = c11Item{Nil: true}
		case "all-empty":
			items[i] = c11Item{}
		case "low-card":
			if rapid.IntRange(0, 9).Draw(t, "nil") == 0 {
				items[i] = c11Item{Nil: true}
			} else {
				items[i] = c11Item{B: rapid.SampledFrom(pool).Draw(t, "p")}
			}
		case "high-card": // distinct values: forces the dictionary to overflow beyond 256
			items[i] = c11Item{B: []byte(fmt.Sprintf("v%d-%d", i, rapid.IntRange(0, 3).Draw(t, "s")))}
		case "long":
			l := rapid.SampledFrom([]int{0, 1, 126, 127, 128, 129, 254, 255, 256, 257, 1000, 65534, 65535, 65536, 70000}).Draw(t, "l")
			b := bytes.Repeat([]byte{byte(rapid.IntRange(0, 255).Draw(t, "fill"))}, l)
			if l > 0 && rapid.Bool().Draw(t, "noise") {
				b[l/2] ^= 0x55
			}
			items[i] = c11Item{B: b}
		default:
			switch rapid.IntRange(0, 4).Draw(t, "k") {
			case 0:
				items[i] = c11Item{Nil: true}
			case 1:
				items[i] = c11Item{}
			default:
				items[i] = c11Item{B: verifkit.Bytes(t, "b", 40)}
			}
		}
	}
	_ = maxDistinct
	return items
}

func TestVerifC11BytesBlock(t *testing.T) {
	verifkit.Run(t, verifkit.Spec[c11Bytes]{
		Property: "C11", Unit: "bytes_block",
		Rule: "lists of byte strings (0..1200 items; nil vs empty vs content; low/high cardinality; lengths around the 128-byte plain/zstd switch and " +
			"the 2^8/2^16 width switches) through EncodeBytesBlock/BytesBlockDecoder (Decode and DecodeWithTail, reused decoder), EncodeBytes, and " +
			"uint64 lists through the adaptive-width Uint64Block; non-trivial = >= 2 items with at least one nil or empty, or total payload >= 128 bytes (compressed)",
		Gen: func(t *rapid.T, _ *verifkit.KnownSet) c11Bytes {
			c := c11Bytes{Items: genItems(t, 0)}
			n := genLen(t, "un", 0)
			if n > 1000 {
				n = 1000
			}
			width := rapid.SampledFrom([]uint64{1 << 8, 1 << 16, 1 << 32, math.MaxUint64}).Draw(t, "w")
			for i := 0; i < n; i++ {
				v := rapid.Uint64Range(0, width-1).Draw(t, "u")
				switch rapid.IntRange(0, 31).Draw(t, "edge") {
				case 0:
					v = width - 1
				case 1:
					v = width // first value that needs the next width (wraps to 0 for the 64-bit class)
				case 2:
					v = width + 1
				}
				c.U64 = append(c.U64, v)
			}
			return c
		},
		Check: func(x *verifkit.Ctx, c c11Bytes) error {
			vals := c.values()
			enc := EncodeBytesBlock(nil, vals)
			var dec BytesBlockDecoder
			// decoder reused across two decodes: earlier results must stay valid
			warm, err := dec.Decode(nil, EncodeBytesBlock(nil, [][]byte{[]byte("warm"), nil}), 2)
			if err != nil || len(warm) != 2 || string(warm[0]) != "warm" || warm[1] != nil {
				return verifkit.Failf("warm-up decode: %v %q", err, warm)
			}
			got, err := dec.Decode(nil, enc, uint64(len(vals)))
			if err != nil {
				return verifkit.Failf("Decode(EncodeBytesBlock(%d items)): %v", len(vals), err)
			}
			if len(got) != len(vals) {
				return verifkit.Failf("decoded %d items, encoded %d", len(got), len(vals))
			}
			total, special := 0, false
			for i := range vals {
				if !sameBytes(got[i], vals[i]) {
					return verifkit.Failf("item %d: wrote %q (nil=%v) read %q (nil=%v)", i, vals[i], vals[i] == nil, got[i], got[i] == nil)
				}
				total += len(vals[i])
				if len(vals[i]) == 0 {
					special = true
				}
			}
			if string(warm[0]) != "warm" {
				return verifkit.Failf("earlier result of a reused decoder was overwritten: %q", warm[0])
			}
			tail := []byte{9, 9, 9}
			var dec2 BytesBlockDecoder
			got2, rest, err := dec2.DecodeWithTail(nil, append(append([]byte(nil), enc...), tail...), uint64(len(vals)))
			if err != nil || !bytes.Equal(rest, tail) || len(got2) != len(vals) {
				return verifkit.Failf("DecodeWithTail: err=%v tail=%x n=%d", err, rest, len(got2))
			}
			for i := range vals {
				if !sameBytes(got2[i], vals[i]) {
					return verifkit.Failf("DecodeWithTail item %d differs", i)
				}
			}
			if len(vals) > 0 {
				r, b, err := DecodeBytes(append(EncodeBytes(nil, vals[0]), tail...))
				if err != nil || !bytes.Equal(b, vals[0]) || !bytes.Equal(r, tail) {
					return verifkit.Failf("EncodeBytes/DecodeBytes: %v", err)
				}
			}
			uenc := EncodeUint64Block(nil, c.U64)
			ugot, urest, err := DecodeUint64Block(nil, append(append([]byte(nil), uenc...), tail...), uint64(len(c.U64)))
			if err != nil || !bytes.Equal(urest, tail) || len(ugot) != len(c.U64) {
				return verifkit.Failf("Uint64Block: err=%v rest=%x n=%d want %d", err, urest, len(ugot), len(c.U64))
			}
			for i := range ugot {
				if ugot[i] != c.U64[i] {
					return verifkit.Failf("Uint64Block item %d: %d != %d", i, ugot[i], c.U64[i])
				}
			}
			x.LabelIf(total >= 128, "zstd block")
			x.LabelIf(special, "nil/empty item")
			x.LabelIf(len(c.U64)*8 >= 128, "zstd uint block")
			if (len(vals) >= 2 && special) || total >= 128 {
				x.NonTrivial()
			}
			return nil
		},
		MinLabelFrac: map[string]float64{"zstd block": 0.1, "nil/empty item": 0.2},
	})
}

// ---------------------------------------------------------------- dictionary

func TestVerifC11Dictionary(t *testing.T) {
	verifkit.Run(t, verifkit.Spec[c11Bytes]{
		Property: "C11", Unit: "dictionary",
		Rule: "lists of byte strings (as bytes_block; low cardinality with runs, and > 256 distinct values) added to a Dictionary: either Add refuses " +
			"(dictionary full => caller falls back) or Encode/Decode returns the exact sequence incl. nil vs empty, and DecodeDictionaryValues returns the " +
			"distinct values in first-appearance order; non-trivial = >= 2 distinct values or a run of length >= 2 or refusal",
		Gen: func(t *rapid.T, _ *verifkit.KnownSet) c11Bytes {
			items := genItems(t, 0)
			// lengthen runs: duplicate some neighbours
			if len(items) > 1 && rapid.Bool().Draw(t, "runs") {
				for i := 1; i < len(items); i++ {
					if rapid.IntRange(0, 2).Draw(t, "dup") == 0 {
						items[i] = items[i-1]
					}
				}
			}
			return c11Bytes{Items: items}
		},
		Check: func(x *verifkit.Ctx, c c11Bytes) error {
			vals := c.values()
			d := NewDictionary()
			var distinct [][]byte
			seen := func(v []byte) bool {
				for _, s := range distinct {
					if sameBytes(s, v) {
						return true
					}
				}
				return false
			}
			runs := false
			for i, v := range vals {
				ok := d.Add(v)
				isNew := !seen(v)
				if isNew && len(distinct) == maxUniqueValues {
					if ok {
						return verifkit.Failf("Add accepted distinct value #%d beyond the %d limit", len(distinct)+1, maxUniqueValues)
					}
					x.Label("dictionary full (refused)")
					x.NonTrivial()
					return nil
				}
				if !ok {
					return verifkit.Failf("Add refused value %d with only %d distinct values", i, len(distinct))
				}
				if isNew {
					distinct = append(distinct, v)
				}
				if i > 0 && sameBytes(vals[i-1], v) {
					runs = true
				}
			}
			if len(vals) == 0 {
				return nil
			}
			enc := d.Encode(nil)
			d2 := NewDictionary()
			got, err := d2.Decode(nil, enc, uint64(len(vals)))
			if err != nil {
				return verifkit.Failf("Dictionary.Decode: %v", err)
			}
			if len(got) != len(vals) {
				return verifkit.Failf("decoded %d items, encoded %d", len(got), len(vals))
			}
			for i := range vals {
				if !sameBytes(got[i], vals[i]) {
					return verifkit.Failf("item %d: wrote %q (nil=%v) read %q (nil=%v)", i, vals[i], vals[i] == nil, got[i], got[i] == nil)
				}
			}
			dv, err := DecodeDictionaryValues(enc)
			if err != nil || len(dv) != len(distinct) {
				return verifkit.Failf("DecodeDictionaryValues: err=%v got %d values want %d", err, len(dv), len(distinct))
			}
			for i := range dv {
				if !sameBytes(dv[i], distinct[i]) {
					return verifkit.Failf("DecodeDictionaryValues[%d] = %q want %q", i, dv[i], distinct[i])
				}
			}
			// a reused (Reset) dictionary decodes the same
			d2.Reset()
			got3, err := d2.Decode(nil, enc, uint64(len(vals)))
			if err != nil || len(got3) != len(vals) {
				return verifkit.Failf("decode after Reset: %v", err)
			}
			x.LabelIf(runs, "has run")
			x.LabelIf(len(distinct) >= 2, ">=2 distinct")
			x.LabelIf(len(distinct) > 16, ">16 distinct (index width > 4 bits)")
			if runs || len(distinct) >= 2 {
				x.NonTrivial()
			}
			return nil
		},
		MinLabelFrac: map[string]float64{"dictionary full (refused)": 0.01, "has run": 0.2},
	})
}

// ---------------------------------------------------------------- bad bytes

type c11Bad struct {
	Target string `json:"target"`
	Data   []byte `json:"data"`
	Count  int    `json:"count"`
	Mode   int    `json:"mode"`
	First  int64  `json:"first"`
	How    string `json:"how"`
}

var badTargets = []string{"int_list", "varint_list", "varuint_list", "bytes_block", "bytes_block_tail", "uint64_block", "dictionary", "dictionary_values", "decode_bytes", "decompress"}

func validEncoding(t *rapid.T, target string) ([]byte, int, int, int64) {
	switch target {
	case "int_list":
		c := genIntList(t)
		if len(c.Vals) > 64 {
			c.Vals = c.Vals[:64]
		}
		if len(c.Vals) < 2 {
			c.Vals = append(c.Vals, 5, 9)
		}
		enc, mt, first := Int64ListToBytes(nil, c.Vals)
		return enc, len(c.Vals), int(mt), first
	case "varint_list", "varuint_list":
		n := rapid.IntRange(1, 20).Draw(t, "n")
		vals := make([]int64, n)
		for i := range vals {
			vals[i] = verifkit.Int64(t, "v")
		}
		return VarInt64ListToBytes(nil, vals), n, 0, 0
	case "bytes_block", "bytes_block_tail", "decode_bytes", "decompress":
		items := genItems(t, 0)
		if len(items) > 40 {
			items = items[:40]
		}
		c := c11Bytes{Items: items}
		return EncodeBytesBlock(nil, c.values()), len(items), 0, 0
	case "uint64_block":
		n := rapid.IntRange(0, 40).Draw(t, "n")
		us := make([]uint64, n)
		for i := range us {
			us[i] = rapid.Uint64().Draw(t, "u") >> uint(rapid.IntRange(0, 63).Draw(t, "sh"))
		}
		return EncodeUint64Block(nil, us), n, 0, 0
	default: // dictionary
		items := genItems(t, 0)
		if len(items) > 60 {
			items = items[:60]
		}
		if len(items) == 0 {
			items = []c11Item{{B: []byte("a")}, {B: []byte("b")}, {B: []byte("a")}}
		}
		d := NewDictionary()
		n := 0
		for _, v := range (c11Bytes{Items: items}).values() {
			if !d.Add(v) {
				break
			}
			n++
		}
		return d.Encode(nil), n, 0, 0
	}
}

func mutate(t *rapid.T, b []byte) ([]byte, string) {
	b = append([]byte(nil), b...)
	how := rapid.SampledFrom([]string{"none", "bitflip", "truncate", "byte-set", "insert", "count-off", "duplicate-tail", "random"}).Draw(t, "how")
	switch how {
	case "bitflip":
		for i := 0; i < rapid.IntRange(1, 3).Draw(t, "flips") && len(b) > 0; i++ {
			p := rapid.IntRange(0, len(b)-1).Draw(t, "p")
			b[p] ^= 1 << uint(rapid.IntRange(0, 7).Draw(t, "bit"))
		}
	case "truncate":
		if len(b) > 0 {
			b = b[:rapid.IntRange(0, len(b)-1).Draw(t, "cut")]
		}
	case "byte-set":
		if len(b) > 0 {
			p := rapid.IntRange(0, len(b)-1).Draw(t, "p")
			b[p] = rapid.SampledFrom([]byte{0, 1, 2, 3, 0x7f, 0x80, 0xff, 0xfe, 32, 33, 64, 65}).Draw(t, "v")
		}
	case "insert":
		p := rapid.IntRange(0, len(b)).Draw(t, "p")
		ins := rapid.SliceOfN(rapid.SampledFrom([]byte{0, 1, 0x80, 0xff, 0x7f}), 1, 6).Draw(t, "ins")
		b = append(b[:p], append(ins, b[p:]...)...)
	case "duplicate-tail":
		if len(b) > 0 {
			p := rapid.IntRange(0, len(b)-1).Draw(t, "p")
			b = append(b, b[p:]...)
		}
	case "random":
		b = rapid.SliceOfN(rapid.Byte(), 0, 64).Draw(t, "rnd")
	}
	return b, how
}

// guarded runs fn and reports over-allocation / apparent hangs as violations that end the process
// (a runaway decoder cannot be stopped from outside, so such a case cannot be shrunk).
func decodeBad(c c11Bad) (outItems int, err error) {
	switch c.Target {
	case "int_list":
		var got []int64
		got, err = BytesToInt64List(nil, c.Data, EncodeType(c.Mode), c.First, c.Count)
		return len(got), err
	case "varint_list":
		dst := make([]int64, c.Count)
		_, err = BytesToVarInt64List(dst, c.Data)
		return c.Count, err
	case "varuint_list":
		dst := make([]uint64, c.Count)
		_, err = BytesToVarUint64s(dst, c.Data)
		return c.Count, err
	case "bytes_block":
		var d BytesBlockDecoder
		var got [][]byte
		got, err = d.Decode(nil, c.Data, uint64(c.Count))
		return len(got), err
	case "bytes_block_tail":
		var d BytesBlockDecoder
		var got [][]byte
		got, _, err = d.DecodeWithTail(nil, c.Data, uint64(c.Count))
		return len(got), err
	case "uint64_block":
		var got []uint64
		got, _, err = DecodeUint64Block(nil, c.Data, uint64(c.Count))
		return len(got), err
	case "dictionary":
		var got [][]byte
		got, err = NewDictionary().Decode(nil, c.Data, uint64(c.Count))
		return len(got), err
	case "dictionary_values":
		var got [][]byte
		got, err = DecodeDictionaryValues(c.Data)
		return len(got), err
	case "decode_bytes":
		_, _, err = DecodeBytes(c.Data)
		return 0, err
	case "decompress":
		_, _, err = decompressBlock(nil, c.Data)
		return 0, err
	}
	return 0, fmt.Errorf("unknown target %s", c.Target)
}

// zstdDeclaresHuge reports whether data contains a zstd frame header (magic 28 B5 2F FD) that
// declares a window size or frame content size above limit bytes.
func zstdDeclaresHuge(data []byte, limit uint64) bool {
	magic := []byte{0x28, 0xB5, 0x2F, 0xFD}
	for off := 0; ; {
		i := bytes.Index(data[off:], magic)
		if i < 0 {
			return false
		}
		h := data[off+i+4:]
		off += i + 1
		if len(h) < 1 {
			continue
		}
		fhd := h[0]
		h = h[1:]
		single := fhd&0x20 != 0
		var window uint64
		if !single {
			if len(h) < 1 {
				continue
			}
			wd := h[0]
			h = h[1:]
			base := uint64(1) << (10 + uint(wd>>3))
			window = base + (base/8)*uint64(wd&7)
		}
		switch fhd & 3 {
		case 1:
			h = h[min(1, len(h)):]
		case 2:
			h = h[min(2, len(h)):]
		case 3:
			h = h[min(4, len(h)):]
		}
		var fcs uint64
		switch fhd >> 6 {
		case 0:
			if single && len(h) >= 1 {
				fcs = uint64(h[0])
			}
		case 1:
			if len(h) >= 2 {
				fcs = uint64(h[0]) | uint64(h[1])<<8 + 256
			}
		case 2:
			if len(h) >= 4 {
				fcs = uint64(h[0]) | uint64(h[1])<<8 | uint64(h[2])<<16 | uint64(h[3])<<24
			}
		case 3:
			if len(h) >= 8 {
				for k := 7; k >= 0; k-- {
					fcs = fcs<<8 | uint64(h[k])
				}
			}
		}
		if single {
			window = fcs
		}
		if window > limit || fcs > limit {
			return true
		}
	}
}

func TestVerifC11BadBytes(t *testing.T) {
	verifkit.Run(t, verifkit.Spec[c11Bad]{
		Property: "C11", Unit: "bad_bytes",
		Rule: "for each error-returning decoder (int list x4 modes, varint/varuint lists, bytes block (+tail), uint64 block, dictionary (+values only), " +
			"DecodeBytes, decompressBlock): a valid encoding of generated data mutated by bit flips, truncation, byte substitution, insertion, " +
			"item-count mismatch, duplicated tail, or replaced by random bytes; oracle: returns (value, nil) or (_, err) - a panic, an allocation " +
			"above 256 MiB or a call longer than 20 s is a violation; a decode that reports success returns at most Count items; " +
			"non-trivial = the input is a mutated valid encoding (not 'none'/'random')",
		Known: []verifkit.Known[c11Bad]{{Key: "zstd-declared-size-unbounded", Match: func(c c11Bad) bool { return zstdDeclaresHuge(c.Data, 8<<20) }}},
		Gen: func(t *rapid.T, ks *verifkit.KnownSet) c11Bad {
			target := rapid.SampledFrom(badTargets).Draw(t, "target")
			enc, count, mode, first := validEncoding(t, target)
			data, how := mutate(t, enc)
			if ks.Active("zstd-declared-size-unbounded") && zstdDeclaresHuge(data, 8<<20) {
				ks.Excluded("zstd-declared-size-unbounded")
				data, how = enc, "none"
			}
			c := c11Bad{Target: target, Data: data, Count: count, Mode: mode, First: first, How: how}
			if how == "count-off" {
				c.Count = count + rapid.SampledFrom([]int{-1, 1, 2, 7, 100}).Draw(t, "off")
				if c.Count < 2 {
					c.Count = 2
				}
			}
			if target == "int_list" {
				if c.Count < 2 {
					c.Count = 2 // itemsCount < 2 is a documented programmer error (BUG panic) for the delta modes
				}
				if rapid.IntRange(0, 5).Draw(t, "modeswap") == 0 {
					c.Mode = rapid.IntRange(0, 12).Draw(t, "m")
				}
			}
			return c
		},
		Check: func(x *verifkit.Ctx, c c11Bad) error {
			var n int
			var err error
			if gerr := verifkit.Guarded(256<<20, 20_000, func() { n, err = decodeBad(c) }); gerr != nil {
				return gerr
			}
			if err == nil && c.Target != "dictionary_values" && c.Target != "decode_bytes" && c.Target != "decompress" && n > c.Count {
				return verifkit.Failf("%s: success with %d items for a declared count of %d", c.Target, n, c.Count)
			}
			x.Label("target:" + c.Target)
			x.Label("how:" + c.How)
			x.LabelIf(err != nil, "rejected")
			x.LabelIf(err == nil, "accepted")
			if c.How != "none" && c.How != "random" {
				x.NonTrivial()
			}
			return nil
		},
		MinLabelFrac: map[string]float64{"rejected": 0.2, "accepted": 0.05},
	})
}
