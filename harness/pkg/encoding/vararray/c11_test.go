package vararray

import (
	"bytes"
	"testing"

	"pgregory.net/rapid"

	"github.com/apache/skywalking-banyandb/verifkit"
)

// C11 (var arrays, used for string/int array tags): MarshalVarArray/UnmarshalVarArray round trip
// element by element, and UnmarshalVarArray on corrupted input returns an error or a value.

type c11Arr struct {
	Elems [][]byte `json:"elems"`
	Cut   int      `json:"cut"` // truncate the encoding to this length (<0: no truncation)
}

func TestVerifC11VarArray(t *testing.T) {
	verifkit.Run(t, verifkit.Spec[c11Arr]{
		Property: "C11", Unit: "vararray",
		Rule: "arrays of 0..12 byte strings biased to the delimiter '|' and escape '\\\\' bytes, marshalled element by element and decoded with the " +
			"in-place UnmarshalVarArray iteration contract; additionally the encoding truncated at a generated offset must yield an error or a " +
			"prefix of the elements, never a panic; non-trivial = some element contains '|' or '\\\\'",
		Gen: func(t *rapid.T, _ *verifkit.KnownSet) c11Arr {
			n := rapid.IntRange(0, 12).Draw(t, "n")
			c := c11Arr{Cut: -1}
			for i := 0; i < n; i++ {
				c.Elems = append(c.Elems, verifkit.Bytes(t, "e", 12))
			}
			if rapid.IntRange(0, 2).Draw(t, "trunc") == 0 {
				c.Cut = rapid.IntRange(0, 64).Draw(t, "cut")
			}
			return c
		},
		Check: func(x *verifkit.Ctx, c c11Arr) error {
			var enc []byte
			special := false
			for _, e := range c.Elems {
				enc = MarshalVarArray(enc, e)
				if bytes.IndexByte(e, EntityDelimiter) >= 0 || bytes.IndexByte(e, Escape) >= 0 {
					special = true
				}
			}
			src := append([]byte(nil), enc...)
			truncated := false
			if c.Cut >= 0 && c.Cut < len(src) {
				src = src[:c.Cut]
				truncated = true
			}
			idx, k := 0, 0
			for idx < len(src) {
				end, next, err := UnmarshalVarArray(src, idx)
				if err != nil {
					if !truncated {
						return verifkit.Failf("UnmarshalVarArray failed on a valid encoding at element %d: %v", k, err)
					}
					break
				}
				if end < idx || next <= idx || next > len(src) || end > next {
					return verifkit.Failf("UnmarshalVarArray returned end=%d next=%d for idx=%d len=%d", end, next, idx, len(src))
				}
				if k >= len(c.Elems) {
					return verifkit.Failf("decoded more elements than encoded (%d)", len(c.Elems))
				}
				if !bytes.Equal(src[idx:end], c.Elems[k]) {
					return verifkit.Failf("element %d: wrote %q read %q", k, c.Elems[k], src[idx:end])
				}
				idx = next
				k++
			}
			if !truncated && k != len(c.Elems) {
				return verifkit.Failf("decoded %d elements, encoded %d", k, len(c.Elems))
			}
			x.LabelIf(special, "delimiter/escape in element")
			x.LabelIf(truncated, "truncated")
			if special {
				x.NonTrivial()
			}
			return nil
		},
		MinLabelFrac: map[string]float64{"delimiter/escape in element": 0.2, "truncated": 0.05},
	})
}
