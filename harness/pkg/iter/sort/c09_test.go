package sort

import (
	"bytes"
	"encoding/binary"
	stdsort "sort"
	"testing"

	"pgregory.net/rapid"

	"github.com/apache/skywalking-banyandb/verifkit"
)

// C09 (merge iterator): merging k sorted iterators yields a globally sorted stream that is a
// permutation of the inputs (nothing dropped, duplicated or invented), ascending or descending.

type c09Item struct {
	key []byte
	id  int
}

func (i c09Item) SortedField() []byte { return i.key }

type c09Iter struct {
	items []c09Item
	pos   int
}

func (it *c09Iter) Next() bool   { it.pos++; return it.pos <= len(it.items) }
func (it *c09Iter) Val() c09Item { return it.items[it.pos-1] }
func (it *c09Iter) Close() error { return nil }

type c09Case struct {
	Lists [][]int64 `json:"lists"` // keys per input iterator (sorted by the harness in the requested direction)
	Desc  bool      `json:"desc"`
}

func key(v int64) []byte {
	b := make([]byte, 8)
	binary.BigEndian.PutUint64(b, uint64(v)^(1<<63))
	return b
}

func TestVerifC09MergeIter(t *testing.T) {
	verifkit.Run(t, verifkit.Spec[c09Case]{
		Property: "C09", Unit: "merge_iter",
		Rule: "0..6 input iterators of 0..12 keys from a small range (many duplicates within and across iterators), each pre-sorted in the requested " +
			"direction; oracle: output non-decreasing (asc) / non-increasing (desc) in bytes.Compare order and equal, as a multiset of (key, origin), to " +
			"the inputs; non-trivial = >= 2 non-empty iterators with a key shared between two of them",
		Gen: func(t *rapid.T, _ *verifkit.KnownSet) c09Case {
			c := c09Case{Desc: rapid.Bool().Draw(t, "desc")}
			for i := 0; i < rapid.IntRange(0, 6).Draw(t, "k"); i++ {
				c.Lists = append(c.Lists, rapid.SliceOfN(rapid.Int64Range(-4, 8), 0, 12).Draw(t, "list"))
			}
			return c
		},
		Check: func(x *verifkit.Ctx, c c09Case) error {
			var iters []Iterator[c09Item]
			want := map[[2]int64]int{}
			id := 0
			nonEmpty := 0
			seenKey := map[int64]int{}
			shared := false
			for li, l := range c.Lists {
				l = append([]int64(nil), l...)
				stdsort.Slice(l, func(i, j int) bool {
					if c.Desc {
						return l[i] > l[j]
					}
					return l[i] < l[j]
				})
				it := &c09Iter{}
				for _, v := range l {
					it.items = append(it.items, c09Item{key: key(v), id: id})
					want[[2]int64{v, int64(id)}]++
					id++
					if o, ok := seenKey[v]; ok && o != li {
						shared = true
					}
					seenKey[v] = li
				}
				if len(l) > 0 {
					nonEmpty++
				}
				iters = append(iters, it)
			}
			m := NewItemIter(iters, c.Desc)
			var prev []byte
			n := 0
			for m.Next() {
				v := m.Val()
				if prev != nil {
					cmp := bytes.Compare(prev, v.key)
					if (!c.Desc && cmp > 0) || (c.Desc && cmp < 0) {
						return verifkit.Failf("output not sorted (desc=%v): %x then %x", c.Desc, prev, v.key)
					}
				}
				prev = v.key
				k := [2]int64{int64(binary.BigEndian.Uint64(v.key) ^ (1 << 63)), int64(v.id)}
				if want[k] == 0 {
					return verifkit.Failf("output contains an item that is not in the inputs, or twice: key %d id %d", k[0], k[1])
				}
				want[k]--
				n++
			}
			if n != id {
				return verifkit.Failf("merged %d items, inputs hold %d", n, id)
			}
			if err := m.Close(); err != nil {
				return err
			}
			x.LabelIf(c.Desc, "desc")
			x.LabelIf(shared, "key shared across iterators")
			if nonEmpty >= 2 && shared {
				x.NonTrivial()
			}
			return nil
		},
	})
}
