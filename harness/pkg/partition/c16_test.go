package partition

import (
	"fmt"
	"testing"

	"pgregory.net/rapid"

	databasev1 "github.com/apache/skywalking-banyandb/api/proto/banyandb/database/v1"
	modelv1 "github.com/apache/skywalking-banyandb/api/proto/banyandb/model/v1"
	"github.com/apache/skywalking-banyandb/verifkit"
)

// C16 (shard routing): the shard of a write is a pure function of resource name, entity (or
// sharding-key) values and the shard count, always within range.

type c16Val struct {
	K string `json:"k"` // null | str | int | bin
	S string `json:"s,omitempty"`
	I int64  `json:"i,omitempty"`
	B []byte `json:"b,omitempty"`
}

type c16Route struct {
	Subject  string   `json:"subject"`
	Tags     []c16Val `json:"tags"`      // one family, in schema order
	Entity   []int    `json:"entity"`    // indexes of the entity tags (order matters)
	Sharding []int    `json:"sharding"`  // optional sharding key tag indexes
	ShardNum uint32   `json:"shard_num"` // >= 1
	Noise    []c16Val `json:"noise"`     // replacement values for the non-entity tags
	TraceID  string   `json:"trace_id"`
}

func (v c16Val) tv() *modelv1.TagValue {
	switch v.K {
	case "str":
		return &modelv1.TagValue{Value: &modelv1.TagValue_Str{Str: &modelv1.Str{Value: v.S}}}
	case "int":
		return &modelv1.TagValue{Value: &modelv1.TagValue_Int{Int: &modelv1.Int{Value: v.I}}}
	case "bin":
		return &modelv1.TagValue{Value: &modelv1.TagValue_BinaryData{BinaryData: v.B}}
	}
	return &modelv1.TagValue{Value: &modelv1.TagValue_Null{}}
}

func genVal(t *rapid.T, label string) c16Val {
	switch rapid.IntRange(0, 6).Draw(t, label+"/k") {
	case 0:
		return c16Val{K: "null"}
	case 1, 2, 3:
		return c16Val{K: "str", S: verifkit.String(t, label)}
	case 4, 5:
		return c16Val{K: "int", I: verifkit.Int64(t, label)}
	default:
		return c16Val{K: "bin", B: verifkit.Bytes(t, label, 6)}
	}
}

func (c c16Route) schema() ([]*databasev1.TagFamilySpec, *databasev1.Entity, *databasev1.ShardingKey) {
	fam := &databasev1.TagFamilySpec{Name: "default"}
	for i := range c.Tags {
		fam.Tags = append(fam.Tags, &databasev1.TagSpec{Name: fmt.Sprintf("t%d", i), Type: databasev1.TagType_TAG_TYPE_STRING})
	}
	ent := &databasev1.Entity{}
	for _, i := range c.Entity {
		ent.TagNames = append(ent.TagNames, fmt.Sprintf("t%d", i))
	}
	var sk *databasev1.ShardingKey
	if len(c.Sharding) > 0 {
		sk = &databasev1.ShardingKey{}
		for _, i := range c.Sharding {
			sk.TagNames = append(sk.TagNames, fmt.Sprintf("t%d", i))
		}
	}
	return []*databasev1.TagFamilySpec{fam}, ent, sk
}

func (c c16Route) write(vals []c16Val) []*modelv1.TagFamilyForWrite {
	f := &modelv1.TagFamilyForWrite{}
	for _, v := range vals {
		f.Tags = append(f.Tags, v.tv())
	}
	return []*modelv1.TagFamilyForWrite{f}
}

func TestVerifC16Route(t *testing.T) {
	verifkit.Run(t, verifkit.Spec[c16Route]{
		Property: "C16", Unit: "route",
		Rule: "a resource name, 1..6 tag values (null/str/int/binary, delimiter-biased), an entity = ordered non-empty subset of the tags, an optional " +
			"sharding key, a shard count 1..64 (or 2^32-1) and replacement values for the non-key tags; oracle: shard < count; equal across repeated calls " +
			"and independently constructed locators; unchanged when only non-key tags change and when a rejected (truncated) element was located in between; ApplyLocators uses the sharding key when present; " +
			"TraceShardID in range and stable; non-trivial = shard count > 1 and >= 2 key tags or a key value with a delimiter/escape byte",
		Gen: func(t *rapid.T, _ *verifkit.KnownSet) c16Route {
			n := rapid.IntRange(1, 6).Draw(t, "n")
			c := c16Route{Subject: verifkit.String(t, "subject"), TraceID: verifkit.String(t, "trace")}
			for i := 0; i < n; i++ {
				c.Tags = append(c.Tags, genVal(t, "tag"))
				c.Noise = append(c.Noise, genVal(t, "noise"))
			}
			k := rapid.IntRange(1, n).Draw(t, "k")
			c.Entity = rapid.Permutation(seq(n)).Draw(t, "perm")[:k]
			if rapid.Bool().Draw(t, "sk") {
				k2 := rapid.IntRange(1, n).Draw(t, "k2")
				c.Sharding = rapid.Permutation(seq(n)).Draw(t, "perm2")[:k2]
			}
			c.ShardNum = uint32(rapid.SampledFrom([]int{1, 2, 3, 4, 5, 7, 8, 16, 31, 64, 1 << 31, 1<<32 - 1}).Draw(t, "shards"))
			return c
		},
		Check: func(x *verifkit.Ctx, c c16Route) error {
			fams, ent, sk := c.schema()
			l1 := NewEntityLocator(fams, ent, 1)
			l2 := NewEntityLocator(fams, ent, 99)
			ev1, s1, err := l1.Locate(c.Subject, c.write(c.Tags), c.ShardNum)
			if err != nil {
				return verifkit.Failf("Locate failed: %v", err)
			}
			if uint32(s1) >= c.ShardNum {
				return verifkit.Failf("shard %d out of range for %d shards", s1, c.ShardNum)
			}
			if len(ev1) != len(c.Entity)+1 {
				return verifkit.Failf("entity has %d values, want %d", len(ev1), len(c.Entity)+1)
			}
			_, s2, err := l2.Locate(c.Subject, c.write(c.Tags), c.ShardNum)
			if err != nil || s2 != s1 {
				return verifkit.Failf("independently constructed locator routes to shard %d, first one to %d (%v)", s2, s1, err)
			}
			_, s3, _ := l1.Locate(c.Subject, c.write(c.Tags), c.ShardNum)
			if s3 != s1 {
				return verifkit.Failf("second call routes to shard %d, first to %d", s3, s1)
			}
			// changing only non-entity tags must not move the series
			mixed := append([]c16Val(nil), c.Noise...)
			for _, i := range c.Entity {
				mixed[i] = c.Tags[i]
			}
			_, s4, err := l1.Locate(c.Subject, c.write(mixed), c.ShardNum)
			if err != nil || s4 != s1 {
				return verifkit.Failf("changing only non-entity tags moved the series from shard %d to %d (%v)", s1, s4, err)
			}
			// a rejected (malformed) element in between must not change where the next valid one goes: the shard is a function of
			// the subject, the entity values and the shard count, not of what the locator saw before
			maxIdx := 0
			for _, i := range c.Entity {
				maxIdx = max(maxIdx, i)
			}
			rejected := false
			for _, cut := range []int{maxIdx, 0} {
				if _, _, merr := l1.Locate(c.Subject, c.write(c.Tags[:cut]), c.ShardNum); merr != nil {
					rejected = true
				}
				_, s5, err := l1.Locate(c.Subject, c.write(c.Tags), c.ShardNum)
				if err != nil || s5 != s1 {
					return verifkit.Failf("after a rejected element (only the first %d of %d tags sent) the same locator routes the series to shard %d, before to %d (%v)", cut, len(c.Tags), s5, s1, err)
				}
				if sk != nil {
					skl := NewShardingKeyLocator(fams, sk)
					_, w1, e1 := skl.Locate(c.Subject, c.write(c.Tags), c.ShardNum)
					_, _, _ = skl.Locate(c.Subject, c.write(c.Tags[:cut]), c.ShardNum)
					_, w2, e2 := skl.Locate(c.Subject, c.write(c.Tags), c.ShardNum)
					if e1 != nil || e2 != nil || w1 != w2 {
						return verifkit.Failf("after a rejected element the sharding-key locator routes the series to shard %d, before to %d (%v / %v)", w2, w1, e1, e2)
					}
				}
			}
			x.LabelIf(rejected, "rejected element before a valid one")
			var skRouter Router
			if sk != nil {
				skl := NewShardingKeyLocator(fams, sk)
				skRouter = skl
				_, want, err := skl.Locate(c.Subject, c.write(c.Tags), c.ShardNum)
				if err != nil || uint32(want) >= c.ShardNum {
					return verifkit.Failf("sharding-key locate: shard %d err %v", want, err)
				}
				evA, got, err := ApplyLocators(c.Subject, c.write(c.Tags), l1, skRouter, c.ShardNum)
				if err != nil || got != want || len(evA) != len(ev1) {
					return verifkit.Failf("ApplyLocators with a sharding key gave shard %d, sharding-key shard is %d (%v)", got, want, err)
				}
			} else {
				_, got, err := ApplyLocators(c.Subject, c.write(c.Tags), l1, nil, c.ShardNum)
				if err != nil || got != s1 {
					return verifkit.Failf("ApplyLocators without sharding key gave shard %d, entity shard is %d (%v)", got, s1, err)
				}
			}
			ts := TraceShardID(c.TraceID, c.ShardNum)
			if uint32(ts) >= c.ShardNum || ts != TraceShardID(c.TraceID, c.ShardNum) {
				return verifkit.Failf("TraceShardID(%q,%d) = %d", c.TraceID, c.ShardNum, ts)
			}
			if TraceShardID(c.TraceID, 0) != 0 {
				return verifkit.Failf("TraceShardID with 0 shards must be 0")
			}
			if _, err := ShardID([]byte(c.Subject), 0); err == nil {
				return verifkit.Failf("ShardID accepted 0 shards")
			}
			delim := false
			for _, i := range c.Entity {
				v := c.Tags[i]
				for _, b := range append([]byte(v.S), v.B...) {
					if b == '|' || b == '\\' {
						delim = true
					}
				}
			}
			x.LabelIf(delim, "delimiter in key value")
			x.LabelIf(sk != nil, "sharding key")
			if c.ShardNum > 1 && (len(c.Entity) >= 2 || delim) {
				x.NonTrivial()
			}
			return nil
		},
	})
}

func seq(n int) []int {
	s := make([]int, n)
	for i := range s {
		s[i] = i
	}
	return s
}
