package filter

import (
	"fmt"
	"testing"

	"pgregory.net/rapid"

	"github.com/apache/skywalking-banyandb/pkg/convert"
	"github.com/apache/skywalking-banyandb/pkg/encoding"
	pbv1 "github.com/apache/skywalking-banyandb/pkg/pb/v1"
	"github.com/apache/skywalking-banyandb/verifkit"
)

// C08 (pruning structures): a bloom filter or dictionary filter built from a block's values never
// reports a stored value as absent (no false negatives), so it can never prune a matching row.

type c08Filter struct {
	Kind   string     `json:"kind"` // bloom | dict | dict-strarr | dict-intarr
	N      int        `json:"n"`    // bloom capacity
	Items  [][]byte   `json:"items,omitempty"`
	Arrays [][][]byte `json:"arrays,omitempty"` // per stored value: its elements
	IntArr [][]int64  `json:"int_arr,omitempty"`
	Probes [][]int    `json:"probes,omitempty"` // lookups: (array index, element indexes...) repeated on the same filter
}

func TestVerifC08Filters(t *testing.T) {
	verifkit.Run(t, verifkit.Spec[c08Filter]{
		Property: "C08", Unit: "filters",
		Rule: "a bloom filter (capacity 0..9000, 0..300 items incl. empty and duplicate items) or a dictionary filter over scalar values, string arrays " +
			"(elements biased to the delimiter/escape bytes) or int arrays, followed by repeated lookups on the same filter instance; oracle: every stored item " +
			"is reported as possibly present (MightContain / ContainsAll of any subset of one stored array), on the first and on every later lookup; " +
			"non-trivial = >= 2 stored values and >= 2 lookups",
		Gen: func(t *rapid.T, _ *verifkit.KnownSet) c08Filter {
			c := c08Filter{Kind: rapid.SampledFrom([]string{"bloom", "dict", "dict-strarr", "dict-strarr", "dict-intarr"}).Draw(t, "kind")}
			switch c.Kind {
			case "bloom", "dict":
				c.N = rapid.SampledFrom([]int{0, 1, 3, 4, 5, 64, 256, 8192, 9000}).Draw(t, "cap")
				for i := 0; i < rapid.IntRange(0, 300).Draw(t, "n"); i++ {
					c.Items = append(c.Items, verifkit.Bytes(t, "item", 12))
				}
			case "dict-strarr":
				for i := 0; i < rapid.IntRange(1, 6).Draw(t, "vals"); i++ {
					var arr [][]byte
					for j := 0; j < rapid.IntRange(1, 5).Draw(t, "elems"); j++ {
						arr = append(arr, []byte(rapid.SampledFrom([]string{"a", "b", "a|b", "x\\y", "|", "\\", "é", "svc", "a\\|b", "long-element-value"}).Draw(t, "e")))
					}
					c.Arrays = append(c.Arrays, arr)
				}
			default:
				for i := 0; i < rapid.IntRange(1, 6).Draw(t, "vals"); i++ {
					c.IntArr = append(c.IntArr, rapid.SliceOfN(rapid.Int64Range(-3, 300), 1, 5).Draw(t, "ia"))
				}
			}
			n := max(len(c.Arrays), len(c.IntArr))
			for i := 0; n > 0 && i < rapid.IntRange(1, 6).Draw(t, "probes"); i++ {
				ai := rapid.IntRange(0, n-1).Draw(t, "ai")
				ln := 0
				if len(c.Arrays) > 0 {
					ln = len(c.Arrays[ai])
				} else {
					ln = len(c.IntArr[ai])
				}
				p := []int{ai}
				for j := 0; j < rapid.IntRange(1, ln).Draw(t, "k"); j++ {
					p = append(p, rapid.IntRange(0, ln-1).Draw(t, "ei"))
				}
				c.Probes = append(c.Probes, p)
			}
			return c
		},
		Check: func(x *verifkit.Ctx, c c08Filter) error {
			x.Label("kind:" + c.Kind)
			switch c.Kind {
			case "bloom":
				bf := NewBloomFilter(c.N)
				for _, it := range c.Items {
					bf.Add(it)
				}
				for round := 0; round < 2; round++ {
					for i, it := range c.Items {
						if !bf.MightContain(it) {
							return verifkit.Failf("bloom filter (capacity %d, %d items) reports stored item %d (%x) as absent", c.N, len(c.Items), i, it)
						}
					}
					if !bf.ContainsAll(c.Items) {
						return verifkit.Failf("bloom ContainsAll(all stored items) is false")
					}
				}
				if len(c.Items) >= 2 {
					x.NonTrivial()
				}
			case "dict":
				df := &DictionaryFilter{}
				df.Set(c.Items, pbv1.ValueTypeStr)
				for round := 0; round < 2; round++ {
					for i, it := range c.Items {
						if !df.MightContain(it) {
							return verifkit.Failf("dictionary filter reports stored value %d (%x) as absent", i, it)
						}
					}
					if len(c.Items) > 0 && !df.ContainsAll(c.Items[:1+len(c.Items)/2]) {
						return verifkit.Failf("dictionary ContainsAll(subset of stored values) is false")
					}
				}
				if len(c.Items) >= 2 {
					x.NonTrivial()
				}
			case "dict-strarr", "dict-intarr":
				var vals [][]byte
				vt := pbv1.ValueTypeStrArr
				if c.Kind == "dict-strarr" {
					for _, arr := range c.Arrays {
						var b []byte
						for _, e := range arr {
							b = encoding.MarshalVarArray(b, e)
						}
						vals = append(vals, b)
					}
				} else {
					vt = pbv1.ValueTypeInt64Arr
					for _, arr := range c.IntArr {
						var b []byte
						for _, e := range arr {
							b = append(b, convert.Int64ToBytes(e)...)
						}
						vals = append(vals, b)
					}
				}
				df := &DictionaryFilter{}
				df.Set(vals, vt)
				for pi, p := range c.Probes {
					var q [][]byte
					for _, ei := range p[1:] {
						if c.Kind == "dict-strarr" {
							q = append(q, c.Arrays[p[0]][ei])
						} else {
							q = append(q, convert.Int64ToBytes(c.IntArr[p[0]][ei]))
						}
					}
					if !df.ContainsAll(q) {
						return verifkit.Failf("lookup %d on the same dictionary filter: elements %q of stored array %d are reported as absent (a block holding a matching row would be pruned)",
							pi, fmt.Sprint(q), p[0])
					}
				}
				if len(vals) >= 2 && len(c.Probes) >= 2 {
					x.NonTrivial()
				}
			}
			return nil
		},
	})
}
