package fs

import (
	"fmt"
	"os"
	"path/filepath"
	"sort"
	"strings"
	"testing"

	"pgregory.net/rapid"

	"github.com/apache/skywalking-banyandb/verifkit"
)

// C19 (copy primitive): CreateHardLink with a filter, the primitive behind the snapshot of an
// idle-closed segment, copies exactly the files the filter accepts and whose ancestor directories
// the filter accepts - wherever the rejected entries sort among their siblings.

type hlEntry struct {
	Path string `json:"path"` // relative, '/' separated
	Dir  bool   `json:"dir,omitempty"`
}

type hlCase struct {
	Entries []hlEntry `json:"entries"`
	// the filter rejects a path when its base name has one of these suffixes or equals one of these names
	RejectSuffix []string `json:"reject_suffix"`
	RejectName   []string `json:"reject_name"`
	NilFilter    bool     `json:"nil_filter,omitempty"`
}

func (c hlCase) rejected(base string) bool {
	if c.NilFilter {
		return false
	}
	for _, s := range c.RejectSuffix {
		if strings.HasSuffix(base, s) {
			return true
		}
	}
	for _, n := range c.RejectName {
		if base == n {
			return true
		}
	}
	return false
}

func hlTree(root string) (map[string]string, error) {
	out := map[string]string{}
	err := filepath.Walk(root, func(p string, info os.FileInfo, err error) error {
		if err != nil {
			return err
		}
		rel, _ := filepath.Rel(root, p)
		if rel == "." {
			return nil
		}
		if info.IsDir() {
			out[rel+"/"] = ""
			return nil
		}
		b, rerr := os.ReadFile(p)
		if rerr != nil {
			return rerr
		}
		out[rel] = string(b)
		return nil
	})
	return out, err
}

func TestVerifC19HardLink(t *testing.T) {
	names := []string{"0000000000000010", "0000000000000011", "000000000000000f.snp.tmp", "0000000000000012.snp", "idx", "sidx", "meta.bin", "primary.bin",
		"data.log", "bluge.pid", "failed-parts", "a.tmp", "zz.tmp", "metadata", "shard-0", "shard-1", "seg-1.seg", "external-segment-temp", "m"}
	verifkit.Run(t, verifkit.Spec[hlCase]{
		Property: "C19", Unit: "hardlink_filter",
		Rule: "a generated directory tree (1..25 entries up to 4 levels deep, names from the engines' shard layout: part directories, *.snp manifests, *.snp.tmp and " +
			"*.tmp leftovers, idx / sidx directories, lock files, failed-parts) copied by localFileSystem.CreateHardLink with a filter rejecting generated " +
			"suffixes and names (or no filter); oracle: the destination holds exactly the accepted files under accepted directories with identical content, and " +
			"every accepted directory; non-trivial = a rejected entry sorts before an accepted sibling",
		Gen: func(t *rapid.T, _ *verifkit.KnownSet) hlCase {
			c := hlCase{NilFilter: rapid.IntRange(0, 5).Draw(t, "nil") == 0}
			c.RejectSuffix = rapid.SliceOfNDistinct(rapid.SampledFrom([]string{".tmp", ".tmp", ".pid", ".snp", ".log"}), 1, 2, rapid.ID[string]).Draw(t, "suffixes")
			c.RejectName = rapid.SliceOfNDistinct(rapid.SampledFrom([]string{"failed-parts", "external-segment-temp", "bluge.pid", "idx", "m"}), 0, 2, rapid.ID[string]).Draw(t, "rnames")
			dirs := []string{""}
			seen := map[string]bool{}
			n := rapid.IntRange(1, 25).Draw(t, "n")
			for i := 0; i < n; i++ {
				parent := rapid.SampledFrom(dirs).Draw(t, "parent")
				name := rapid.SampledFrom(names).Draw(t, "name")
				p := name
				if parent != "" {
					p = parent + "/" + name
				}
				if seen[p] {
					continue
				}
				seen[p] = true
				isDir := strings.Count(p, "/") < 3 && !strings.Contains(name, ".") && rapid.Bool().Draw(t, "isdir")
				if name == "failed-parts" || name == "idx" || name == "sidx" || strings.HasPrefix(name, "shard-") {
					isDir = strings.Count(p, "/") < 3
				}
				c.Entries = append(c.Entries, hlEntry{Path: p, Dir: isDir})
				if isDir {
					dirs = append(dirs, p)
				}
			}
			return c
		},
		Check: func(x *verifkit.Ctx, c hlCase) error {
			tmp, err := os.MkdirTemp("", "verif-hl-")
			if err != nil {
				return err
			}
			defer os.RemoveAll(tmp)
			src, dst := filepath.Join(tmp, "src"), filepath.Join(tmp, "dst")
			if err := os.MkdirAll(src, 0o755); err != nil {
				return err
			}
			want := map[string]string{}
			isDir := map[string]bool{}
			for _, e := range c.Entries {
				isDir[e.Path] = e.Dir
			}
			accepted := func(p string) bool {
				parts := strings.Split(p, "/")
				for _, b := range parts {
					if c.rejected(b) {
						return false
					}
				}
				return true
			}
			for i, e := range c.Entries {
				full := filepath.Join(src, filepath.FromSlash(e.Path))
				if e.Dir {
					if err := os.MkdirAll(full, 0o755); err != nil {
						return err
					}
					if accepted(e.Path) {
						want[e.Path+"/"] = ""
					}
					continue
				}
				content := fmt.Sprintf("content-%d-%s", i, e.Path)
				if err := os.WriteFile(full, []byte(content), 0o600); err != nil {
					return err
				}
				if accepted(e.Path) {
					want[e.Path] = content
				}
			}
			var filter func(string) bool
			if !c.NilFilter {
				filter = func(p string) bool { return !c.rejected(filepath.Base(p)) }
			}
			if err := NewLocalFileSystem().CreateHardLink(src, dst, filter); err != nil {
				return verifkit.Failf("CreateHardLink failed: %v", err)
			}
			got, err := hlTree(dst)
			if err != nil {
				return err
			}
			var missing, extra, differ []string
			for p, v := range want {
				g, ok := got[filepath.FromSlash(p)]
				if !ok {
					missing = append(missing, p)
				} else if g != v {
					differ = append(differ, p)
				}
			}
			for p := range got {
				if _, ok := want[filepath.ToSlash(p)]; !ok {
					extra = append(extra, p)
				}
			}
			sort.Strings(missing)
			sort.Strings(extra)
			if len(missing)+len(extra)+len(differ) > 0 {
				return verifkit.Failf("the copy differs from the accepted part of the source: missing %v, unexpected %v, different content %v", missing, extra, differ)
			}
			// a rejected entry that sorts before an accepted sibling
			early := false
			byParent := map[string][]hlEntry{}
			for _, e := range c.Entries {
				byParent[filepath.Dir(e.Path)] = append(byParent[filepath.Dir(e.Path)], e)
			}
			for _, sib := range byParent {
				for _, a := range sib {
					for _, b := range sib {
						if c.rejected(filepath.Base(a.Path)) && !c.rejected(filepath.Base(b.Path)) && filepath.Base(a.Path) < filepath.Base(b.Path) && accepted(filepath.Dir(a.Path)+"/x") {
							early = true
							x.LabelIf(!a.Dir, "rejected file before an accepted sibling")
							x.LabelIf(a.Dir, "rejected directory before an accepted sibling")
						}
					}
				}
			}
			x.LabelIf(c.NilFilter, "no filter")
			if early {
				x.NonTrivial()
			}
			return nil
		},
		MinLabelFrac: map[string]float64{"rejected file before an accepted sibling": 0.15, "rejected directory before an accepted sibling": 0.05},
	})
}
