package bydbql

import (
	"context"
	"fmt"
	"strconv"
	"strings"
	"testing"
	"time"

	"google.golang.org/protobuf/proto"
	"google.golang.org/protobuf/reflect/protoreflect"
	"google.golang.org/protobuf/types/known/timestamppb"
	"pgregory.net/rapid"

	commonv1 "github.com/apache/skywalking-banyandb/api/proto/banyandb/common/v1"
	databasev1 "github.com/apache/skywalking-banyandb/api/proto/banyandb/database/v1"
	modelv1 "github.com/apache/skywalking-banyandb/api/proto/banyandb/model/v1"
	"github.com/apache/skywalking-banyandb/banyand/metadata"
	"github.com/apache/skywalking-banyandb/banyand/metadata/schema"
	"github.com/apache/skywalking-banyandb/verifkit"
)

// C20: a statement with positional parameters produces exactly the request the same statement
// produces with the values written as quoted literals, through the one-shot binder and the
// prepared-statement path; a value never changes the shape of the request; bad parameter sets
// are rejected; a prepared statement never leaks values between executions.

// ---------------------------------------------------------------- fake schema registry

type c20Repo struct{ metadata.Repo }

type c20Stream struct{ schema.Stream }
type c20Measure struct{ schema.Measure }
type c20Trace struct{ schema.Trace }
type c20Property struct{ schema.Property }
type c20TopN struct{ schema.TopNAggregation }

func c20Tags() []*databasev1.TagSpec {
	return []*databasev1.TagSpec{
		{Name: "s1", Type: databasev1.TagType_TAG_TYPE_STRING}, {Name: "s2", Type: databasev1.TagType_TAG_TYPE_STRING},
		{Name: "i1", Type: databasev1.TagType_TAG_TYPE_INT}, {Name: "i2", Type: databasev1.TagType_TAG_TYPE_INT},
		{Name: "sa", Type: databasev1.TagType_TAG_TYPE_STRING_ARRAY}, {Name: "ia", Type: databasev1.TagType_TAG_TYPE_INT_ARRAY},
	}
}

func (c20Stream) GetStream(_ context.Context, md *commonv1.Metadata) (*databasev1.Stream, error) {
	return &databasev1.Stream{Metadata: md, TagFamilies: []*databasev1.TagFamilySpec{{Name: "searchable", Tags: c20Tags()}},
		Entity: &databasev1.Entity{TagNames: []string{"s1"}}}, nil
}

func (c20Measure) GetMeasure(_ context.Context, md *commonv1.Metadata) (*databasev1.Measure, error) {
	return &databasev1.Measure{Metadata: md, TagFamilies: []*databasev1.TagFamilySpec{{Name: "default", Tags: c20Tags()}},
		Fields: []*databasev1.FieldSpec{{Name: "value", FieldType: databasev1.FieldType_FIELD_TYPE_INT}, {Name: "f2", FieldType: databasev1.FieldType_FIELD_TYPE_FLOAT}},
		Entity: &databasev1.Entity{TagNames: []string{"s1"}}}, nil
}

func (c20Trace) GetTrace(_ context.Context, md *commonv1.Metadata) (*databasev1.Trace, error) {
	tr := &databasev1.Trace{Metadata: md, TraceIdTagName: "trace_id", TimestampTagName: "ts", SpanIdTagName: "span_id"}
	for _, t := range c20Tags() {
		tr.Tags = append(tr.Tags, &databasev1.TraceTagSpec{Name: t.Name, Type: t.Type})
	}
	tr.Tags = append(tr.Tags, &databasev1.TraceTagSpec{Name: "trace_id", Type: databasev1.TagType_TAG_TYPE_STRING},
		&databasev1.TraceTagSpec{Name: "span_id", Type: databasev1.TagType_TAG_TYPE_STRING},
		&databasev1.TraceTagSpec{Name: "ts", Type: databasev1.TagType_TAG_TYPE_TIMESTAMP})
	return tr, nil
}

func (c20Property) GetProperty(_ context.Context, md *commonv1.Metadata) (*databasev1.Property, error) {
	return &databasev1.Property{Metadata: md, Tags: c20Tags()}, nil
}

func (c20TopN) GetTopNAggregation(_ context.Context, md *commonv1.Metadata) (*databasev1.TopNAggregation, error) {
	return &databasev1.TopNAggregation{Metadata: md, SourceMeasure: &commonv1.Metadata{Name: "m", Group: md.GetGroup()}, FieldName: "value",
		FieldValueSort: modelv1.Sort_SORT_DESC, GroupByTagNames: []string{"s1", "s2"}}, nil
}

func (c20Repo) StreamRegistry() schema.Stream                   { return c20Stream{} }
func (c20Repo) MeasureRegistry() schema.Measure                 { return c20Measure{} }
func (c20Repo) TraceRegistry() schema.Trace                     { return c20Trace{} }
func (c20Repo) PropertyRegistry() schema.Property               { return c20Property{} }
func (c20Repo) TopNAggregationRegistry() schema.TopNAggregation { return c20TopN{} }

// ---------------------------------------------------------------- statements

type qVal struct {
	Param bool     `json:"param,omitempty"`
	K     string   `json:"k"` // str | int | null | strarr | intarr | ts | bin
	S     string   `json:"s,omitempty"`
	I     int64    `json:"i,omitempty"`
	SA    []string `json:"sa,omitempty"`
	IA    []int64  `json:"ia,omitempty"`
	Ms    int      `json:"ms,omitempty"` // millisecond part of a time value
}

func (v qVal) instant() time.Time { return time.Unix(v.I, int64(v.Ms)*int64(time.Millisecond)) }

type qCond struct {
	Conn string `json:"conn,omitempty"` // AND | OR (before this condition)
	Tag  string `json:"tag"`
	Op   string `json:"op"` // = != > >= < <= IN NOT IN HAVING NOT HAVING MATCH
	Vals []qVal `json:"vals"`
}

type qCount struct {
	Param bool  `json:"param,omitempty"`
	V     int64 `json:"v"`
}

type qCase struct {
	Kind   string  `json:"kind"` // stream | measure | trace | property | topn | measure-top
	TimeOp string  `json:"time_op,omitempty"`
	TimeA  *qVal   `json:"time_a,omitempty"`
	TimeB  *qVal   `json:"time_b,omitempty"`
	Where  []qCond `json:"where,omitempty"`
	Limit  *qCount `json:"limit,omitempty"`
	Offset *qCount `json:"offset,omitempty"`
	Top    *qCount `json:"top,omitempty"`
	// SecondBind: a second parameter vector (same shapes) bound to the same prepared statement
	Second []qVal `json:"second,omitempty"`
	// Mutate: parameter-set fault: "" | drop | extra | nil
	Fault string `json:"fault,omitempty"`
}

func quote(s string) string { return strconv.Quote(s) }

func (v qVal) literal(listPos bool) (string, bool) {
	switch v.K {
	case "str":
		return quote(v.S), true
	case "int":
		return strconv.FormatInt(v.I, 10), true
	case "null":
		return "NULL", true
	case "ts":
		return quote(v.instant().UTC().Format(time.RFC3339Nano)), true
	case "strarr":
		if !listPos || len(v.SA) == 0 {
			return "", false
		}
		var p []string
		for _, s := range v.SA {
			p = append(p, quote(s))
		}
		return strings.Join(p, ", "), true
	case "intarr":
		if !listPos || len(v.IA) == 0 {
			return "", false
		}
		var p []string
		for _, i := range v.IA {
			p = append(p, strconv.FormatInt(i, 10))
		}
		return strings.Join(p, ", "), true
	}
	return "", false
}

func (v qVal) tagValue() *modelv1.TagValue {
	switch v.K {
	case "str":
		return &modelv1.TagValue{Value: &modelv1.TagValue_Str{Str: &modelv1.Str{Value: v.S}}}
	case "int":
		return &modelv1.TagValue{Value: &modelv1.TagValue_Int{Int: &modelv1.Int{Value: v.I}}}
	case "null":
		return &modelv1.TagValue{Value: &modelv1.TagValue_Null{}}
	case "strarr":
		return &modelv1.TagValue{Value: &modelv1.TagValue_StrArray{StrArray: &modelv1.StrArray{Value: v.SA}}}
	case "intarr":
		return &modelv1.TagValue{Value: &modelv1.TagValue_IntArray{IntArray: &modelv1.IntArray{Value: v.IA}}}
	case "ts":
		return &modelv1.TagValue{Value: &modelv1.TagValue_Timestamp{Timestamp: timestamppb.New(v.instant())}}
	case "bin":
		return &modelv1.TagValue{Value: &modelv1.TagValue_BinaryData{BinaryData: []byte(v.S)}}
	}
	return &modelv1.TagValue{}
}

// render produces the parameterised text, the literal text (ok=false when some parameter has no
// literal spelling in its position) and the parameter vector in placeholder order.
func (c qCase) render(second bool) (param string, literal string, params []*modelv1.TagValue, literalOK bool) {
	literalOK = true
	var pb, lb strings.Builder
	idx := 0
	emit := func(v qVal, listPos bool) {
		use := v
		if v.Param {
			if second && idx < len(c.Second) {
				use = c.Second[idx]
				use.Param = true
			}
			idx++
			pb.WriteString("?")
			params = append(params, use.tagValue())
		}
		lit, ok := use.literal(listPos)
		if !ok {
			literalOK = false
			lit = "NULL"
		}
		lb.WriteString(lit)
		if !v.Param {
			pb.WriteString(lit)
		}
	}
	both := func(s string) { pb.WriteString(s); lb.WriteString(s) }
	count := func(q *qCount) {
		if q.Param {
			idx++
			pb.WriteString("?")
			params = append(params, &modelv1.TagValue{Value: &modelv1.TagValue_Int{Int: &modelv1.Int{Value: q.V}}})
		} else {
			pb.WriteString(strconv.FormatInt(q.V, 10))
		}
		lb.WriteString(strconv.FormatInt(q.V, 10))
	}
	switch c.Kind {
	case "stream":
		both("SELECT s1, i1 FROM STREAM sw IN default")
	case "measure":
		both("SELECT s1, value FROM MEASURE m IN default")
	case "measure-top":
		both("SELECT TOP ")
		count(c.Top)
		both(" value DESC, s1 FROM MEASURE m IN default")
	case "trace":
		both("SELECT s1, i1 FROM TRACE t IN default")
	case "property":
		both("SELECT s1, i1 FROM PROPERTY p IN default")
	case "topn":
		both("SHOW TOP ")
		count(c.Top)
		both(" FROM MEASURE tn IN default")
	}
	if c.TimeOp != "" && c.TimeA != nil {
		if c.TimeOp == "BETWEEN" && c.TimeB != nil {
			both(" TIME BETWEEN ")
			emit(*c.TimeA, false)
			both(" AND ")
			emit(*c.TimeB, false)
		} else if c.TimeOp != "BETWEEN" {
			both(" TIME " + c.TimeOp + " ")
			emit(*c.TimeA, false)
		}
	}
	for i, cd := range c.Where {
		if i == 0 {
			both(" WHERE ")
		} else {
			both(" " + cd.Conn + " ")
		}
		both(cd.Tag + " " + cd.Op + " ")
		switch cd.Op {
		case "IN", "NOT IN", "HAVING", "NOT HAVING", "MATCH":
			both("(")
			for j, v := range cd.Vals {
				if j > 0 {
					both(", ")
				}
				emit(v, true)
			}
			both(")")
		default:
			emit(cd.Vals[0], false)
		}
	}
	if c.Kind == "topn" {
		both(" ORDER BY DESC")
	}
	if c.Limit != nil && c.Kind != "topn" {
		both(" LIMIT ")
		count(c.Limit)
	}
	if c.Offset != nil && c.Kind != "topn" && c.Kind != "property" {
		both(" OFFSET ")
		count(c.Offset)
	}
	return pb.String(), lb.String(), params, literalOK
}

type c20Out struct {
	req proto.Message
	err error
}

func c20Literal(tr *Transformer, text string) c20Out {
	g, err := ParseQuery(text)
	if err != nil {
		return c20Out{err: fmt.Errorf("parse: %w", err)}
	}
	if err = BindParams(g, nil); err != nil {
		return c20Out{err: fmt.Errorf("bind: %w", err)}
	}
	res, err := tr.Transform(context.Background(), g)
	if err != nil {
		return c20Out{err: err}
	}
	return c20Out{req: res.QueryRequest}
}

func c20OneShot(tr *Transformer, text string, params []*modelv1.TagValue) c20Out {
	g, err := ParseQuery(text)
	if err != nil {
		return c20Out{err: fmt.Errorf("parse: %w", err)}
	}
	if err = BindParams(g, params); err != nil {
		return c20Out{err: fmt.Errorf("bind: %w", err)}
	}
	res, err := tr.Transform(context.Background(), g)
	if err != nil {
		return c20Out{err: err}
	}
	return c20Out{req: res.QueryRequest}
}

func c20Bound(tr *Transformer, ps *PreparedStatement, params []*modelv1.TagValue) c20Out {
	bq, err := ps.Bind(params)
	if err != nil {
		return c20Out{err: fmt.Errorf("bind: %w", err)}
	}
	res, err := tr.TransformBound(context.Background(), bq)
	if err != nil {
		return c20Out{err: err}
	}
	return c20Out{req: res.QueryRequest}
}

func (o c20Out) String() string {
	if o.err != nil {
		return "REJECTED(" + o.err.Error() + ")"
	}
	return fmt.Sprintf("%T{%v}", o.req, o.req)
}

// dropWallClock clears the side of time_range that the transformer fills from time.Now() for a
// one-sided or absent TIME clause (upstream's own equivalence tests exclude it as well).
func dropWallClock(m proto.Message, timeOp string) proto.Message {
	c := proto.Clone(m)
	r := c.ProtoReflect()
	fd := r.Descriptor().Fields().ByName("time_range")
	if fd == nil || !r.Has(fd) {
		return c
	}
	tr := r.Mutable(fd).Message()
	b, e := tr.Descriptor().Fields().ByName("begin"), tr.Descriptor().Fields().ByName("end")
	switch timeOp {
	case ">", ">=":
		tr.Clear(e)
	case "<", "<=":
		tr.Clear(b)
	case "":
		tr.Clear(b)
		tr.Clear(e)
	}
	return c
}

var c20TimeOp string

func sameOut(a, b c20Out) bool {
	if a.err != nil || b.err != nil {
		return (a.err != nil) == (b.err != nil)
	}
	return proto.Equal(dropWallClock(a.req, c20TimeOp), dropWallClock(b.req, c20TimeOp))
}

// replaceStrings rewrites every string leaf of msg found in repl (and every element of repeated
// strings) so that two requests bound with different values can be compared structurally.
func replaceStrings(m protoreflect.Message, repl map[string]string) {
	m.Range(func(fd protoreflect.FieldDescriptor, v protoreflect.Value) bool {
		switch {
		case fd.IsList():
			l := v.List()
			for i := 0; i < l.Len(); i++ {
				switch fd.Kind() {
				case protoreflect.StringKind:
					if r, ok := repl[l.Get(i).String()]; ok {
						l.Set(i, protoreflect.ValueOfString(r))
					}
				case protoreflect.MessageKind:
					replaceStrings(l.Get(i).Message(), repl)
				}
			}
		case fd.IsMap():
		case fd.Kind() == protoreflect.StringKind:
			if r, ok := repl[v.String()]; ok {
				m.Set(fd, protoreflect.ValueOfString(r))
			}
		case fd.Kind() == protoreflect.MessageKind:
			replaceStrings(v.Message(), repl)
		}
		return true
	})
}

// ---------------------------------------------------------------- generators

var c20Hostile = []string{"' OR 1=1 --", "\" OR \"\"=\"", "a'b", "a\"b", "a\\b", "a\\'b", "/* c */", "-- x", "; DROP", "('a','b')", "x) OR (s2 = 'y", "?", "??",
	"NULL", "null", "AND", "LIMIT 5", "\n", "\t", "é", "日本", "", " ", "'", "\"", "\\", "1", "-1", "now", "-30m", "2024-01-01T00:00:00Z", "a, b", "MATCH(", ")", "(("}

func genStr(t *rapid.T, label string, idx int) string {
	var s string
	switch rapid.IntRange(0, 3).Draw(t, label+"/k") {
	case 0, 1:
		s = rapid.SampledFrom(c20Hostile).Draw(t, label)
	case 2:
		s = rapid.StringOfN(rapid.RuneFrom([]rune{'a', '\'', '"', '\\', ' ', ')', '(', ',', '?', '-', '*', '/', ';', 'O', 'R', '=', '1', '\n'}), 0, 10, -1).Draw(t, label)
	default:
		s = rapid.StringN(0, 8, -1).Draw(t, label)
	}
	c20UID++
	_ = idx
	return s + "§" + strconv.Itoa(c20UID) // a unique suffix: the value never coincides with an identifier or another value of the statement
}

var c20UID int

func genScalar(t *rapid.T, label string, idx int, intTag bool) qVal {
	switch rapid.IntRange(0, 9).Draw(t, label+"/kind") {
	case 0:
		return qVal{K: "null"}
	case 1, 2, 3:
		return qVal{K: "int", I: verifkit.Int64(t, label+"/i")}
	default:
		if intTag {
			return qVal{K: "int", I: int64(rapid.IntRange(-1000, 1000).Draw(t, label+"/i"))}
		}
		return qVal{K: "str", S: genStr(t, label, idx)}
	}
}

func genC20(t *rapid.T) qCase {
	c20UID = 0
	c := qCase{Kind: rapid.SampledFrom([]string{"stream", "stream", "measure", "measure-top", "trace", "property", "topn"}).Draw(t, "kind")}
	n := 0
	param := func() bool { return rapid.IntRange(0, 3).Draw(t, "isparam") != 0 }
	if c.Kind == "measure-top" || c.Kind == "topn" {
		c.Top = &qCount{Param: param(), V: int64(rapid.SampledFrom([]int{1, 5, 10, 100, 2147483647}).Draw(t, "topv"))}
		if c.Top.Param {
			n++
		}
	}
	if c.Kind != "property" && (c.Kind == "measure" || c.Kind == "measure-top" || c.Kind == "topn" || rapid.Bool().Draw(t, "hastime")) {
		c.TimeOp = rapid.SampledFrom([]string{">", ">=", "<", "<=", "=", "BETWEEN"}).Draw(t, "timeop")
		mk := func(label string) *qVal {
			v := qVal{Param: param(), I: int64(rapid.IntRange(1_600_000_000, 1_800_000_000).Draw(t, label)), Ms: rapid.SampledFrom([]int{0, 0, 1, 500, 999}).Draw(t, label+"/ms")}
			if v.Param && rapid.Bool().Draw(t, label+"/asts") {
				v.K = "ts"
			} else {
				v.K = "str"
				v.S = v.instant().UTC().Format(time.RFC3339Nano)
			}
			if v.Param {
				n++
			}
			return &v
		}
		c.TimeA = mk("ta")
		if c.TimeOp == "BETWEEN" {
			c.TimeB = mk("tb")
			if c.TimeB.I < c.TimeA.I {
				c.TimeA.I, c.TimeB.I = c.TimeB.I, c.TimeA.I
				c.TimeA.Ms, c.TimeB.Ms = c.TimeB.Ms, c.TimeA.Ms
				c.TimeA.S, c.TimeB.S = c.TimeA.instant().UTC().Format(time.RFC3339Nano), c.TimeB.instant().UTC().Format(time.RFC3339Nano)
			}
		}
	}
	if c.Kind == "property" && rapid.Bool().Draw(t, "hasid") {
		// the property id position: id = v / id IN (v, ...)
		cd := qCond{Conn: "AND", Tag: "id", Op: rapid.SampledFrom([]string{"=", "=", "IN"}).Draw(t, "idop")}
		k := 1
		if cd.Op == "IN" {
			k = rapid.IntRange(1, 3).Draw(t, "idn")
		}
		for j := 0; j < k; j++ {
			v := qVal{K: "str", S: genStr(t, "idv", n)}
			switch rapid.IntRange(0, 5).Draw(t, "idkind") {
			case 0:
				v = qVal{K: "null"}
			case 1:
				v = qVal{K: "int", I: int64(rapid.IntRange(0, 99).Draw(t, "idint"))}
			}
			v.Param = param()
			if v.Param {
				n++
			}
			cd.Vals = append(cd.Vals, v)
		}
		c.Where = append(c.Where, cd)
	}
	nc := rapid.IntRange(0, 4).Draw(t, "nconds")
	for i := 0; i < nc; i++ {
		cd := qCond{Conn: "AND"}
		if c.Kind != "topn" && c.Kind != "property" && rapid.IntRange(0, 2).Draw(t, "or") == 0 {
			cd.Conn = "OR"
		}
		tagKind := rapid.SampledFrom([]string{"s", "s", "i", "sa", "ia"}).Draw(t, "tagkind")
		if c.Kind == "topn" {
			tagKind = "s"
		}
		switch tagKind {
		case "s":
			cd.Tag = rapid.SampledFrom([]string{"s1", "s2"}).Draw(t, "tag")
			cd.Op = rapid.SampledFrom([]string{"=", "!=", "IN", "NOT IN", "=", "MATCH"}).Draw(t, "op")
			if c.Kind == "topn" {
				cd.Op = "="
			}
		case "i":
			cd.Tag = rapid.SampledFrom([]string{"i1", "i2"}).Draw(t, "tag")
			cd.Op = rapid.SampledFrom([]string{"=", "!=", ">", ">=", "<", "<=", "IN", "NOT IN"}).Draw(t, "op")
		case "sa":
			cd.Tag, cd.Op = "sa", rapid.SampledFrom([]string{"HAVING", "NOT HAVING"}).Draw(t, "op")
		default:
			cd.Tag, cd.Op = "ia", rapid.SampledFrom([]string{"HAVING", "NOT HAVING"}).Draw(t, "op")
		}
		intTag := tagKind == "i" || tagKind == "ia"
		switch cd.Op {
		case "IN", "NOT IN", "HAVING", "NOT HAVING", "MATCH":
			k := rapid.IntRange(1, 3).Draw(t, "nvals")
			if cd.Op == "MATCH" {
				k = 1
			}
			for j := 0; j < k; j++ {
				v := genScalar(t, "lv", n, intTag)
				if v.K == "null" {
					v = qVal{K: "int", I: 7}
					if !intTag {
						v = qVal{K: "str", S: genStr(t, "lv2", n)}
					}
				}
				v.Param = param()
				if v.Param && rapid.IntRange(0, 2).Draw(t, "arr") == 0 && cd.Op != "MATCH" {
					if intTag {
						v = qVal{Param: true, K: "intarr", IA: rapid.SliceOfN(rapid.Int64Range(-5, 5), 1, 3).Draw(t, "ia")}
					} else {
						m := rapid.IntRange(1, 3).Draw(t, "sal")
						v = qVal{Param: true, K: "strarr"}
						for q := 0; q < m; q++ {
							v.SA = append(v.SA, genStr(t, "sae", n)+"."+strconv.Itoa(q))
						}
					}
				}
				if v.Param {
					n++
				}
				cd.Vals = append(cd.Vals, v)
			}
		default:
			v := genScalar(t, "sv", n, intTag)
			if v.K == "null" && cd.Op != "=" && cd.Op != "!=" {
				v = qVal{K: "int", I: 3}
			}
			v.Param = param()
			if v.Param {
				n++
			}
			cd.Vals = []qVal{v}
		}
		c.Where = append(c.Where, cd)
	}
	if c.Kind != "topn" && rapid.Bool().Draw(t, "haslimit") {
		c.Limit = &qCount{Param: param(), V: int64(rapid.SampledFrom([]int{0, 1, 10, 100, 4294967295}).Draw(t, "limit"))}
		if c.Limit.Param {
			n++
		}
	}
	if c.Kind != "topn" && c.Kind != "property" && rapid.Bool().Draw(t, "hasoffset") {
		c.Offset = &qCount{Param: param(), V: int64(rapid.SampledFrom([]int{0, 1, 20, 4294967295}).Draw(t, "offset"))}
		if c.Offset.Param {
			n++
		}
	}
	// a second vector for the prepared statement: same kinds, other contents
	_, _, params, _ := c.render(false)
	for i, p := range params {
		switch v := p.GetValue().(type) {
		case *modelv1.TagValue_Str:
			c.Second = append(c.Second, qVal{K: "str", S: genStr(t, "second", 100+i)})
			_ = v
		case *modelv1.TagValue_Int:
			c.Second = append(c.Second, qVal{K: "int", I: v.Int.GetValue()})
		case *modelv1.TagValue_StrArray:
			sv := qVal{K: "strarr"}
			for q := range v.StrArray.GetValue() {
				sv.SA = append(sv.SA, genStr(t, "second", 100+i)+"."+strconv.Itoa(q))
			}
			c.Second = append(c.Second, sv)
		case *modelv1.TagValue_IntArray:
			c.Second = append(c.Second, qVal{K: "intarr", IA: v.IntArray.GetValue()})
		case *modelv1.TagValue_Timestamp:
			c.Second = append(c.Second, qVal{K: "ts", I: v.Timestamp.GetSeconds(), Ms: int(v.Timestamp.GetNanos() / 1_000_000)})
		default:
			c.Second = append(c.Second, qVal{K: "null"})
		}
	}
	c.Fault = rapid.SampledFrom([]string{"", "", "", "drop", "extra", "nil", "binary", "count-neg", "count-big"}).Draw(t, "fault")
	return c
}

func TestVerifC20(t *testing.T) {
	verifkit.Run(t, verifkit.Spec[qCase]{
		Property: "C20", Unit: "bind",
		Rule: "statements from a grammar over SELECT for stream/measure/trace/property, SELECT TOP N and SHOW TOP N with optional TIME (comparison/BETWEEN; " +
			"string or timestamp values), 0..4 WHERE conditions (=,!=,<,<=,>,>=, IN/NOT IN/HAVING/NOT HAVING lists, MATCH) joined by AND/OR, LIMIT, OFFSET; each " +
			"value position independently a literal or a '?' placeholder; parameter values from a hostile pool (quotes, backslashes, comment markers, keywords, " +
			"list syntax, newlines, unicode, int64 edges, arrays that expand in list positions); faults: missing / surplus / valueless / binary / negative / " +
			"oversized count parameters; oracles: three-way equality literal == one-shot bind == prepared bind (request protos or all rejected), shape invariance " +
			"against a second value vector after mapping leaf strings, rejection of faulty parameter sets with the prepared statement still usable, no leakage " +
			"between two binds of one prepared statement; non-trivial = a placeholder outside a plain comparison or a string parameter containing a quote, " +
			"backslash, comment or keyword token",
		Gen: func(t *rapid.T, _ *verifkit.KnownSet) qCase { return genC20(t) },
		Check: func(x *verifkit.Ctx, c qCase) error {
			tr := NewTransformer(c20Repo{})
			c20TimeOp = c.TimeOp
			if c.TimeA == nil {
				c20TimeOp = ""
			}
			ptext, ltext, params, litOK := c.render(false)
			if len(params) == 0 {
				x.Label("no placeholder")
			}
			one := c20OneShot(tr, ptext, params)
			ps, perr := Prepare(ptext)
			if perr != nil {
				if one.err == nil {
					return verifkit.Failf("Prepare rejects %q (%v) but the one-shot path accepts it", ptext, perr)
				}
				x.Label("statement rejected by the parser")
				return nil
			}
			if ps.NumPlaceholders() != len(params) {
				return verifkit.Failf("%q: NumPlaceholders=%d, statement has %d placeholders", ptext, ps.NumPlaceholders(), len(params))
			}
			prep := c20Bound(tr, ps, params)
			if !sameOut(one, prep) {
				return verifkit.Failf("one-shot and prepared paths disagree for %q with %v:\n one-shot: %v\n prepared: %v", ptext, params, one, prep)
			}
			if litOK {
				lit := c20Literal(tr, ltext)
				if !sameOut(lit, one) {
					return verifkit.Failf("bound statement differs from the statement with literals:\n parameterised: %q with %v\n literal: %q\n bound:   %v\n literal: %v", ptext, params, ltext, one, lit)
				}
				x.Label("three-way")
			} else {
				x.Label("two-way (no literal spelling)")
			}
			x.LabelIf(one.err != nil, "rejected")
			x.LabelIf(one.err == nil, "accepted")
			// second bind on the same prepared statement, then the first again: no leakage
			if len(params) > 0 {
				_, _, params2, _ := c.render(true)
				second := c20Bound(tr, ps, params2)
				fresh2 := c20OneShot(tr, ptext, params2)
				if !sameOut(second, fresh2) {
					return verifkit.Failf("second bind of the prepared statement differs from a fresh statement:\n %q with %v\n prepared: %v\n fresh:    %v", ptext, params2, second, fresh2)
				}
				again := c20Bound(tr, ps, params)
				if !sameOut(again, prep) {
					return verifkit.Failf("re-binding the first parameter vector after another bind gives a different request (leak):\n first: %v\n again: %v", prep, again)
				}
				// shape invariance: map the leaf strings of the first request onto the second vector
				if one.err == nil && fresh2.err == nil {
					repl := map[string]string{}
					for i := range params {
						a, b := params[i], params2[i]
						switch av := a.GetValue().(type) {
						case *modelv1.TagValue_Str:
							repl[av.Str.GetValue()] = b.GetStr().GetValue()
						case *modelv1.TagValue_StrArray:
							for q, s := range av.StrArray.GetValue() {
								if q < len(b.GetStrArray().GetValue()) {
									repl[s] = b.GetStrArray().GetValue()[q]
								}
							}
						}
					}
					mapped := proto.Clone(one.req)
					replaceStrings(mapped.ProtoReflect(), repl)
					if !proto.Equal(dropWallClock(mapped, c20TimeOp), dropWallClock(fresh2.req, c20TimeOp)) {
						return verifkit.Failf("a parameter value changed the shape of the request:\n %q\n with %v -> %v\n with %v -> %v", ptext, params, one.req, params2, fresh2.req)
					}
				}
			}
			// faulty parameter sets are rejected and leave the prepared statement reusable
			if c.Fault != "" && len(params) > 0 {
				bad := append([]*modelv1.TagValue(nil), params...)
				applicable := true
				switch c.Fault {
				case "drop":
					bad = bad[:len(bad)-1]
				case "extra":
					bad = append(bad, &modelv1.TagValue{Value: &modelv1.TagValue_Int{Int: &modelv1.Int{Value: 1}}})
				case "nil":
					bad[len(bad)-1] = &modelv1.TagValue{}
				case "binary":
					bad[len(bad)-1] = &modelv1.TagValue{Value: &modelv1.TagValue_BinaryData{BinaryData: []byte("x")}}
				case "count-neg", "count-big":
					applicable = false
					cnt := c.Limit
					if cnt == nil || !cnt.Param {
						cnt = c.Top
					}
					if cnt != nil && cnt.Param {
						// find its position: TOP is the first parameter, LIMIT follows all value parameters
						pos := 0
						if cnt == c.Limit {
							pos = len(params) - 1
							if c.Offset != nil && c.Offset.Param {
								pos--
							}
						}
						v := int64(-1)
						if c.Fault == "count-big" {
							// the smallest and other values beyond the count's wire type: TOP is an int32, LIMIT / OFFSET are uint32
							pool := []int64{1 << 32, 1 << 33, 1 << 62}
							if cnt == c.Top {
								pool = []int64{1 << 31, 3000000000, 1<<32 - 1, 1 << 32, 1 << 62}
							}
							v = pool[(len(c.Where)+len(params)+int(cnt.V%7))%len(pool)]
						}
						bad[pos] = &modelv1.TagValue{Value: &modelv1.TagValue_Int{Int: &modelv1.Int{Value: v}}}
						applicable = true
					}
				}
				if applicable {
					b1 := c20OneShot(tr, ptext, bad)
					b2 := c20Bound(tr, ps, bad)
					if b1.err == nil || b2.err == nil {
						return verifkit.Failf("faulty parameter set (%s) was accepted for %q: one-shot %v, prepared %v", c.Fault, ptext, b1, b2)
					}
					after := c20Bound(tr, ps, params)
					if !sameOut(after, prep) {
						return verifkit.Failf("prepared statement unusable or changed after a rejected bind (%s): before %v after %v", c.Fault, prep, after)
					}
					x.Label("fault:" + c.Fault)
				}
			}
			hostile := false
			for _, p := range params {
				s := p.GetStr().GetValue()
				for _, e := range p.GetStrArray().GetValue() {
					s += e
				}
				if strings.ContainsAny(s, "'\"\\;") || strings.Contains(s, "--") || strings.Contains(s, "/*") || strings.Contains(s, " OR ") {
					hostile = true
				}
			}
			outside := false
			if (c.Top != nil && c.Top.Param) || (c.Limit != nil && c.Limit.Param) || (c.Offset != nil && c.Offset.Param) ||
				(c.TimeA != nil && c.TimeA.Param) || (c.TimeB != nil && c.TimeB.Param) {
				outside = true
			}
			for _, cd := range c.Where {
				if len(cd.Vals) > 1 || cd.Op == "IN" || cd.Op == "NOT IN" || strings.Contains(cd.Op, "HAVING") || cd.Op == "MATCH" {
					for _, v := range cd.Vals {
						if v.Param {
							outside = true
						}
					}
				}
			}
			x.Label("kind:" + c.Kind)
			x.LabelIf(hostile, "hostile string parameter")
			x.LabelIf(outside, "placeholder outside a plain comparison")
			if len(params) > 0 && (hostile || outside) {
				x.NonTrivial()
			}
			return nil
		},
		MinLabelFrac: map[string]float64{"accepted": 0.3, "three-way": 0.4, "hostile string parameter": 0.2, "placeholder outside a plain comparison": 0.3},
	})
}
