package verifkit

import (
	"fmt"
	"time"
)

// SegInfo describes one time segment of a database as an engine harness observed it.
type SegInfo struct {
	Start, End   time.Time
	MinTS, MaxTS int64 // of the stored rows (meaningful if Rows > 0)
	Rows         uint64
}

// CheckDaySegments checks the writer-side clauses of the segment property for day segments in the process
// time zone loc: local-midnight grid, one day long, disjoint (segs sorted by Start), every accepted
// timestamp in exactly one segment, stored rows inside their segment, all rows stored.
func CheckDaySegments(what, zone string, loc *time.Location, segs []SegInfo, written []time.Time) error {
	var stored uint64
	for i, s := range segs {
		ls := s.Start.In(loc)
		if ls.Hour() != 0 || ls.Minute() != 0 || ls.Second() != 0 || ls.Nanosecond() != 0 {
			return fmt.Errorf("%s: segment [%s, %s) does not start on the day grid of the process time zone %s", what, ls, s.End.In(loc), zone)
		}
		if want := ls.AddDate(0, 0, 1); !s.End.Equal(want) {
			return fmt.Errorf("%s: segment [%s, %s) is not one day long (zone %s)", what, ls, s.End.In(loc), zone)
		}
		if i > 0 && s.Start.Before(segs[i-1].End) {
			return fmt.Errorf("%s: segments [%s,%s) and [%s,%s) overlap", what, segs[i-1].Start.In(loc), segs[i-1].End.In(loc), ls, s.End.In(loc))
		}
		if s.Rows > 0 && (s.MinTS < s.Start.UnixNano() || s.MaxTS >= s.End.UnixNano()) {
			return fmt.Errorf("%s: segment [%s,%s) stores rows from %s to %s: a row is filed under a segment that does not contain its timestamp",
				what, ls, s.End.In(loc), time.Unix(0, s.MinTS).In(loc), time.Unix(0, s.MaxTS).In(loc))
		}
		stored += s.Rows
	}
	for _, ts := range written {
		k := 0
		for _, s := range segs {
			if !ts.Before(s.Start) && ts.Before(s.End) {
				k++
			}
		}
		if k != 1 {
			return fmt.Errorf("%s: the accepted timestamp %s falls into %d segments", what, ts.In(loc), k)
		}
	}
	if stored != uint64(len(written)) {
		return fmt.Errorf("%s: %d rows are stored, %d were accepted", what, stored, len(written))
	}
	return nil
}

// SameBoundaries compares two sorted segment lists.
func SameBoundaries(before, after []SegInfo, loc *time.Location) error {
	if len(after) != len(before) {
		return fmt.Errorf("%d segments before the restart, %d after", len(before), len(after))
	}
	for i := range after {
		if !after[i].Start.Equal(before[i].Start) || !after[i].End.Equal(before[i].End) {
			return fmt.Errorf("segment %d was [%s,%s) and is [%s,%s) after the restart", i, before[i].Start.In(loc), before[i].End.In(loc), after[i].Start.In(loc), after[i].End.In(loc))
		}
	}
	return nil
}
