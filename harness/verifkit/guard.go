package verifkit

import (
	"fmt"
	"runtime"
	"runtime/debug"
	"time"
)

// FatalGuard is the error type returned when a guarded call ran away (over-allocation / hang).
// The call cannot be stopped from outside, so the caller's process should end after reporting.
type FatalGuard struct{ Msg string }

func (f *FatalGuard) Error() string { return f.Msg }

// Guarded runs fn on its own goroutine and watches the heap and the elapsed time. A panic in fn is
// re-raised on the caller's goroutine (so it is reported like any other panic).
func Guarded(maxHeapBytes uint64, maxMillis int, fn func()) error {
	done := make(chan any, 1)
	var before runtime.MemStats
	runtime.ReadMemStats(&before)
	go func() {
		defer func() {
			if r := recover(); r != nil {
				done <- fmt.Errorf("panic: %v\n%s", r, debug.Stack())
				return
			}
			done <- nil
		}()
		fn()
	}()
	start := time.Now()
	fast := time.NewTimer(2 * time.Millisecond)
	defer fast.Stop()
	select {
	case r := <-done:
		if r != nil {
			return r.(error)
		}
		return nil
	case <-fast.C:
	}
	tick := time.NewTicker(5 * time.Millisecond)
	defer tick.Stop()
	for {
		select {
		case r := <-done:
			if r != nil {
				return r.(error)
			}
			return nil
		case <-tick.C:
			var ms runtime.MemStats
			runtime.ReadMemStats(&ms)
			if ms.HeapAlloc > before.HeapAlloc && ms.HeapAlloc-before.HeapAlloc > maxHeapBytes {
				return &FatalGuard{Msg: fmt.Sprintf("runaway allocation: heap grew by %d MiB (limit %d MiB) and the call is still running", (ms.HeapAlloc-before.HeapAlloc)>>20, maxHeapBytes>>20)}
			}
			if time.Since(start) > time.Duration(maxMillis)*time.Millisecond {
				return &FatalGuard{Msg: fmt.Sprintf("call still running after %d ms (hang)", maxMillis)}
			}
		}
	}
}
