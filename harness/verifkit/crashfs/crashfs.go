// Package crashfs is a crash-simulating wrapper around the repository's fs.FileSystem. Every
// mutating call is executed on the real directory AND appended to an operation log at the
// granularity the local file system's durability contract defines (pkg/fs/local_file_system.go):
//
//	MkdirIfNotExist / MkdirPanicIfExist : mkdir + fsync(parent)
//	Write(buf,name)                      : create/truncate, write, fsync(file)   (entry NOT synced)
//	WriteAtomic(buf,name)                : write name.tmp, fsync(tmp), rename, fsync(parent)
//	CreateFile + File.Write/SeqWriter    : appends; fsync(file) at Close
//	Rename / DeleteFile / MustRMAll      : directory changes, NOT synced
//	SyncPath(dir)                        : fsync(dir)
//
// From a log prefix two disk images can be materialised in a fresh directory:
// Kill9 (every completed operation is on disk) and PowerLoss (only what an fsync covers survives:
// un-synced file contents are lost, un-synced directory changes are rolled back).
package crashfs

import (
	"fmt"
	"os"
	"path/filepath"
	"sort"
	"strings"
	"sync"

	"github.com/apache/skywalking-banyandb/pkg/fs"
)

// Op is one logged file-system effect.
type Op struct {
	Kind string // mkdir | create | append | fsync | rename | remove | rmall | syncdir
	Path string // relative to the root
	To   string
	Data []byte
}

// FS wraps a real fs.FileSystem rooted at Root.
type FS struct {
	fs.FileSystem
	Root string
	mu   sync.Mutex
	log  []Op
	// FailAfter makes every mutating call panic once the log holds that many ops (0 = never).
	FailAfter int
}

// New wraps real; only paths below root are logged.
func New(real fs.FileSystem, root string) *FS {
	return &FS{FileSystem: real, Root: filepath.Clean(root)}
}

// Len is the current length of the operation log.
func (c *FS) Len() int { c.mu.Lock(); defer c.mu.Unlock(); return len(c.log) }

// Log returns a copy of the log.
func (c *FS) Log() []Op { c.mu.Lock(); defer c.mu.Unlock(); return append([]Op(nil), c.log...) }

func (c *FS) rel(p string) (string, bool) {
	p = filepath.Clean(p)
	if p == c.Root {
		return ".", true
	}
	if strings.HasPrefix(p, c.Root+string(filepath.Separator)) {
		return p[len(c.Root)+1:], true
	}
	return "", false
}

func (c *FS) add(op Op) {
	c.mu.Lock()
	c.log = append(c.log, op)
	c.mu.Unlock()
}

func (c *FS) mkdir(path string, f func()) {
	existed := c.FileSystem.IsExist(path)
	// the local file system creates missing ancestors too (os.MkdirAll) and fsyncs the parent of every level it created
	var missing []string
	if r, ok := c.rel(path); ok && !existed {
		for a := filepath.Dir(r); a != "." && a != string(filepath.Separator); a = filepath.Dir(a) {
			if c.FileSystem.IsExist(filepath.Join(c.Root, a)) {
				break
			}
			missing = append([]string{a}, missing...)
		}
	}
	f()
	if r, ok := c.rel(path); ok && !existed {
		for _, a := range missing {
			c.add(Op{Kind: "mkdir", Path: a})
		}
		c.add(Op{Kind: "mkdir", Path: r})
		for _, a := range missing {
			c.add(Op{Kind: "syncdir", Path: filepath.Dir(a)})
		}
		c.add(Op{Kind: "syncdir", Path: filepath.Dir(r)})
	}
}

// MkdirIfNotExist implements fs.FileSystem.
func (c *FS) MkdirIfNotExist(path string, perm fs.Mode) {
	c.mkdir(path, func() { c.FileSystem.MkdirIfNotExist(path, perm) })
}

// MkdirPanicIfExist implements fs.FileSystem.
func (c *FS) MkdirPanicIfExist(path string, perm fs.Mode) {
	c.mkdir(path, func() { c.FileSystem.MkdirPanicIfExist(path, perm) })
}

// Write implements fs.FileSystem (create/truncate + write + fsync of the file).
func (c *FS) Write(buffer []byte, name string, perm fs.Mode) (int, error) {
	n, err := c.FileSystem.Write(buffer, name, perm)
	if r, ok := c.rel(name); ok && err == nil {
		c.add(Op{Kind: "create", Path: r})
		half := len(buffer) / 2
		c.add(Op{Kind: "append", Path: r, Data: append([]byte(nil), buffer[:half]...)})
		c.add(Op{Kind: "append", Path: r, Data: append([]byte(nil), buffer[half:]...)})
		c.add(Op{Kind: "fsync", Path: r})
	}
	return n, err
}

// WriteAtomic implements fs.FileSystem (tmp + fsync + rename + fsync(dir)).
func (c *FS) WriteAtomic(buffer []byte, name string, perm fs.Mode) (int, error) {
	n, err := c.FileSystem.WriteAtomic(buffer, name, perm)
	if r, ok := c.rel(name); ok && err == nil {
		tmp := r + ".tmp"
		c.add(Op{Kind: "create", Path: tmp})
		half := len(buffer) / 2
		c.add(Op{Kind: "append", Path: tmp, Data: append([]byte(nil), buffer[:half]...)})
		c.add(Op{Kind: "append", Path: tmp, Data: append([]byte(nil), buffer[half:]...)})
		c.add(Op{Kind: "fsync", Path: tmp})
		c.add(Op{Kind: "rename", Path: tmp, To: r})
		c.add(Op{Kind: "syncdir", Path: filepath.Dir(r)})
	}
	return n, err
}

// CreateFile implements fs.FileSystem.
func (c *FS) CreateFile(name string, perm fs.Mode) (fs.File, error) {
	f, err := c.FileSystem.CreateFile(name, perm)
	if err != nil {
		return nil, err
	}
	if r, ok := c.rel(name); ok {
		c.add(Op{Kind: "create", Path: r})
		return &file{File: f, c: c, rel: r}, nil
	}
	return f, nil
}

// Rename implements fs.FileSystem.
func (c *FS) Rename(oldPath, newPath string) error {
	err := c.FileSystem.Rename(oldPath, newPath)
	a, ok1 := c.rel(oldPath)
	b, ok2 := c.rel(newPath)
	if err == nil && ok1 && ok2 {
		c.add(Op{Kind: "rename", Path: a, To: b})
	}
	return err
}

// DeleteFile implements fs.FileSystem.
func (c *FS) DeleteFile(name string) error {
	err := c.FileSystem.DeleteFile(name)
	if r, ok := c.rel(name); ok && err == nil {
		c.add(Op{Kind: "remove", Path: r})
	}
	return err
}

// MustRMAll implements fs.FileSystem.
func (c *FS) MustRMAll(path string) {
	c.FileSystem.MustRMAll(path)
	if r, ok := c.rel(path); ok {
		c.add(Op{Kind: "rmall", Path: r})
	}
}

// SyncPath implements fs.FileSystem.
func (c *FS) SyncPath(path string) {
	c.FileSystem.SyncPath(path)
	if r, ok := c.rel(path); ok {
		c.add(Op{Kind: "syncdir", Path: r})
	}
}

type file struct {
	fs.File
	c   *FS
	rel string
}

func (f *file) Write(b []byte) (int, error) {
	n, err := f.File.Write(b)
	if err == nil {
		f.c.add(Op{Kind: "append", Path: f.rel, Data: append([]byte(nil), b[:n]...)})
	}
	return n, err
}

func (f *file) Writev(iov *[][]byte) (int, error) {
	n, err := f.File.Writev(iov)
	if err == nil {
		for _, b := range *iov {
			f.c.add(Op{Kind: "append", Path: f.rel, Data: append([]byte(nil), b...)})
		}
	}
	return n, err
}

func (f *file) Close() error {
	err := f.File.Close()
	if err == nil {
		f.c.add(Op{Kind: "fsync", Path: f.rel})
	}
	return err
}

func (f *file) SequentialWrite() fs.SeqWriter {
	return &seqWriter{SeqWriter: f.File.SequentialWrite(), f: f}
}

type seqWriter struct {
	fs.SeqWriter
	f   *file
	buf []byte
}

// Write buffers like the real bufio-backed writer: bytes reach the file in chunks.
func (w *seqWriter) Write(p []byte) (int, error) {
	n, err := w.SeqWriter.Write(p)
	if err == nil {
		w.buf = append(w.buf, p[:n]...)
		if len(w.buf) >= 4096 {
			w.f.c.add(Op{Kind: "append", Path: w.f.rel, Data: w.buf})
			w.buf = nil
		}
	}
	return n, err
}

func (w *seqWriter) Close() error {
	err := w.SeqWriter.Close()
	if err == nil {
		if len(w.buf) > 0 {
			w.f.c.add(Op{Kind: "append", Path: w.f.rel, Data: w.buf})
			w.buf = nil
		}
		w.f.c.add(Op{Kind: "fsync", Path: w.f.rel})
	}
	return err
}

// ---------------------------------------------------------------------------------------------
// images
// ---------------------------------------------------------------------------------------------

type node struct {
	dir  bool
	data []byte
}

type tree map[string]*node

func (t tree) children(dir string) []string {
	var out []string
	for p := range t {
		if p != "." && filepath.Dir(p) == dir {
			out = append(out, p)
		}
	}
	sort.Strings(out)
	return out
}

func (t tree) removeSubtree(p string) {
	for q := range t {
		if q == p || strings.HasPrefix(q, p+string(filepath.Separator)) {
			delete(t, q)
		}
	}
}

func (t tree) moveSubtree(a, b string) {
	moved := map[string]*node{}
	for q, n := range t {
		if q == a {
			moved[b] = n
			delete(t, q)
		} else if strings.HasPrefix(q, a+string(filepath.Separator)) {
			moved[b+q[len(a):]] = n
			delete(t, q)
		}
	}
	t.removeSubtree(b)
	for q, n := range moved {
		t[q] = n
	}
}

// Image replays log[:k] and returns the volatile (Kill9) and the durable (PowerLoss) tree.
func Image(log []Op, k int) (kill9, powerLoss map[string][]byte, dirs9, dirsPL []string) {
	vol := tree{".": {dir: true}}
	dur := tree{".": {dir: true}}
	synced := map[string][]byte{} // last fsynced content per current path
	hasSync := map[string]bool{}
	for _, op := range log[:k] {
		switch op.Kind {
		case "mkdir":
			vol[op.Path] = &node{dir: true}
		case "create":
			vol[op.Path] = &node{}
			delete(synced, op.Path)
			delete(hasSync, op.Path)
		case "append":
			if n := vol[op.Path]; n != nil {
				n.data = append(n.data, op.Data...)
			}
		case "fsync":
			if n := vol[op.Path]; n != nil {
				synced[op.Path] = append([]byte(nil), n.data...)
				hasSync[op.Path] = true
				if d := dur[op.Path]; d != nil && !d.dir {
					d.data = synced[op.Path]
				}
			}
		case "rename":
			vol.moveSubtree(op.Path, op.To)
			for q := range synced {
				if q == op.Path || strings.HasPrefix(q, op.Path+string(filepath.Separator)) {
					nq := op.To + q[len(op.Path):]
					synced[nq], hasSync[nq] = synced[q], hasSync[q]
					delete(synced, q)
					delete(hasSync, q)
				}
			}
		case "remove", "rmall":
			vol.removeSubtree(op.Path)
		case "syncdir":
			d := op.Path
			if _, ok := vol[d]; !ok {
				continue
			}
			// entries of d become durable exactly as they are now
			want := map[string]bool{}
			for _, c := range vol.children(d) {
				want[c] = true
				if vol[c].dir {
					if dur[c] == nil || !dur[c].dir {
						dur.removeSubtree(c)
						dur[c] = &node{dir: true}
					}
				} else {
					var data []byte
					if hasSync[c] {
						data = synced[c]
					}
					dur.removeSubtree(c)
					dur[c] = &node{data: data}
				}
			}
			for _, c := range dur.children(d) {
				if !want[c] {
					dur.removeSubtree(c)
				}
			}
		}
	}
	flat := func(t tree) (map[string][]byte, []string) {
		files := map[string][]byte{}
		var dirs []string
		for p, n := range t {
			// reachable only if every ancestor exists
			ok := true
			for a := filepath.Dir(p); a != "."; a = filepath.Dir(a) {
				if an := t[a]; an == nil || !an.dir {
					ok = false
					break
				}
			}
			if !ok || p == "." {
				continue
			}
			if n.dir {
				dirs = append(dirs, p)
			} else {
				files[p] = n.data
			}
		}
		sort.Strings(dirs)
		return files, dirs
	}
	kill9, dirs9 = flat(vol)
	powerLoss, dirsPL = flat(dur)
	return
}

// Materialise writes an image into dst (which must not exist).
func Materialise(dst string, files map[string][]byte, dirs []string) error {
	if err := os.MkdirAll(dst, 0o755); err != nil {
		return err
	}
	for _, d := range dirs {
		if err := os.MkdirAll(filepath.Join(dst, d), 0o755); err != nil {
			return err
		}
	}
	for p, b := range files {
		if err := os.MkdirAll(filepath.Dir(filepath.Join(dst, p)), 0o755); err != nil {
			return err
		}
		if err := os.WriteFile(filepath.Join(dst, p), b, 0o600); err != nil {
			return fmt.Errorf("materialise %s: %w", p, err)
		}
	}
	return nil
}
