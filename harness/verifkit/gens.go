package verifkit

import (
	"math"

	"pgregory.net/rapid"
)

// HostileInt64 is the pool of boundary integers mixed into every int64 generator.
var HostileInt64 = []int64{
	0, 1, -1, 2, -2, 127, 128, -128, -129, 255, 256, -255, -256, 0x5c, 0x7c, -0x5c, -0x7c, 0x7c7c7c7c7c7c7c7c, 0x5c5c5c5c5c5c5c5c,
	1 << 31, -(1 << 31), 1<<31 - 1, 1 << 32, -(1 << 32), 1 << 53, 1<<53 + 1, -(1 << 53), 1 << 62, -(1 << 62),
	math.MaxInt64, math.MaxInt64 - 1, math.MinInt64, math.MinInt64 + 1, 1000000, 1_000_000_000, 1_000_000_007,
}

// Int64 draws from the hostile pool, small ranges, powers of two +-1 and uniform values.
func Int64(t *rapid.T, label string) int64 {
	switch rapid.IntRange(0, 5).Draw(t, label+"/k") {
	case 0:
		return rapid.SampledFrom(HostileInt64).Draw(t, label)
	case 1:
		return int64(rapid.IntRange(-300, 300).Draw(t, label))
	case 2:
		sh := rapid.IntRange(0, 63).Draw(t, label+"/sh")
		d := int64(rapid.IntRange(-2, 2).Draw(t, label+"/d"))
		v := int64(uint64(1)<<uint(sh)) + d
		if rapid.Bool().Draw(t, label+"/neg") {
			v = -v
		}
		return v
	default:
		return rapid.Int64().Draw(t, label)
	}
}

// HostileFloatBits is the pool of boundary float64 bit patterns.
var HostileFloatBits = []uint64{
	0, 0x8000000000000000, // +0, -0
	math.Float64bits(1), math.Float64bits(-1), math.Float64bits(0.1), math.Float64bits(-0.1), math.Float64bits(0.3),
	math.Float64bits(math.Inf(1)), math.Float64bits(math.Inf(-1)),
	math.Float64bits(math.MaxFloat64), math.Float64bits(-math.MaxFloat64),
	math.Float64bits(math.SmallestNonzeroFloat64), math.Float64bits(-math.SmallestNonzeroFloat64),
	0x000FFFFFFFFFFFFF, 0x0010000000000000, 0x800FFFFFFFFFFFFF, 0x8010000000000000, // subnormal/normal edge
	math.Float64bits(9007199254740992), math.Float64bits(9007199254740993), math.Float64bits(-9007199254740992),
	math.Float64bits(9223372036854775807), math.Float64bits(-9223372036854775808),
	math.Float64bits(0.9007203578948975), math.Float64bits(5.960464477539063e-08), math.Float64bits(1e22), math.Float64bits(1e23),
	math.Float64bits(1e-22), math.Float64bits(1e-23), math.Float64bits(123456.789), math.Float64bits(1.7976931348623157e308),
	math.Float64bits(3.141592653589793), math.Float64bits(2.718281828459045), math.Float64bits(1e15), math.Float64bits(1e16),
	math.Float64bits(99.99), math.Float64bits(-99.99), math.Float64bits(0.5), math.Float64bits(0.25),
}

// FloatBits draws float64 bit patterns; withNaN allows NaN payloads.
func FloatBits(t *rapid.T, label string, withNaN bool) uint64 {
	for {
		var b uint64
		switch rapid.IntRange(0, 6).Draw(t, label+"/k") {
		case 0, 1:
			b = rapid.SampledFrom(HostileFloatBits).Draw(t, label)
		case 2: // decimal with few digits: m * 10^-e
			m := int64(rapid.IntRange(-99999, 99999).Draw(t, label+"/m"))
			e := rapid.IntRange(0, 6).Draw(t, label+"/e")
			b = math.Float64bits(float64(m) / math.Pow10(e))
		case 3: // integers as floats
			b = math.Float64bits(float64(Int64(t, label+"/i")))
		case 4: // neighbours of a hostile value
			h := rapid.SampledFrom(HostileFloatBits).Draw(t, label+"/h")
			d := uint64(rapid.IntRange(-3, 3).Draw(t, label+"/ulp"))
			b = h + d
		default:
			b = rapid.Uint64().Draw(t, label)
		}
		f := math.Float64frombits(b)
		if !withNaN && f != f {
			b &^= 0x7FF0000000000000 // clear the exponent: a subnormal/zero with the same mantissa
		}
		return b
	}
}

// HostileStrings are strings biased to the series-key delimiter and escape bytes.
var HostileStrings = []string{
	"", "|", "\\", "||", "\\\\", "\\|", "|\\", "a|b", "a\\b", "a|", "|a", "a\\", "\\a", "a\\|b", "*", "a", "b", "ab", "svc|a\\",
	"\x00", "\x01", "\x7c\x5c\x7c", "é", "日本", " ", "a b", "A", "null", "0", "-1",
}

// String draws hostile strings mixed with short random strings over a small alphabet that
// contains the delimiter and escape bytes.
func String(t *rapid.T, label string) string {
	switch rapid.IntRange(0, 3).Draw(t, label+"/k") {
	case 0:
		return rapid.SampledFrom(HostileStrings).Draw(t, label)
	case 1:
		return rapid.StringOfN(rapid.RuneFrom([]rune{'a', 'b', '|', '\\', 'c', 0, '*'}), 0, 6, -1).Draw(t, label)
	case 2:
		return rapid.StringN(0, 12, -1).Draw(t, label)
	default:
		return rapid.StringOfN(rapid.RuneFrom([]rune{'a', 'b', 'c', 'd'}), 0, 3, -1).Draw(t, label)
	}
}

// Bytes draws byte strings biased to 0x7c / 0x5c / 0x00.
func Bytes(t *rapid.T, label string, maxLen int) []byte {
	switch rapid.IntRange(0, 2).Draw(t, label+"/k") {
	case 0:
		return []byte(rapid.SampledFrom(HostileStrings).Draw(t, label))
	case 1:
		return rapid.SliceOfN(rapid.SampledFrom([]byte{0x7c, 0x5c, 0, 'a', 0xff, 1}), 0, maxLen).Draw(t, label)
	default:
		return rapid.SliceOfN(rapid.Byte(), 0, maxLen).Draw(t, label)
	}
}

// Sign returns -1, 0 or 1.
func Sign(x int) int {
	switch {
	case x < 0:
		return -1
	case x > 0:
		return 1
	}
	return 0
}
