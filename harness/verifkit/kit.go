// Package verifkit is the shared kit of the /verif property harnesses. It is injected into the
// build of /repo through `go test -overlay` (as .../skywalking-banyandb/verifkit) and is never
// part of the repository itself.
//
// A property is a pure function Check(ctx, Case) error over a JSON-serialisable Case. Run drives
// it from three front ends: committed replay files, a -verif.replay file, and rapid search.
package verifkit

import (
	"encoding/binary"
	"encoding/json"
	"flag"
	"fmt"
	"hash/fnv"
	"math"
	"os"
	"path/filepath"
	"runtime/debug"
	"sort"
	"strconv"
	"strings"
	"sync"
	"testing"
	"time"

	"pgregory.net/rapid"
)

var (
	replayFlag = flag.String("verif.replay", "", "replay a saved Case file (or every *.json in a directory) instead of searching")
	noSearch   = flag.Bool("verif.nosearch", false, "run only the committed replays and known-finding demonstrations")
)

// Ctx collects, for one evaluation, the labels and the non-triviality verdict.
type Ctx struct {
	labels     []string
	nontrivial bool
	notes      []string
	s          *stats
	ks         *KnownSet
}

// KnownActive reports whether a known-finding class is listed as unrepaired (so the check may
// skip the step that would hit it, counting the exclusion with KnownExcluded).
func (x *Ctx) KnownActive(key string) bool { return x != nil && x.ks.Active(key) }

// KnownExcluded counts one step skipped because it would hit an active known class.
func (x *Ctx) KnownExcluded(key string) {
	if x != nil {
		x.ks.Excluded(key)
	}
}

// Label tags the evaluation (histogram in the evidence file).
func (x *Ctx) Label(l string) {
	if x == nil {
		return
	}
	for _, e := range x.labels {
		if e == l {
			return
		}
	}
	x.labels = append(x.labels, l)
}

// LabelIf tags the evaluation when cond holds.
func (x *Ctx) LabelIf(cond bool, l string) {
	if cond {
		x.Label(l)
	}
}

// NonTrivial marks the evaluation as non-trivial by the property's stated rule.
func (x *Ctx) NonTrivial() {
	if x != nil {
		x.nontrivial = true
	}
}

// Notef attaches a free-text note that is printed with a violation.
func (x *Ctx) Notef(format string, args ...any) {
	if x != nil && len(x.notes) < 200 {
		x.notes = append(x.notes, fmt.Sprintf(format, args...))
	}
}

// Count adds n to a free counter reported in the evidence (e.g. crash images explored).
func (x *Ctx) Count(name string, n int) {
	if x == nil || x.s == nil {
		return
	}
	x.s.mu.Lock()
	x.s.Counters[name] += int64(n)
	x.s.mu.Unlock()
}

// Known is one known-finding class: a predicate over the Case (the identifying input class).
type Known[C any] struct {
	Key   string
	Match func(c C) bool
}

// Spec describes one unit of a property check.
type Spec[C any] struct {
	Property string // e.g. "C12"
	Unit     string // e.g. "float_order"
	Rule     string // generation + non-triviality rule, copied into the evidence
	Gen      func(t *rapid.T, k *KnownSet) C
	Check    func(x *Ctx, c C) error
	Known    []Known[C]
	// MinLabelFrac lists labels that must be present in at least this fraction of evaluations
	// (generator health). A miss makes the run inconclusive (exit 2), not a violation.
	MinLabelFrac map[string]float64
	// NoHash disables canonical-JSON hashing of non-trivial cases (for very hot loops the
	// caller then supplies HashOf).
	HashOf func(c C) uint64
	// SampleOf optionally renders a compact sample (default: the Case itself).
	SampleOf func(c C) any
	// CrashReplay keeps the case under evaluation on disk (units that run background goroutines of the
	// code under test): if the process dies with an unrecovered panic there, the driver reports the case.
	CrashReplay bool
}

// KnownSet tells generators which known-finding classes are active (listed with status
// "known" in known_findings.json), so they can construct around them, and counts exclusions.
type KnownSet struct {
	active map[string]bool
	s      *stats
}

// Active reports whether class key is a listed, unrepaired finding.
func (k *KnownSet) Active(key string) bool { return k != nil && k.active[key] }

// Excluded counts one draw that was steered away from an active known class.
func (k *KnownSet) Excluded(key string) {
	if k == nil || k.s == nil {
		return
	}
	k.s.mu.Lock()
	k.s.Excluded[key]++
	k.s.mu.Unlock()
}

type violation struct {
	Property string `json:"property"`
	Unit     string `json:"unit"`
	Replay   string `json:"replay"`
	Message  string `json:"message"`
}

type knownLine struct {
	Property string `json:"property"`
	Key      string `json:"key"`
	What     string `json:"what"`
}

type stats struct {
	mu          sync.Mutex
	Property    string            `json:"property"`
	Unit        string            `json:"unit"`
	Shard       int               `json:"shard"`
	Seed        uint64            `json:"seed"`
	Tier        string            `json:"tier"`
	Rule        string            `json:"rule"`
	Evaluations int64             `json:"evaluations"`
	NonTrivial  int64             `json:"nontrivial_evaluations"`
	Distinct    int64             `json:"distinct_nontrivial"`
	Labels      map[string]int64  `json:"labels"`
	Counters    map[string]int64  `json:"counters"`
	Excluded    map[string]int64  `json:"excluded_known"`
	KnownHits   map[string]int64  `json:"known_hits"`
	Replays     int64             `json:"replays_run"`
	Samples     []json.RawMessage `json:"samples"`
	Violations  []violation       `json:"violations"`
	KnownLines  []knownLine       `json:"known_findings"`
	Health      []string          `json:"health_failures"`
	WallS       float64           `json:"wall_s"`
	Completed   bool              `json:"completed"`
	hashes      map[uint64]struct{}
	seen        int64
}

type knownEntry struct {
	Property string `json:"property"`
	Key      string `json:"key"`
	Status   string `json:"status"` // "known" | "fixed"
	What     string `json:"what"`
	Commit   string `json:"commit,omitempty"`
	// AlsoExcludedIn lists other properties whose generators construct around this class (their
	// harnesses share the code path); the finding itself is demonstrated under Property.
	AlsoExcludedIn []string `json:"also_excluded_in,omitempty"`
}

func loadKnown(property string) map[string]knownEntry {
	out := map[string]knownEntry{}
	p := os.Getenv("VERIF_KNOWN")
	if p == "" {
		return out
	}
	b, err := os.ReadFile(p)
	if err != nil {
		return out
	}
	var f struct {
		Findings []knownEntry `json:"findings"`
	}
	if err := json.Unmarshal(b, &f); err != nil {
		panic(fmt.Sprintf("verifkit: bad known findings file %s: %v", p, err))
	}
	for _, e := range f.Findings {
		if e.Property == property {
			out[e.Key] = e
			continue
		}
		for _, p := range e.AlsoExcludedIn {
			if p == property {
				out[e.Key] = e
			}
		}
	}
	return out
}

// Tier returns "quick" or "thorough".
func Tier() string {
	if t := os.Getenv("VERIF_TIER"); t != "" {
		return t
	}
	return "quick"
}

// Thorough reports whether the thorough tier is running.
func Thorough() bool { return Tier() == "thorough" }

// Scale picks a size by tier.
func Scale(quick, thorough int) int {
	if Thorough() {
		return thorough
	}
	return quick
}

func envInt(name string, def int) int {
	if v := os.Getenv(name); v != "" {
		if n, err := strconv.Atoi(v); err == nil {
			return n
		}
	}
	return def
}

func (s *stats) write() {
	dir := os.Getenv("VERIF_OUT")
	if dir == "" {
		return
	}
	s.mu.Lock()
	defer s.mu.Unlock()
	s.Distinct = int64(len(s.hashes))
	base := filepath.Join(dir, fmt.Sprintf("%s-%s-%d", s.Property, s.Unit, s.Shard))
	b, _ := json.MarshalIndent(s, "", " ")
	_ = os.WriteFile(base+".json", b, 0o644)
	hb := make([]byte, 0, 8*len(s.hashes))
	for h := range s.hashes {
		hb = binary.LittleEndian.AppendUint64(hb, h)
	}
	_ = os.WriteFile(base+".hashes", hb, 0o644)
}

func hashJSON(b []byte) uint64 {
	h := fnv.New64a()
	_, _ = h.Write(b)
	return h.Sum64()
}

const maxSample = 6000

func (s *stats) record(x *Ctx, caseJSON func() []byte, hashOf func() (uint64, bool), sample func() any) {
	s.mu.Lock()
	defer s.mu.Unlock()
	s.Evaluations++
	for _, l := range x.labels {
		s.Labels[l]++
	}
	if !x.nontrivial {
		return
	}
	s.NonTrivial++
	var h uint64
	if hv, ok := hashOf(); ok {
		h = hv
	} else {
		h = hashJSON(caseJSON())
	}
	if _, dup := s.hashes[h]; dup {
		return
	}
	if len(s.hashes) < 4_000_000 {
		s.hashes[h] = struct{}{}
	}
	// deterministic reservoir over distinct non-trivial cases (keyed by hash, no RNG)
	s.seen++
	if len(s.Samples) < 4 || h%uint64(s.seen) == 0 {
		var b []byte
		if sample != nil {
			b, _ = json.Marshal(sample())
		} else {
			b = caseJSON()
		}
		if len(b) > maxSample {
			tb, _ := json.Marshal(map[string]any{"truncated_case_json_prefix": string(b[:maxSample]), "full_len": len(b)})
			b = tb
		}
		if len(s.Samples) < 4 {
			s.Samples = append(s.Samples, b)
		} else {
			s.Samples[h%4] = b
		}
	}
}

// Run executes one unit: committed replays, known-finding demonstrations, then search.
func Run[C any](t *testing.T, spec Spec[C]) {
	t.Helper()
	start := time.Now()
	shard := envInt("VERIF_SHARD", 0)
	// driver self-test: die once without a verdict (the driver must retry the shard)
	if marker := os.Getenv("VERIF_SELFTEST_DIE_ONCE"); marker != "" && shard == 0 {
		if _, err := os.Stat(marker); err != nil {
			_ = os.WriteFile(marker, []byte("died"), 0o644)
			fmt.Println("fatal error: simulated death outside the code under test")
			os.Exit(2)
		}
	}
	known := loadKnown(spec.Property)
	s := &stats{
		Property: spec.Property, Unit: spec.Unit, Shard: shard, Tier: Tier(), Rule: spec.Rule,
		Labels: map[string]int64{}, Counters: map[string]int64{}, Excluded: map[string]int64{}, KnownHits: map[string]int64{},
		hashes: map[uint64]struct{}{},
	}
	if f := flag.Lookup("rapid.seed"); f != nil {
		s.Seed, _ = strconv.ParseUint(f.Value.String(), 10, 64)
	}
	ks := &KnownSet{active: map[string]bool{}, s: s}
	for k, e := range known {
		if e.Status == "known" {
			ks.active[k] = true
		}
	}
	defer func() {
		s.WallS = time.Since(start).Seconds()
		s.write()
	}()

	matchKnown := func(c C) string {
		for _, k := range spec.Known {
			if ks.active[k.Key] && k.Match(c) {
				return k.Key
			}
		}
		return ""
	}
	// CrashReplay: the case under evaluation is kept on disk so that the driver can name it if the process dies with an
	// unrecovered panic in a goroutine of the code under test (which no recover() of the harness can catch)
	inflight := ""
	if spec.CrashReplay && os.Getenv("VERIF_OUT") != "" {
		inflight = filepath.Join(os.Getenv("VERIF_OUT"), fmt.Sprintf("%s-%s-%d.inflight.json", spec.Property, spec.Unit, shard))
	}
	safeCheck := func(x *Ctx, c C) (err error) {
		if inflight != "" {
			if b, merr := json.MarshalIndent(c, "", " "); merr == nil {
				_ = os.WriteFile(inflight, b, 0o644)
			}
			defer os.Remove(inflight)
		}
		defer func() {
			if r := recover(); r != nil {
				err = fmt.Errorf("panic: %v\n%s", r, debug.Stack())
			}
		}()
		return spec.Check(x, c)
	}
	report := func(c C, x *Ctx, err error, origin string) {
		b, _ := json.MarshalIndent(c, "", " ")
		dir := filepath.Join(os.Getenv("VERIF_FOUND"), spec.Property)
		if os.Getenv("VERIF_FOUND") == "" {
			dir = filepath.Join(os.TempDir(), "verif-found", spec.Property)
		}
		_ = os.MkdirAll(dir, 0o755)
		p := filepath.Join(dir, fmt.Sprintf("%s-%016x.json", spec.Unit, hashJSON(b)))
		if origin != "" {
			p = origin // a replayed file is its own replay
		} else {
			_ = os.WriteFile(p, b, 0o644)
		}
		msg := err.Error()
		if len(x.notes) > 0 {
			msg += "\nnotes:\n  " + strings.Join(x.notes, "\n  ")
		}
		s.mu.Lock()
		s.Violations = append(s.Violations, violation{Property: spec.Property, Unit: spec.Unit, Replay: p, Message: msg})
		s.mu.Unlock()
		fmt.Printf("VIOLATION property=%s replay=%s\n", spec.Property, p)
		fmt.Printf("  unit=%s: %s\n", spec.Unit, msg)
	}

	replayFile := func(path string) (C, error) {
		var c C
		b, err := os.ReadFile(path)
		if err != nil {
			return c, err
		}
		if err := json.Unmarshal(b, &c); err != nil {
			return c, fmt.Errorf("%s: %w", path, err)
		}
		return c, nil
	}

	// 1. explicit replay
	if *replayFlag != "" {
		paths := []string{*replayFlag}
		if st, err := os.Stat(*replayFlag); err == nil && st.IsDir() {
			paths, _ = filepath.Glob(filepath.Join(*replayFlag, "*.json"))
		}
		failed := false
		for _, p := range paths {
			c, err := replayFile(p)
			if err != nil {
				t.Fatalf("replay: %v", err)
			}
			x := &Ctx{s: s, ks: ks}
			s.Replays++
			if err := safeCheck(x, c); err != nil {
				report(c, x, err, p)
				failed = true
			} else {
				fmt.Printf("REPLAY-OK property=%s unit=%s file=%s\n", spec.Property, spec.Unit, p)
			}
		}
		s.Completed = true
		if failed {
			t.FailNow()
		}
		return
	}

	// 2. committed replays: <VERIF_REPLAYS>/<Property>/<Unit>/*.json (must pass) and
	//    known-<key>.json (demonstrations of listed findings).
	failed := false
	if rd := os.Getenv("VERIF_REPLAYS"); rd != "" {
		paths, _ := filepath.Glob(filepath.Join(rd, spec.Property, spec.Unit, "*.json"))
		sort.Strings(paths)
		for _, p := range paths {
			c, err := replayFile(p)
			if err != nil {
				t.Fatalf("replay: %v", err)
			}
			x := &Ctx{s: s, ks: ks}
			base := filepath.Base(p)
			if strings.HasPrefix(base, "known-") {
				// a demonstration must hit the finding: run it with no class excluded
				x.ks = &KnownSet{active: map[string]bool{}, s: s}
			}
			s.Replays++
			err = safeCheck(x, c)
			if strings.HasPrefix(base, "known-") {
				key := strings.TrimSuffix(strings.TrimPrefix(base, "known-"), ".json")
				if i := strings.Index(key, "@"); i >= 0 {
					key = key[:i] // known-<key>@<n>.json: several demonstrations of one class
				}
				e, listed := known[key]
				switch {
				case err == nil:
					// the defect does not reproduce (repaired): nothing to print
				case listed && e.Status == "known":
					s.KnownLines = append(s.KnownLines, knownLine{Property: spec.Property, Key: key, What: e.What})
					fmt.Printf("KNOWN-FINDING: property=%s key=%s %s\n", spec.Property, key, e.What)
					first := err.Error()
					if i := strings.IndexByte(first, '\n'); i >= 0 {
						first = first[:i]
					}
					fmt.Printf("  demonstrated by %s: %s\n", p, first)
				default:
					// not listed, or listed as fixed and it is back
					report(c, x, err, p)
					failed = true
				}
				continue
			}
			if err != nil {
				if k := matchKnown(c); k != "" {
					s.KnownHits[k]++
					continue
				}
				report(c, x, err, p)
				failed = true
			}
		}
	}
	if failed {
		s.Completed = true
		t.FailNow()
	}
	if *noSearch || spec.Gen == nil {
		s.Completed = true
		return
	}

	// 3. search
	var (
		lastCase  C
		lastCtx   *Ctx
		lastErr   error
		shrinking bool
	)
	searchDone := false
	defer func() {
		if searchDone {
			return
		}
		// rapid failed the test (FailNow => Goexit): the last failing evaluation is the shrunk one.
		if lastErr != nil {
			report(lastCase, lastCtx, lastErr, "")
		} else {
			s.Health = append(s.Health, "search aborted without a recorded failing case (generator error or panic outside Check)")
		}
		s.Completed = true
		s.WallS = time.Since(start).Seconds()
		s.write()
	}()
	rapid.Check(t, func(rt *rapid.T) {
		c := spec.Gen(rt, ks)
		x := &Ctx{s: s, ks: ks}
		err := safeCheck(x, c)
		if err != nil {
			if k := matchKnown(c); k != "" {
				s.mu.Lock()
				s.KnownHits[k]++
				s.mu.Unlock()
				return
			}
			lastCase, lastCtx, lastErr = c, x, err
			if _, fatal := err.(*FatalGuard); fatal {
				// a runaway call cannot be stopped: report the (unshrunk) case and end the process
				report(c, x, err, "")
				s.Completed = true
				s.WallS = time.Since(start).Seconds()
				s.write()
				os.Exit(1)
			}
			shrinking = true
			rt.Fatalf("%v", err)
		}
		if shrinking {
			return // evaluations made while shrinking are not search coverage
		}
		var cj []byte
		s.record(x,
			func() []byte {
				if cj == nil {
					cj, _ = json.Marshal(c)
				}
				return cj
			},
			func() (uint64, bool) {
				if spec.HashOf != nil {
					return spec.HashOf(c), true
				}
				return 0, false
			},
			func() any {
				if spec.SampleOf != nil {
					return spec.SampleOf(c)
				}
				return c
			})
	})
	searchDone = true
	s.Completed = true
	// generator health
	for l, frac := range spec.MinLabelFrac {
		n := float64(max64(s.Evaluations, 1))
		got := float64(s.Labels[l]) / n
		// The minimum describes the generator's distribution; a shard of n cases observes it with sampling noise. A miss is
		// reported only when the observed fraction lies more than four standard errors below the minimum (a generator that
		// lost the class altogether is still caught: for n = 30 and a minimum of 0.3 the bar is 0, i.e. "never seen", for
		// n = 1000 it is 0.24).
		bar := frac - 4*math.Sqrt(frac*(1-frac)/n)
		// With a bar at or below zero only "never seen" can count, and only when that is as unlikely under the minimum as the four
		// standard errors above (a shard that an overloaded machine stopped after a handful of cases proves nothing about the generator).
		if (bar > 0 && got < bar) || (bar <= 0 && s.Labels[l] == 0 && math.Pow(1-frac, n) < 1e-4) {
			s.Health = append(s.Health, fmt.Sprintf("label %q in %.4f of %d evaluations, need >= %.4f (bar %.4f)", l, got, int64(n), frac, bar))
		}
	}
	if len(s.Health) > 0 {
		fmt.Printf("INCONCLUSIVE property=%s unit=%s generator health: %s\n", spec.Property, spec.Unit, strings.Join(s.Health, "; "))
	}
}

func max64(a, b int64) int64 {
	if a > b {
		return a
	}
	return b
}

// Failf builds a violation error.
func Failf(format string, args ...any) error { return fmt.Errorf(format, args...) }
