package stream

import (
	"fmt"
	"os"
	"testing"
	"time"

	"pgregory.net/rapid"

	"github.com/apache/skywalking-banyandb/verifkit"
)

// C05 (stream shard tables): a reader that pinned a table's snapshot keeps every part of it - the files of
// parts replaced by a merge are deleted only after the last reader of a snapshot containing them has
// finished, and then they are - while unpinned queries always see every acknowledged element.

type sPin struct {
	snap  *snapshot
	dirs  map[uint64]string
	rows  uint64
	count int // merges at pin time
}

func runStreamPins(x *verifkit.Ctx, c sSnapCase) (pinned int, across bool, err error) {
	e, nerr := newSEnv(c.Cfg)
	if nerr != nil {
		return 0, false, nerr
	}
	defer e.close()
	pins := map[int][]*sPin{}
	defer func() {
		for _, ps := range pins {
			for _, p := range ps {
				p.snap.decRef()
			}
		}
	}()
	var all []sElem
	merges := 0
	replaced := map[string]bool{}
	q := sQuery{Limit: 100000, From: -1, To: 5 * 3600 * 1000}
	fileParts := func() map[uint64]string {
		out := map[uint64]string{}
		for _, tb := range e.tablesCopy() {
			if s := tb.tst.currentSnapshot(); s != nil {
				for _, pw := range s.parts {
					if pw.mp == nil {
						out[pw.ID()<<8|uint64(len(tb.root)%251)] = pw.p.path
					}
				}
				s.decRef()
			}
		}
		return out
	}
	release := func(slot int, what string) error {
		for _, p := range pins[slot] {
			var rows uint64
			for _, pw := range p.snap.parts {
				if d := p.dirs[pw.ID()]; d != "" {
					if _, serr := os.Stat(d); serr != nil {
						p.snap.decRef()
						return fmt.Errorf("%s: the directory of part %d of a pinned snapshot was deleted while the snapshot is still held: %v", what, pw.ID(), serr)
					}
				}
				rows += pw.p.partMetadata.TotalCount
			}
			if rows != p.rows {
				p.snap.decRef()
				return fmt.Errorf("%s: the pinned snapshot held %d rows at its pin and holds %d now", what, p.rows, rows)
			}
			p.snap.decRef()
			pinned++
			if merges > p.count {
				across = true
			}
		}
		delete(pins, slot)
		return nil
	}
	for i, op := range c.Ops {
		what := fmt.Sprintf("op %d (%s)", i, op.Kind)
		switch op.Kind {
		case "write":
			e.write(op.Elems)
			all = append(all, op.Elems...)
		case "flush":
			e.flushAll()
		case "merge":
			before := fileParts()
			n, merr := e.mergeFiles(op.Pick)
			if merr != nil {
				return pinned, across, fmt.Errorf("%s: %v", what, merr)
			}
			if n > 0 {
				merges += n
				after := fileParts()
				for k, d := range before {
					if _, ok := after[k]; !ok {
						replaced[d] = true
					}
				}
			}
		case "pin":
			slot := op.Pick[0]
			if pins[slot] != nil {
				continue
			}
			for _, tb := range e.tablesCopy() {
				s := tb.tst.currentSnapshot()
				if s == nil {
					continue
				}
				p := &sPin{snap: s, dirs: map[uint64]string{}, count: merges}
				for _, pw := range s.parts {
					if pw.mp == nil {
						p.dirs[pw.ID()] = pw.p.path
					}
					p.rows += pw.p.partMetadata.TotalCount
				}
				pins[slot] = append(pins[slot], p)
			}
			continue
		case "unpin":
			if rerr := release(op.Pick[0], what); rerr != nil {
				return pinned, across, rerr
			}
			continue
		}
		got, qerr := e.query(q)
		if qerr != nil {
			return pinned, across, fmt.Errorf("%s: query failed: %v", what, qerr)
		}
		if len(got) != len(all) {
			return pinned, across, fmt.Errorf("%s: the database serves %d elements, %d were acknowledged", what, len(got), len(all))
		}
	}
	for slot := range pins {
		if rerr := release(slot, "final release"); rerr != nil {
			return pinned, across, rerr
		}
	}
	deadline := time.Now().Add(5 * time.Second)
	for d := range replaced {
		for {
			if _, serr := os.Stat(d); serr != nil {
				break
			}
			if time.Now().After(deadline) {
				return pinned, across, fmt.Errorf("the directory %s of a part replaced by a merge is still on disk 5 s after the last reader released its snapshot", d)
			}
			time.Sleep(20 * time.Millisecond)
		}
	}
	return pinned, across, nil
}

func TestVerifC05Stream(t *testing.T) {
	verifkit.Run(t, verifkit.Spec[sSnapCase]{
		Property: "C05", Unit: "stream_pins", CrashReplay: true,
		Rule: "the real stream engine below gRPC (write callback, TSDB, shard tables with the real introducer, generated index rules): 2..5 write batches with generated " +
			"flushes and merges of chosen parts, while up to 3 readers pin the tables' current snapshots and release them any number of steps later; oracle: the part " +
			"directories of a pinned snapshot exist and hold the same rows until it is released, a full-range query through the real planner returns every " +
			"acknowledged element after every step, and once every reader is released the directories of merged-away parts disappear; non-trivial = a reader " +
			"pinned across a merge",
		Gen: func(t *rapid.T, _ *verifkit.KnownSet) sSnapCase {
			c := sSnapCase{Cfg: sIndexCfg{Status: rapid.SampledFrom([]string{"none", "inverted", "skipping"}).Draw(t, "cfg/status"), Code: "inverted", Dur: "none", Labels: "none"}}
			id := 0
			for b := rapid.IntRange(2, 5).Draw(t, "batches"); b > 0; b-- {
				op := sSnapOp{Kind: "write"}
				for i := rapid.IntRange(1, 8).Draw(t, "n"); i > 0; i-- {
					id++
					op.Elems = append(op.Elems, genElem(t, id, 2, false))
				}
				c.Ops = append(c.Ops, op)
				for k := rapid.IntRange(0, 4).Draw(t, "nsteps"); k > 0; k-- {
					switch rapid.SampledFrom([]string{"flush", "flush", "merge", "merge", "pin", "pin", "unpin"}).Draw(t, "kind") {
					case "merge":
						c.Ops = append(c.Ops, sSnapOp{Kind: "merge", Pick: rapid.SliceOfN(rapid.IntRange(0, 5), 2, 4).Draw(t, "pick")})
					case "pin":
						c.Ops = append(c.Ops, sSnapOp{Kind: "pin", Pick: []int{rapid.IntRange(1, 3).Draw(t, "slot")}})
					case "unpin":
						c.Ops = append(c.Ops, sSnapOp{Kind: "unpin", Pick: []int{rapid.IntRange(1, 3).Draw(t, "uslot")}})
					default:
						c.Ops = append(c.Ops, sSnapOp{Kind: "flush"})
					}
				}
			}
			c.Ops = append(c.Ops, sSnapOp{Kind: "flush"}, sSnapOp{Kind: "merge", Pick: []int{0, 1, 2}})
			return c
		},
		Check: func(x *verifkit.Ctx, c sSnapCase) error {
			pinned, across, err := runStreamPins(x, c)
			if err != nil {
				return err
			}
			x.LabelIf(pinned > 0, "pinned reader")
			x.LabelIf(across, "reader pinned across a merge")
			if across {
				x.NonTrivial()
			}
			return nil
		},
		MinLabelFrac: map[string]float64{"pinned reader": 0.5, "reader pinned across a merge": 0.2},
	})
}
