package stream

import (
	"context"
	"encoding/hex"
	"fmt"
	"io"
	"os"
	"path/filepath"
	"runtime/debug"
	"sort"
	"strings"
	"sync"
	"time"

	"google.golang.org/protobuf/types/known/timestamppb"

	"github.com/apache/skywalking-banyandb/api/common"
	commonv1 "github.com/apache/skywalking-banyandb/api/proto/banyandb/common/v1"
	databasev1 "github.com/apache/skywalking-banyandb/api/proto/banyandb/database/v1"
	modelv1 "github.com/apache/skywalking-banyandb/api/proto/banyandb/model/v1"
	streamv1 "github.com/apache/skywalking-banyandb/api/proto/banyandb/stream/v1"
	"github.com/apache/skywalking-banyandb/banyand/internal/storage"
	"github.com/apache/skywalking-banyandb/banyand/protector"
	"github.com/apache/skywalking-banyandb/pkg/bus"
	"github.com/apache/skywalking-banyandb/pkg/convert"
	"github.com/apache/skywalking-banyandb/pkg/fs"
	"github.com/apache/skywalking-banyandb/pkg/idgen"
	"github.com/apache/skywalking-banyandb/pkg/logger"
	"github.com/apache/skywalking-banyandb/pkg/query/executor"
	"github.com/apache/skywalking-banyandb/pkg/query/logical"
	logicalstream "github.com/apache/skywalking-banyandb/pkg/query/logical/stream"
	vstream "github.com/apache/skywalking-banyandb/pkg/query/vectorized/stream"
	"github.com/apache/skywalking-banyandb/pkg/run"
	resourceSchema "github.com/apache/skywalking-banyandb/pkg/schema"
	"github.com/apache/skywalking-banyandb/pkg/timestamp"
	"github.com/apache/skywalking-banyandb/pkg/watcher"
)

// Stream kit: a real stream engine below the gRPC layer. Writes go through the real write callback
// (writeCallback.Rev -> processElements: element index documents, skipping-index markers, series
// index), storage is a real TSDB (segments, series index) whose stream tsTables are created without
// their flusher/merger loops: the harness calls flush / merge on chosen parts, so a history is a
// replayable sequence. Queries go through the real planner (logical/stream.Analyze + Execute) with
// the stream itself as execution context, exactly as banyand/query/processor.go does.

var sLogOnce sync.Once

func sInitLog() {
	sLogOnce.Do(func() { _ = logger.Init(logger.Logging{Env: "dev", Level: "error"}) })
}

const (
	sGroup      = "verif-g"
	sName       = "verif-s"
	sBaseMillis = int64(1_700_000_000_000) // 2023-11-14T22:13:20Z: offsets > 1h46m fall into the next day segment
)

func sTS(offMs int64) int64 { return (sBaseMillis + offMs) * int64(time.Millisecond) }

// sElem is one stream element. Tags: svc (entity, string), status (string, nullable), code (int),
// dur (int, nullable), labels (string array, nullable).
type sElem struct {
	Svc      int      `json:"svc"`
	T        int64    `json:"t"` // ms offset from the base
	ID       int      `json:"id"`
	Status   string   `json:"status,omitempty"`
	StatusNl bool     `json:"status_null,omitempty"`
	Code     int64    `json:"code"`
	Dur      int64    `json:"dur,omitempty"`
	DurNl    bool     `json:"dur_null,omitempty"`
	Labels   []string `json:"labels,omitempty"`
	LabelsNl bool     `json:"labels_null,omitempty"`
}

func (e sElem) elementID() string { return fmt.Sprintf("e%d", e.ID) }

// sIndexCfg: per tag "none" | "inverted" | "skipping".
type sIndexCfg struct {
	Status string `json:"status"`
	Code   string `json:"code"`
	Dur    string `json:"dur"`
	Labels string `json:"labels"`
}

var sTagOrder = []string{"status", "code", "dur", "labels"}

func (c sIndexCfg) of(tag string) string {
	switch tag {
	case "status":
		return c.Status
	case "code":
		return c.Code
	case "dur":
		return c.Dur
	case "labels":
		return c.Labels
	}
	return "none"
}

func sSchema() *databasev1.Stream {
	return &databasev1.Stream{
		Metadata: &commonv1.Metadata{Name: sName, Group: sGroup},
		TagFamilies: []*databasev1.TagFamilySpec{{Name: "searchable", Tags: []*databasev1.TagSpec{
			{Name: "svc", Type: databasev1.TagType_TAG_TYPE_STRING},
			{Name: "status", Type: databasev1.TagType_TAG_TYPE_STRING},
			{Name: "code", Type: databasev1.TagType_TAG_TYPE_INT},
			{Name: "dur", Type: databasev1.TagType_TAG_TYPE_INT},
			{Name: "labels", Type: databasev1.TagType_TAG_TYPE_STRING_ARRAY},
		}}},
		Entity: &databasev1.Entity{TagNames: []string{"svc"}},
	}
}

func (c sIndexCfg) rules() []*databasev1.IndexRule {
	var out []*databasev1.IndexRule
	for i, tag := range sTagOrder {
		typ := databasev1.IndexRule_TYPE_UNSPECIFIED
		switch c.of(tag) {
		case "inverted":
			typ = databasev1.IndexRule_TYPE_INVERTED
		case "skipping":
			typ = databasev1.IndexRule_TYPE_SKIPPING
		default:
			continue
		}
		out = append(out, &databasev1.IndexRule{
			Metadata: &commonv1.Metadata{Name: "idx-" + tag, Group: sGroup, Id: uint32(i + 1)},
			Tags:     []string{tag}, Type: typ,
		})
	}
	return out
}

// ---- schema repository stand-in (only what the write callback and the stream use) ----

type sFakeRepo struct {
	resourceSchema.Repository
	stm *stream
	db  io.Closer
}

type sFakeResource struct{ stm *stream }

func (r sFakeResource) Schema() resourceSchema.ResourceSchema   { return r.stm.schema }
func (r sFakeResource) Delegated() resourceSchema.IndexListener { return r.stm }

type sFakeGroup struct{ db io.Closer }

func (g sFakeGroup) GetSchema() *commonv1.Group {
	return &commonv1.Group{Metadata: &commonv1.Metadata{Name: sGroup}}
}
func (g sFakeGroup) SupplyTSDB() io.Closer { return g.db }

func (f *sFakeRepo) LoadResource(md *commonv1.Metadata) (resourceSchema.Resource, bool) {
	if md.GetName() != sName || md.GetGroup() != sGroup {
		return nil, false
	}
	return sFakeResource{f.stm}, true
}

func (f *sFakeRepo) LoadGroup(name string) (resourceSchema.Group, bool) {
	if name != sGroup {
		return nil, false
	}
	return sFakeGroup{f.db}, true
}

// ---- environment ----

type sTable struct {
	tst     *tsTable
	flushCh chan *flusherIntroduction
	mergeCh chan *mergerIntroduction
	root    string
}

type sEnv struct {
	dir     string
	cfg     sIndexCfg
	db      storage.TSDB[*tsTable, option]
	stm     *stream
	repo    *schemaRepo
	wcb     *writeCallback
	tables  []*sTable
	creator storage.TSTableCreator[*tsTable, option]
	fake    *sFakeRepo
	mu      sync.Mutex
	msgID   uint64
	// wrapFS, when set, substitutes the file system a shard table is opened with (crash logging)
	wrapFS func(fs.FileSystem, string) fs.FileSystem
}

func newSEnv(cfg sIndexCfg) (*sEnv, error) {
	sInitLog()
	dir, err := os.MkdirTemp("", "verif-stream-")
	if err != nil {
		return nil, err
	}
	e := &sEnv{dir: dir, cfg: cfg}
	creator := func(fileSystem fs.FileSystem, root string, p common.Position, l *logger.Logger, _ timestamp.TimeRange, opt option, m any) (*tsTable, error) {
		if e.wrapFS != nil {
			fileSystem = e.wrapFS(fileSystem, root)
		}
		tst, epoch, ierr := initTSTable(fileSystem, root, p, l, opt, m, true)
		if ierr != nil {
			return nil, ierr
		}
		tst.loopCloser = run.NewCloser(2)
		tst.introductions = make(chan *introduction)
		tb := &sTable{tst: tst, flushCh: make(chan *flusherIntroduction), mergeCh: make(chan *mergerIntroduction), root: root}
		w := make(watcher.Channel, 1)
		go tst.introducerLoop(tb.flushCh, tb.mergeCh, w, epoch+1)
		e.mu.Lock()
		e.tables = append(e.tables, tb)
		e.mu.Unlock()
		return tst, nil
	}
	e.creator = creator
	if err := e.openDB(); err != nil {
		os.RemoveAll(dir)
		return nil, err
	}
	l := logger.GetLogger("verif-stream")
	e.stm = &stream{schema: sSchema(), l: l, pm: protector.Nop{}}
	e.stm.parseSpec()
	e.stm.OnIndexUpdate(cfg.rules())
	e.stm.tsdb.Store(e.db)
	e.fake = &sFakeRepo{stm: e.stm, db: e.db}
	e.repo = &schemaRepo{Repository: e.fake, l: l, idGen: idgen.NewGenerator("verif", l), path: dir}
	e.stm.schemaRepo = e.repo
	e.wcb = &writeCallback{l: l, schemaRepo: e.repo, maxDiskUsagePercent: 100}
	return e, nil
}

func (e *sEnv) openDB() error {
	opts := storage.TSDBOpts[*tsTable, option]{
		ShardNum: 1, Location: filepath.Join(e.dir, "db"), TSTableCreator: e.creator,
		SegmentInterval: storage.IntervalRule{Unit: storage.DAY, Num: 1}, TTL: storage.IntervalRule{Unit: storage.DAY, Num: 3650},
		DisableRetention: true, DisableRotation: true, SeriesIndexFlushTimeoutSeconds: 1,
		Option: option{mergePolicy: newDefaultMergePolicyForTesting(), protector: protector.Nop{}, elementIndexFlushTimeout: time.Second},
	}
	db, err := storage.OpenTSDB(common.SetPosition(context.Background(), func(p common.Position) common.Position {
		p.Module, p.Database = "stream", sGroup
		return p
	}), opts, nil, sGroup)
	if err != nil {
		return err
	}
	e.db = db
	return nil
}

// reopen flushes every memory part (a graceful shutdown persists them), closes the database and opens
// it again from the same directory.
func (e *sEnv) reopen() error {
	e.flushAll()
	if err := e.db.Close(); err != nil {
		return err
	}
	e.mu.Lock()
	e.tables = nil
	e.mu.Unlock()
	if err := e.openDB(); err != nil {
		return err
	}
	e.stm.tsdb.Store(e.db)
	e.fake.db = e.db
	return nil
}

func (e *sEnv) close() {
	if e.db != nil {
		_ = e.db.Close()
	}
	os.RemoveAll(e.dir)
}

func strTV(s string) *modelv1.TagValue {
	return &modelv1.TagValue{Value: &modelv1.TagValue_Str{Str: &modelv1.Str{Value: s}}}
}

func intTV(i int64) *modelv1.TagValue {
	return &modelv1.TagValue{Value: &modelv1.TagValue_Int{Int: &modelv1.Int{Value: i}}}
}

func strArrTV(s []string) *modelv1.TagValue {
	return &modelv1.TagValue{Value: &modelv1.TagValue_StrArray{StrArray: &modelv1.StrArray{Value: s}}}
}

func intArrTV(s []int64) *modelv1.TagValue {
	return &modelv1.TagValue{Value: &modelv1.TagValue_IntArray{IntArray: &modelv1.IntArray{Value: s}}}
}

var nullTV = &modelv1.TagValue{Value: &modelv1.TagValue_Null{}}

func svcName(i int) string { return fmt.Sprintf("svc-%d", i) }

// write sends one batch through the real write callback (one bus message = one gRPC write stream flush).
func (e *sEnv) write(batch []sElem) {
	if len(batch) == 0 {
		return
	}
	events := make([]any, 0, len(batch))
	for i, el := range batch {
		tags := []*modelv1.TagValue{strTV(svcName(el.Svc)), nullTV, intTV(el.Code), nullTV, nullTV}
		if !el.StatusNl {
			tags[1] = strTV(el.Status)
		}
		if !el.DurNl {
			tags[3] = intTV(el.Dur)
		}
		if !el.LabelsNl {
			tags[4] = strArrTV(el.Labels)
		}
		e.msgID++
		req := &streamv1.WriteRequest{
			Element: &streamv1.ElementValue{
				ElementId: el.elementID(), Timestamp: timestamppb.New(time.Unix(0, sTS(el.T))),
				TagFamilies: []*modelv1.TagFamilyForWrite{{Tags: tags}},
			},
			MessageId: e.msgID,
		}
		if i == 0 {
			req.Metadata = &commonv1.Metadata{Name: sName, Group: sGroup}
		}
		events = append(events, &streamv1.InternalWriteRequest{ShardId: 0, EntityValues: []*modelv1.TagValue{strTV(svcName(el.Svc))}, Request: req})
	}
	e.wcb.Rev(context.Background(), bus.NewMessage(bus.MessageID(e.msgID), events))
}

func (e *sEnv) tablesCopy() []*sTable {
	e.mu.Lock()
	defer e.mu.Unlock()
	return append([]*sTable(nil), e.tables...)
}

// flushAll flushes the memory parts of every table; returns the number of parts flushed.
func (e *sEnv) flushAll() int {
	n := 0
	for _, tb := range e.tablesCopy() {
		s := tb.tst.currentSnapshot()
		if s == nil {
			continue
		}
		k := 0
		for _, pw := range s.parts {
			if pw.mp != nil {
				k++
			}
		}
		if k > 0 {
			tb.tst.flush(s, tb.flushCh)
			n += k
		}
		s.decRef()
	}
	return n
}

// mergeFiles merges, in every table, the file parts selected by pick (indexes modulo the number of file
// parts); returns the number of merges done.
func (e *sEnv) mergeFiles(pick []int) (int, error) {
	merges := 0
	for _, tb := range e.tablesCopy() {
		s := tb.tst.currentSnapshot()
		if s == nil {
			continue
		}
		var files []*partWrapper
		for _, pw := range s.parts {
			if pw.mp == nil {
				files = append(files, pw)
			}
		}
		chosen := map[uint64]*partWrapper{}
		for _, p := range pick {
			if len(files) > 0 {
				pw := files[p%len(files)]
				chosen[pw.ID()] = pw
			}
		}
		if len(chosen) < 2 {
			s.decRef()
			continue
		}
		var pws []*partWrapper
		ids := map[uint64]struct{}{}
		for id, pw := range chosen {
			pws = append(pws, pw)
			ids[id] = struct{}{}
		}
		sort.Slice(pws, func(i, j int) bool { return pws[i].ID() < pws[j].ID() })
		closeCh := make(chan struct{})
		_, err := tb.tst.mergePartsThenSendIntroduction(snapshotCreatorMerger, pws, ids, tb.mergeCh, closeCh, "file")
		close(closeCh)
		s.decRef()
		if err != nil {
			return merges, err
		}
		merges++
	}
	return merges, nil
}

func (e *sEnv) partCounts() (mem, file int) {
	for _, tb := range e.tablesCopy() {
		s := tb.tst.currentSnapshot()
		if s == nil {
			continue
		}
		for _, pw := range s.parts {
			if pw.mp != nil {
				mem++
			} else {
				file++
			}
		}
		s.decRef()
	}
	return
}

// ---- queries ----

// sCrit is a criteria tree over the non-entity tags.
type sCrit struct {
	Op   string   `json:"op"` // and | or | cond
	L    *sCrit   `json:"l,omitempty"`
	R    *sCrit   `json:"r,omitempty"`
	Tag  string   `json:"tag,omitempty"`
	Cmp  string   `json:"cmp,omitempty"` // eq ne lt le gt ge in not_in having not_having
	Str  string   `json:"str,omitempty"`
	Int  int64    `json:"int,omitempty"`
	Strs []string `json:"strs,omitempty"`
	Ints []int64  `json:"ints,omitempty"`
}

type sQuery struct {
	Crit   *sCrit `json:"crit,omitempty"`
	Svcs   []int  `json:"svcs,omitempty"`  // entity condition: 1 = eq, >1 = in
	Order  string `json:"order,omitempty"` // "" | time | code (index rule idx-code)
	Desc   bool   `json:"desc,omitempty"`
	Limit  int    `json:"limit"`
	Offset int    `json:"offset"`
	From   int64  `json:"from"` // ms offsets, inclusive
	To     int64  `json:"to"`
}

var sCmpOp = map[string]modelv1.Condition_BinaryOp{
	"eq": modelv1.Condition_BINARY_OP_EQ, "ne": modelv1.Condition_BINARY_OP_NE, "lt": modelv1.Condition_BINARY_OP_LT,
	"le": modelv1.Condition_BINARY_OP_LE, "gt": modelv1.Condition_BINARY_OP_GT, "ge": modelv1.Condition_BINARY_OP_GE,
	"in": modelv1.Condition_BINARY_OP_IN, "not_in": modelv1.Condition_BINARY_OP_NOT_IN,
	"having": modelv1.Condition_BINARY_OP_HAVING, "not_having": modelv1.Condition_BINARY_OP_NOT_HAVING,
}

func (c *sCrit) proto() *modelv1.Criteria {
	if c == nil {
		return nil
	}
	if c.Op == "cond" {
		var v *modelv1.TagValue
		switch {
		case c.Cmp == "in" || c.Cmp == "not_in" || c.Cmp == "having" || c.Cmp == "not_having":
			if c.Tag == "code" || c.Tag == "dur" {
				v = intArrTV(c.Ints)
			} else {
				v = strArrTV(c.Strs)
			}
		case c.Tag == "code" || c.Tag == "dur":
			v = intTV(c.Int)
		default:
			v = strTV(c.Str)
		}
		return &modelv1.Criteria{Exp: &modelv1.Criteria_Condition{Condition: &modelv1.Condition{Name: c.Tag, Op: sCmpOp[c.Cmp], Value: v}}}
	}
	op := modelv1.LogicalExpression_LOGICAL_OP_AND
	if c.Op == "or" {
		op = modelv1.LogicalExpression_LOGICAL_OP_OR
	}
	return &modelv1.Criteria{Exp: &modelv1.Criteria_Le{Le: &modelv1.LogicalExpression{Op: op, Left: c.L.proto(), Right: c.R.proto()}}}
}

func (q sQuery) request() *streamv1.QueryRequest {
	req := &streamv1.QueryRequest{
		Groups: []string{sGroup}, Name: sName,
		TimeRange: &modelv1.TimeRange{Begin: timestamppb.New(time.Unix(0, sTS(q.From))), End: timestamppb.New(time.Unix(0, sTS(q.To)))},
		Offset:    uint32(q.Offset), Limit: uint32(q.Limit),
		Projection: &modelv1.TagProjection{TagFamilies: []*modelv1.TagProjection_TagFamily{{Name: "searchable", Tags: []string{"svc", "status", "code", "dur", "labels"}}}},
	}
	crit := q.Crit.proto()
	if len(q.Svcs) > 0 {
		var ent *modelv1.Criteria
		if len(q.Svcs) == 1 {
			ent = &modelv1.Criteria{Exp: &modelv1.Criteria_Condition{Condition: &modelv1.Condition{Name: "svc", Op: modelv1.Condition_BINARY_OP_EQ, Value: strTV(svcName(q.Svcs[0]))}}}
		} else {
			var names []string
			for _, s := range q.Svcs {
				names = append(names, svcName(s))
			}
			ent = &modelv1.Criteria{Exp: &modelv1.Criteria_Condition{Condition: &modelv1.Condition{Name: "svc", Op: modelv1.Condition_BINARY_OP_IN, Value: strArrTV(names)}}}
		}
		if crit == nil {
			crit = ent
		} else {
			crit = &modelv1.Criteria{Exp: &modelv1.Criteria_Le{Le: &modelv1.LogicalExpression{Op: modelv1.LogicalExpression_LOGICAL_OP_AND, Left: ent, Right: crit}}}
		}
	}
	req.Criteria = crit
	srt := modelv1.Sort_SORT_ASC
	if q.Desc {
		srt = modelv1.Sort_SORT_DESC
	}
	switch q.Order {
	case "time":
		req.OrderBy = &modelv1.QueryOrder{Sort: srt}
	case "code":
		req.OrderBy = &modelv1.QueryOrder{IndexRuleName: "idx-code", Sort: srt}
	}
	return req
}

// sOut is one returned element, rendered.
type sOut struct {
	id   string
	ts   int64
	svc  string
	code int64
	tags string
}

func renderTV(tv *modelv1.TagValue) string {
	switch x := tv.GetValue().(type) {
	case nil, *modelv1.TagValue_Null:
		return "null"
	case *modelv1.TagValue_Str:
		return "str:" + x.Str.GetValue()
	case *modelv1.TagValue_Int:
		return fmt.Sprintf("int:%d", x.Int.GetValue())
	case *modelv1.TagValue_StrArray:
		return "strs:[" + strings.Join(x.StrArray.GetValue(), "|") + "]"
	case *modelv1.TagValue_IntArray:
		return fmt.Sprintf("ints:%v", x.IntArray.GetValue())
	case *modelv1.TagValue_BinaryData:
		return fmt.Sprintf("bin:%x", x.BinaryData)
	}
	return fmt.Sprintf("?%v", tv)
}

func (e *sEnv) query(q sQuery) (out []sOut, err error) {
	defer func() {
		if r := recover(); r != nil {
			err = fmt.Errorf("panic: %v\n%s", r, sStack())
		}
	}()
	req := q.request()
	md := &commonv1.Metadata{Name: sName, Group: sGroup}
	sch, err := logicalstream.BuildSchema(e.stm.GetSchema(), e.stm.GetIndexRules())
	if err != nil {
		return nil, err
	}
	plan, err := logicalstream.Analyze(req, []*commonv1.Metadata{md}, []logical.Schema{sch}, []executor.StreamExecutionContext{e.stm})
	if err != nil {
		return nil, fmt.Errorf("analyze: %w", err)
	}
	se := plan.(executor.StreamExecutable)
	defer se.Close()
	elems, err := se.Execute(context.Background())
	if err != nil {
		return nil, fmt.Errorf("execute: %w", err)
	}
	for _, el := range elems {
		o := sOut{id: el.GetElementId(), ts: el.GetTimestamp().AsTime().UnixNano()}
		var parts []string
		for _, tf := range el.GetTagFamilies() {
			for _, tg := range tf.GetTags() {
				parts = append(parts, tg.GetKey()+"="+renderTV(tg.GetValue()))
				switch tg.GetKey() {
				case "svc":
					o.svc = tg.GetValue().GetStr().GetValue()
				case "code":
					o.code = tg.GetValue().GetInt().GetValue()
				}
			}
		}
		o.tags = strings.Join(parts, " ")
		out = append(out, o)
	}
	return out, nil
}

func sStack() string {
	lines := strings.Split(string(debug.Stack()), "\n")
	var keep []string
	for _, l := range lines {
		if strings.Contains(l, "skywalking-banyandb/") && !strings.Contains(l, "zz_verif") {
			keep = append(keep, strings.TrimSpace(l))
		}
		if len(keep) >= 12 {
			break
		}
	}
	return strings.Join(keep, "\n")
}

// queryVec answers q through the columnar path the way banyand/query/processor.go tryStreamVecDispatch
// does on a standalone node (flag on): VecExecutable -> ExecuteVectorized -> BuildElementsFromBatches ->
// the plan's tag filter + hidden-tag strip -> the offset:offset+limit slice. eligible=false when the plan
// shape is not served by the columnar path (the processor then runs the row path).
func (e *sEnv) queryVec(q sQuery, batchSize int) (out []sOut, eligible bool, err error) {
	defer func() {
		if r := recover(); r != nil {
			err = fmt.Errorf("panic: %v\n%s", r, sStack())
		}
	}()
	cfg := vstream.DefaultConfig()
	cfg.BatchSize = batchSize
	e.stm.vectorized = cfg
	defer func() { e.stm.vectorized = vstream.VectorizedConfig{} }()
	req := q.request()
	md := &commonv1.Metadata{Name: sName, Group: sGroup}
	sch, err := logicalstream.BuildSchema(e.stm.GetSchema(), e.stm.GetIndexRules())
	if err != nil {
		return nil, false, err
	}
	plan, err := logicalstream.Analyze(req, []*commonv1.Metadata{md}, []logical.Schema{sch}, []executor.StreamExecutionContext{e.stm})
	if err != nil {
		return nil, false, fmt.Errorf("analyze: %w", err)
	}
	se := plan.(executor.StreamExecutable)
	defer se.Close()
	vecExec := logicalstream.VecExecutable(plan)
	if vecExec == nil {
		return nil, false, nil
	}
	batches, _, err := vecExec.ExecuteVectorized(context.Background())
	if err != nil {
		return nil, true, fmt.Errorf("execute vectorized: %w", err)
	}
	elems, err := BuildElementsFromBatches(batches, vecExec.ProjectionTags())
	if err != nil {
		return nil, true, fmt.Errorf("materialize: %w", err)
	}
	if tagFilter, hiddenTags, filterSchema, hasFilter := logicalstream.VecTagFilter(plan); hasFilter {
		filtered := make([]*streamv1.Element, 0, len(elems))
		for _, el := range elems {
			ok, merr := tagFilter.Match(logical.TagFamilies(el.TagFamilies), filterSchema)
			if merr != nil {
				return nil, true, merr
			}
			if ok {
				el.TagFamilies = hiddenTags.StripHiddenTags(el.TagFamilies)
				filtered = append(filtered, el)
			}
		}
		elems = filtered
	}
	if offset, limit, ok := logicalstream.VecOffsetLimit(plan); ok {
		start := int(offset)
		if start >= len(elems) {
			elems = nil
		} else {
			end := start + int(limit)
			if end > len(elems) {
				end = len(elems)
			}
			elems = elems[start:end]
		}
	}
	return renderElems(elems), true, nil
}

func renderElems(elems []*streamv1.Element) (out []sOut) {
	for _, el := range elems {
		o := sOut{id: el.GetElementId(), ts: el.GetTimestamp().AsTime().UnixNano()}
		var parts []string
		for _, tf := range el.GetTagFamilies() {
			for _, tg := range tf.GetTags() {
				parts = append(parts, tg.GetKey()+"="+renderTV(tg.GetValue()))
				switch tg.GetKey() {
				case "svc":
					o.svc = tg.GetValue().GetStr().GetValue()
				case "code":
					o.code = tg.GetValue().GetInt().GetValue()
				}
			}
		}
		o.tags = strings.Join(parts, " ")
		out = append(out, o)
	}
	return out
}

// storedID is the element id as the query returns it (hex of the hashed id).
func storedID(el sElem) string {
	return hex.EncodeToString(convert.Uint64ToBytes(convert.HashStr(sGroup + "|" + sName + "|" + el.elementID())))
}

func (el sElem) renderedTags() string {
	st, du, lb := "null", "null", "null"
	if !el.StatusNl {
		st = "str:" + el.Status
	}
	if !el.DurNl {
		du = fmt.Sprintf("int:%d", el.Dur)
	}
	if !el.LabelsNl {
		lb = "strs:[" + strings.Join(el.Labels, "|") + "]"
	}
	return fmt.Sprintf("svc=str:%s status=%s code=int:%d dur=%s labels=%s", svcName(el.Svc), st, el.Code, du, lb)
}
