package stream

import (
	"fmt"
	"sort"
	"strings"
	"testing"

	"pgregory.net/rapid"

	"github.com/apache/skywalking-banyandb/verifkit"
)

// Stream histories: C08 (criteria mean the same with or without indexes), C09 (ordered results are
// globally sorted, limit/offset is a window), C01/C03 (what was written is returned exactly, before
// and after flush/merge) for the stream engine.

type sOp struct {
	Kind  string  `json:"kind"`             // write | wide | flush | merge | query
	WideN int     `json:"wide_n,omitempty"` // wide: one element for each of WideN further series (svc index 100..)
	Elems []sElem `json:"elems,omitempty"`
	Pick  []int   `json:"pick,omitempty"`
	Query *sQuery `json:"query,omitempty"`
}

type sCase struct {
	Cfg      sIndexCfg `json:"cfg"`
	Ops      []sOp     `json:"ops"`
	VecBatch int       `json:"vec_batch,omitempty"` // > 0: every query is also answered by the columnar path with this batch size
}

const (
	triT = 1
	triF = 0
	triU = -1
)

func triNot(v int) int {
	switch v {
	case triT:
		return triF
	case triF:
		return triT
	}
	return triU
}

func b2tri(b bool) int {
	if b {
		return triT
	}
	return triF
}

// eval is the reference predicate: a condition over a tag that the element does not carry (null) is
// "unknown" (the documentation does not say how null compares), everything else is two-valued.
func (c *sCrit) eval(el sElem) int {
	if c == nil {
		return triT
	}
	switch c.Op {
	case "and":
		l, r := c.L.eval(el), c.R.eval(el)
		if l == triF || r == triF {
			return triF
		}
		if l == triT && r == triT {
			return triT
		}
		return triU
	case "or":
		l, r := c.L.eval(el), c.R.eval(el)
		if l == triT || r == triT {
			return triT
		}
		if l == triF && r == triF {
			return triF
		}
		return triU
	}
	switch c.Tag {
	case "status":
		if el.StatusNl {
			return triU
		}
		in := false
		for _, s := range c.Strs {
			if s == el.Status {
				in = true
			}
		}
		switch c.Cmp {
		case "eq":
			return b2tri(el.Status == c.Str)
		case "ne":
			return b2tri(el.Status != c.Str)
		case "in":
			return b2tri(in)
		case "not_in":
			return b2tri(!in)
		}
	case "code", "dur":
		v := el.Code
		if c.Tag == "dur" {
			if el.DurNl {
				return triU
			}
			v = el.Dur
		}
		in := false
		for _, x := range c.Ints {
			if x == v {
				in = true
			}
		}
		switch c.Cmp {
		case "eq":
			return b2tri(v == c.Int)
		case "ne":
			return b2tri(v != c.Int)
		case "lt":
			return b2tri(v < c.Int)
		case "le":
			return b2tri(v <= c.Int)
		case "gt":
			return b2tri(v > c.Int)
		case "ge":
			return b2tri(v >= c.Int)
		case "in":
			return b2tri(in)
		case "not_in":
			return b2tri(!in)
		}
	case "labels":
		if el.LabelsNl {
			return triU
		}
		all := true
		for _, want := range c.Strs {
			found := false
			for _, have := range el.Labels {
				if have == want {
					found = true
				}
			}
			if !found {
				all = false
			}
		}
		switch c.Cmp {
		case "having":
			return b2tri(all)
		case "not_having":
			return b2tri(!all)
		}
	}
	return triU
}

func (c *sCrit) tags(dst map[string]bool) {
	if c == nil {
		return
	}
	if c.Op == "cond" {
		dst[c.Tag] = true
		return
	}
	c.L.tags(dst)
	c.R.tags(dst)
}

type sStats struct {
	flushes, merges, queries int
	reopens                  int
	vecServed, vecDeclined   int
	vecTieDiffers            bool
	wide                     bool
	indexedCrit              bool
	skippingCrit             bool
	selective                bool
	orderedByIndex           bool
	windowCuts               bool
	unknowns                 bool
	afterFlush               bool
	multiSegment             bool
}

func keyOf(o sOut, order string) int64 {
	if order == "code" {
		return o.code
	}
	return o.ts
}

func runStreamHistory(x *verifkit.Ctx, c sCase) (sStats, error) {
	var st sStats
	base, err := newSEnv(sIndexCfg{Status: "none", Code: "none", Dur: "none", Labels: "none"})
	if err != nil {
		return st, err
	}
	defer base.close()
	idx, err := newSEnv(c.Cfg)
	if err != nil {
		return st, err
	}
	defer idx.close()
	wideSeq := 0
	written := map[string]sElem{} // stored id -> element
	var all []sElem
	for i, op := range c.Ops {
		what := fmt.Sprintf("op %d (%s)", i, op.Kind)
		if op.Kind == "wide" {
			// > 128 KiB of block metadata in one part: several primary blocks
			op = sOp{Kind: "write"}
			for k := 0; k < c.Ops[i].WideN; k++ {
				wideSeq++
				op.Elems = append(op.Elems, sElem{Svc: 100 + k, ID: 1000000 + wideSeq, T: int64(k % 50), Status: "ok", Code: int64(k % 7), Dur: int64(k % 11), LabelsNl: true})
			}
			st.wide = true
		}
		switch op.Kind {
		case "write":
			base.write(op.Elems)
			idx.write(op.Elems)
			for _, el := range op.Elems {
				written[storedID(el)] = el
				all = append(all, el)
				if sTS(el.T) >= sTS(0)+int64(6400*1000)*1e6 {
					st.multiSegment = true
				}
			}
		case "flush":
			if base.flushAll()+idx.flushAll() > 0 {
				st.flushes++
			}
		case "reopen":
			if err1, err2 := base.reopen(), idx.reopen(); err1 != nil || err2 != nil {
				return st, fmt.Errorf("%s: reopen failed: %v / %v", what, err1, err2)
			}
			st.reopens++
		case "merge":
			n1, err1 := base.mergeFiles(op.Pick)
			n2, err2 := idx.mergeFiles(op.Pick)
			if err1 != nil || err2 != nil {
				return st, fmt.Errorf("%s: merge failed: %v / %v", what, err1, err2)
			}
			if n1+n2 > 0 {
				st.merges++
			}
		case "query":
			q := *op.Query
			st.queries++
			// reference sets
			definite, possible := map[string]bool{}, map[string]bool{}
			for _, el := range all {
				if el.T < q.From || el.T > q.To {
					continue
				}
				if len(q.Svcs) > 0 {
					ok := false
					for _, s := range q.Svcs {
						if s == el.Svc {
							ok = true
						}
					}
					if !ok {
						continue
					}
				}
				switch q.Crit.eval(el) {
				case triT:
					definite[storedID(el)] = true
					possible[storedID(el)] = true
				case triU:
					possible[storedID(el)] = true
					st.unknowns = true
				}
			}
			// (1) the whole matching set, time order, from the environment without any index
			full := q
			full.Order, full.Desc, full.Offset, full.Limit = "time", false, 0, len(all)+10
			bres, berr := base.query(full)
			if berr != nil {
				return st, fmt.Errorf("%s: query without indexes failed: %v", what, berr)
			}
			m := map[string]sOut{}
			for _, o := range bres {
				el, ok := written[o.id]
				if !ok {
					return st, fmt.Errorf("%s: without indexes: returned element %s (%s) was never written", what, o.id, o.tags)
				}
				if _, dup := m[o.id]; dup {
					return st, fmt.Errorf("%s: without indexes: element %s returned twice", what, el.elementID())
				}
				if o.tags != el.renderedTags() || o.ts != sTS(el.T) {
					return st, fmt.Errorf("%s: without indexes: element %s written as [%s @%d] returned as [%s @%d]", what, el.elementID(), el.renderedTags(), sTS(el.T), o.tags, o.ts)
				}
				if !possible[o.id] {
					return st, fmt.Errorf("%s: without indexes: element %s [%s] does not satisfy the criteria but was returned", what, el.elementID(), o.tags)
				}
				m[o.id] = o
			}
			for id := range definite {
				if _, ok := m[id]; !ok {
					return st, fmt.Errorf("%s: without indexes: element %s [%s] satisfies the criteria but was not returned", what, written[id].elementID(), written[id].renderedTags())
				}
			}
			for k := 1; k < len(bres); k++ {
				if bres[k].ts < bres[k-1].ts {
					return st, fmt.Errorf("%s: without indexes: result is not in ascending time order at position %d", what, k)
				}
			}
			// (2) the same query under the index configuration: the same set
			ires, ierr := idx.query(full)
			if ierr != nil {
				return st, fmt.Errorf("%s: query with index configuration %+v failed: %v", what, c.Cfg, ierr)
			}
			seen := map[string]bool{}
			for _, o := range ires {
				if seen[o.id] {
					return st, fmt.Errorf("%s: with indexes %+v: element %s returned twice", what, c.Cfg, o.id)
				}
				seen[o.id] = true
				b, ok := m[o.id]
				if !ok {
					el := written[o.id]
					return st, fmt.Errorf("%s: index configuration %+v returns element %s [%s] which the index-free scan does not return", what, c.Cfg, el.elementID(), o.tags)
				}
				if b.tags != o.tags || b.ts != o.ts {
					return st, fmt.Errorf("%s: element %s differs between configurations: [%s] vs [%s]", what, o.id, b.tags, o.tags)
				}
			}
			for id, b := range m {
				if !seen[id] {
					return st, fmt.Errorf("%s: index configuration %+v loses element %s [%s] which the index-free scan returns", what, c.Cfg, written[id].elementID(), b.tags)
				}
			}
			for k := 1; k < len(ires); k++ {
				if ires[k].ts < ires[k-1].ts {
					return st, fmt.Errorf("%s: with indexes: result is not in ascending time order at position %d", what, k)
				}
			}
			// (3) the query as asked: a sorted window of the matching set
			res, qerr := idx.query(q)
			if qerr != nil {
				return st, fmt.Errorf("%s: query %+v failed: %v", what, q, qerr)
			}
			wantN := len(m) - q.Offset
			if wantN < 0 {
				wantN = 0
			}
			if wantN > q.Limit {
				wantN = q.Limit
			}
			if len(res) != wantN {
				return st, fmt.Errorf("%s: %d elements match, offset %d limit %d must return %d elements, got %d", what, len(m), q.Offset, q.Limit, wantN, len(res))
			}
			seen = map[string]bool{}
			for _, o := range res {
				if seen[o.id] {
					return st, fmt.Errorf("%s: windowed query returns element %s twice", what, o.id)
				}
				seen[o.id] = true
				if _, ok := m[o.id]; !ok {
					return st, fmt.Errorf("%s: windowed query returns element %s [%s] outside the matching set", what, o.id, o.tags)
				}
			}
			if q.Order != "" {
				var keys []int64
				for _, o := range m {
					keys = append(keys, keyOf(o, q.Order))
				}
				sort.Slice(keys, func(a, b int) bool {
					if q.Desc {
						return keys[a] > keys[b]
					}
					return keys[a] < keys[b]
				})
				for k, o := range res {
					if got, want := keyOf(o, q.Order), keys[q.Offset+k]; got != want {
						var gotKeys []string
						for _, r := range res {
							gotKeys = append(gotKeys, fmt.Sprint(keyOf(r, q.Order)))
						}
						return st, fmt.Errorf("%s: order by %s desc=%v offset %d limit %d: position %d has key %d, the sorted matching set has %d there (returned keys: %s)",
							what, q.Order, q.Desc, q.Offset, q.Limit, k, got, want, strings.Join(gotKeys, ","))
					}
				}
			}
			// (4) C15: the columnar path returns what the row path returns
			if c.VecBatch > 0 {
				vres, eligible, verr := idx.queryVec(q, c.VecBatch)
				switch {
				case verr != nil:
					return st, fmt.Errorf("%s: columnar path failed where the row path succeeds: %v", what, verr)
				case !eligible:
					st.vecDeclined++
				default:
					st.vecServed++
					if len(vres) != len(res) {
						return st, fmt.Errorf("%s: row path returns %d elements, columnar path %d (query %+v)", what, len(res), len(vres), q)
					}
					for k := range res {
						if res[k].id != vres[k].id && keyOf(res[k], q.Order) == keyOf(vres[k], q.Order) {
							st.vecTieDiffers = true // equal sort keys: the order among them is not determined
							continue
						}
						if res[k].id != vres[k].id || res[k].tags != vres[k].tags || res[k].ts != vres[k].ts {
							return st, fmt.Errorf("%s: position %d: row path returns %s [%s @%d], columnar path %s [%s @%d] (query %+v)",
								what, k, res[k].id, res[k].tags, res[k].ts, vres[k].id, vres[k].tags, vres[k].ts, q)
						}
					}
				}
			}
			used := map[string]bool{}
			q.Crit.tags(used)
			for tg := range used {
				switch c.Cfg.of(tg) {
				case "inverted":
					st.indexedCrit = true
				case "skipping":
					st.skippingCrit = true
				}
			}
			inRange := 0
			for _, el := range all {
				if el.T >= q.From && el.T <= q.To {
					inRange++
				}
			}
			if len(m) > 0 && len(m) < inRange && q.Crit != nil {
				st.selective = true
			}
			if q.Order == "code" {
				st.orderedByIndex = true
			}
			if len(m) > q.Limit || q.Offset > 0 {
				st.windowCuts = true
			}
			if st.flushes > 0 {
				st.afterFlush = true
			}
		}
	}
	return st, nil
}

// ---- generators ----

var (
	sStatuses = []string{"ok", "err", "warn", "ok2"}
	sLabels   = []string{"a", "b", "c", "d", "a|b", "x\\y"} // incl. the array delimiter and escape bytes
	sCodes    = []int64{0, 1, 2, 3, 200, 404, 500, -1}
)

func genElem(t *rapid.T, id int, nullBias int, far bool) sElem {
	el := sElem{Svc: rapid.IntRange(0, 3).Draw(t, "svc"), ID: id, T: int64(rapid.IntRange(0, 4000).Draw(t, "t")),
		Status: rapid.SampledFrom(sStatuses).Draw(t, "status"), Code: rapid.SampledFrom(sCodes).Draw(t, "code"),
		Dur: int64(rapid.IntRange(0, 20).Draw(t, "dur"))}
	if far && rapid.IntRange(0, 3).Draw(t, "far") == 0 {
		el.T += 2 * 3600 * 1000 // next day segment
	}
	el.StatusNl = rapid.IntRange(0, 9).Draw(t, "snull") < nullBias
	el.DurNl = rapid.IntRange(0, 9).Draw(t, "dnull") < nullBias
	el.LabelsNl = rapid.IntRange(0, 9).Draw(t, "lnull") < nullBias
	if el.StatusNl {
		el.Status = ""
	}
	if el.DurNl {
		el.Dur = 0
	}
	if !el.LabelsNl {
		n := rapid.IntRange(1, 3).Draw(t, "nlabels")
		el.Labels = append([]string(nil), rapid.Permutation(sLabels).Draw(t, "labels")[:n]...)
	}
	return el
}

func genCrit(t *rapid.T, depth int) *sCrit {
	if depth > 0 && rapid.IntRange(0, 2).Draw(t, "tree") == 0 {
		return &sCrit{Op: rapid.SampledFrom([]string{"and", "or"}).Draw(t, "lop"), L: genCrit(t, depth-1), R: genCrit(t, depth-1)}
	}
	c := &sCrit{Op: "cond", Tag: rapid.SampledFrom([]string{"status", "code", "dur", "labels"}).Draw(t, "tag")}
	switch c.Tag {
	case "status":
		c.Cmp = rapid.SampledFrom([]string{"eq", "eq", "ne", "in", "not_in"}).Draw(t, "cmp")
		c.Str = rapid.SampledFrom(append([]string{"absent"}, sStatuses...)).Draw(t, "str")
		if c.Cmp == "in" || c.Cmp == "not_in" {
			n := rapid.IntRange(1, 3).Draw(t, "n")
			c.Strs = append([]string(nil), rapid.Permutation(append([]string{"absent"}, sStatuses...)).Draw(t, "strs")[:n]...)
			c.Str = ""
		}
	case "code", "dur":
		c.Cmp = rapid.SampledFrom([]string{"eq", "ne", "lt", "le", "gt", "ge", "in", "not_in"}).Draw(t, "cmp")
		pool := sCodes
		if c.Tag == "dur" {
			pool = []int64{0, 1, 5, 10, 19, 20, 21}
		}
		c.Int = rapid.SampledFrom(pool).Draw(t, "int")
		if c.Cmp == "in" || c.Cmp == "not_in" {
			n := rapid.IntRange(1, 3).Draw(t, "n")
			c.Ints = append([]int64(nil), rapid.Permutation(pool).Draw(t, "ints")[:n]...)
			c.Int = 0
		}
	case "labels":
		c.Cmp = rapid.SampledFrom([]string{"having", "having", "not_having"}).Draw(t, "cmp")
		n := rapid.IntRange(1, 2).Draw(t, "n")
		c.Strs = append([]string(nil), rapid.Permutation(append([]string{"z"}, sLabels...)).Draw(t, "strs")[:n]...)
	}
	return c
}

func genSQuery(t *rapid.T, cfg sIndexCfg) *sQuery {
	q := &sQuery{From: 0, To: 3 * 3600 * 1000}
	if rapid.IntRange(0, 4).Draw(t, "hascrit") > 0 {
		q.Crit = genCrit(t, 2)
	}
	switch rapid.IntRange(0, 3).Draw(t, "ent") {
	case 0:
		q.Svcs = []int{rapid.IntRange(0, 4).Draw(t, "s1")}
	case 1:
		q.Svcs = []int{rapid.IntRange(0, 4).Draw(t, "s1"), rapid.IntRange(0, 4).Draw(t, "s2")}
	}
	orders := []string{"", "time", "time"}
	if cfg.Code == "inverted" {
		orders = append(orders, "code", "code")
	}
	q.Order = rapid.SampledFrom(orders).Draw(t, "order")
	q.Desc = rapid.Bool().Draw(t, "desc")
	q.Limit = rapid.SampledFrom([]int{1, 2, 5, 20, 100, 1000}).Draw(t, "limit")
	q.Offset = rapid.SampledFrom([]int{0, 0, 0, 1, 3, 10}).Draw(t, "offset")
	if rapid.IntRange(0, 3).Draw(t, "cut") == 0 {
		q.From = int64(rapid.IntRange(0, 3000).Draw(t, "from"))
		q.To = q.From + int64(rapid.IntRange(0, 3000).Draw(t, "len"))
	}
	return q
}

func (c *sCrit) negatedTags(dst map[string]bool) {
	if c == nil {
		return
	}
	if c.Op == "cond" {
		if c.Cmp == "ne" || c.Cmp == "not_in" || c.Cmp == "not_having" {
			dst[c.Tag] = true
		}
		return
	}
	c.L.negatedTags(dst)
	c.R.negatedTags(dst)
}

// needsTagFilter: some condition is evaluated by the post-scan tag filter (its tag has no inverted rule).
func (q *sQuery) needsTagFilter(cfg sIndexCfg) bool {
	used := map[string]bool{}
	q.Crit.tags(used)
	for tg := range used {
		if cfg.of(tg) != "inverted" {
			return true
		}
	}
	return false
}

func (c sCase) elements() (all []sElem) {
	for _, op := range c.Ops {
		all = append(all, op.Elems...)
		for k := 0; k < op.WideN; k++ {
			all = append(all, sElem{Svc: 100 + k, Status: "ok"})
		}
	}
	return
}

// cappedScanBeforeTagFilterClass (known finding): a time-ordered / unordered query whose criteria need the
// post-scan tag filter while limit+offset is smaller than the number of stored elements: the scan is capped
// at limit+offset per part group BEFORE the filter runs and the dropped elements are never revisited.
func cappedScanBeforeTagFilterClass(c sCase) bool {
	total := len(c.elements())
	for _, op := range c.Ops {
		if op.Kind == "query" && op.Query.Order != "code" && op.Query.needsTagFilter(c.Cfg) && op.Query.Limit+op.Query.Offset < total {
			return true
		}
	}
	return false
}

// negationOverNullIndexedClass (known finding): NE / NOT_IN / NOT_HAVING on a tag with an inverted rule
// while some element does not carry the tag: the index computes the complement inside the documents that
// have the field, the tag filter (no index) accepts the element.
func negationOverNullIndexedClass(c sCase) bool {
	neg := map[string]bool{}
	for _, op := range c.Ops {
		if op.Kind == "query" {
			op.Query.Crit.negatedTags(neg)
		}
	}
	for _, el := range c.elements() {
		if (neg["status"] && c.Cfg.Status == "inverted" && el.StatusNl) || (neg["dur"] && c.Cfg.Dur == "inverted" && el.DurNl) ||
			(neg["labels"] && c.Cfg.Labels == "inverted" && el.LabelsNl) {
			return true
		}
	}
	return false
}

var streamKnown = []verifkit.Known[sCase]{
	{Key: "stream-capped-scan-before-tag-filter", Match: cappedScanBeforeTagFilterClass},
	{Key: "stream-negation-over-null-indexed-tag", Match: negationOverNullIndexedClass},
}

// avoidKnown rewrites a generated case so that it lies outside the listed classes.
func avoidKnown(c *sCase, ks *verifkit.KnownSet) {
	if ks.Active("stream-capped-scan-before-tag-filter") && cappedScanBeforeTagFilterClass(*c) {
		ks.Excluded("stream-capped-scan-before-tag-filter")
		for _, op := range c.Ops {
			if op.Kind == "query" && op.Query.Order != "code" && op.Query.needsTagFilter(c.Cfg) {
				op.Query.Limit, op.Query.Offset = 1000, 0
			}
		}
	}
	if ks.Active("stream-negation-over-null-indexed-tag") && negationOverNullIndexedClass(*c) {
		ks.Excluded("stream-negation-over-null-indexed-tag")
		neg := map[string]bool{}
		for _, op := range c.Ops {
			if op.Kind == "query" {
				op.Query.Crit.negatedTags(neg)
			}
		}
		for _, op := range c.Ops {
			for i := range op.Elems {
				el := &op.Elems[i]
				if neg["status"] && c.Cfg.Status == "inverted" && el.StatusNl {
					el.StatusNl, el.Status = false, "ok"
				}
				if neg["dur"] && c.Cfg.Dur == "inverted" && el.DurNl {
					el.DurNl, el.Dur = false, 0
				}
				if neg["labels"] && c.Cfg.Labels == "inverted" && el.LabelsNl {
					el.LabelsNl, el.Labels = false, []string{"a"}
				}
			}
		}
	}
}

func genStreamCase(t *rapid.T, fixedCfg *sIndexCfg) sCase {
	kinds := []string{"none", "inverted", "skipping"}
	c := sCase{Cfg: sIndexCfg{Status: rapid.SampledFrom(kinds).Draw(t, "cfg/status"), Code: rapid.SampledFrom([]string{"none", "inverted", "inverted", "skipping"}).Draw(t, "cfg/code"),
		Dur: rapid.SampledFrom(kinds).Draw(t, "cfg/dur"), Labels: rapid.SampledFrom(kinds).Draw(t, "cfg/labels")}}
	if fixedCfg != nil {
		c.Cfg = *fixedCfg
	}
	nullBias := rapid.SampledFrom([]int{0, 0, 2}).Draw(t, "nullbias")
	far := rapid.IntRange(0, 3).Draw(t, "multiseg") == 0
	id := 0
	nb := rapid.IntRange(1, 6).Draw(t, "batches")
	for b := 0; b < nb; b++ {
		n := rapid.IntRange(1, 25).Draw(t, "n")
		var batch []sElem
		for i := 0; i < n; i++ {
			id++
			batch = append(batch, genElem(t, id, nullBias, far))
		}
		c.Ops = append(c.Ops, sOp{Kind: "write", Elems: batch})
		switch rapid.IntRange(0, 5).Draw(t, "maint") {
		case 0, 1:
			c.Ops = append(c.Ops, sOp{Kind: "flush"})
		case 2:
			c.Ops = append(c.Ops, sOp{Kind: "flush"}, sOp{Kind: "merge", Pick: rapid.SliceOfN(rapid.IntRange(0, 5), 2, 4).Draw(t, "pick")})
		}
		// no "reopen" is generated: a graceful close inside the series/element index batch window loses the
		// index documents of the last batches (bluge unsafe batches are not persisted on Close), and no listed
		// property claims durability across a graceful restart (C04 allows any prefix)
		if rapid.IntRange(0, 2).Draw(t, "q") == 0 {
			c.Ops = append(c.Ops, sOp{Kind: "query", Query: genSQuery(t, c.Cfg)})
		}
	}
	if rapid.IntRange(0, 11).Draw(t, "wide") == 0 {
		// one or two wide batches (each its own part), flushed and perhaps merged, then read back in full
		nw := rapid.IntRange(1, 2).Draw(t, "nwide")
		for w := 0; w < nw; w++ {
			c.Ops = append(c.Ops, sOp{Kind: "wide", WideN: rapid.IntRange(2700, 3400).Draw(t, "widen")}, sOp{Kind: "flush"})
		}
		if rapid.Bool().Draw(t, "widemerge") {
			c.Ops = append(c.Ops, sOp{Kind: "merge", Pick: []int{0, 1, 2, 3, 4, 5}})
		}
		c.Ops = append(c.Ops, sOp{Kind: "query", Query: &sQuery{From: 0, To: 3 * 3600 * 1000, Order: "time", Limit: 20, Offset: rapid.IntRange(0, 50).Draw(t, "wideoff")}})
	}
	nq := rapid.IntRange(1, 4).Draw(t, "queries")
	for i := 0; i < nq; i++ {
		c.Ops = append(c.Ops, sOp{Kind: "query", Query: genSQuery(t, c.Cfg)})
	}
	return c
}

const streamRule = "1..6 write batches of 1..25 elements (4 series, unique element ids, ms timestamps within 4 s and optionally two hours later = next day " +
	"segment; tags status (string), code (int), dur (int), labels (string array), nullable at a per-case bias) through the real write callback, " +
	"with flush and file-part merges of chosen parts in between, on two engines fed identically: one without index rules and one with a generated " +
	"rule per tag in {none, inverted, skipping}; queries through the real planner: criteria trees (eq/ne/lt/le/gt/ge/in/not_in/having/not_having, " +
	"AND/OR depth <= 2), entity eq/in, time windows, order by time or by the inverted index rule of code, limit/offset; oracles: (1) the index-free " +
	"result holds every element that definitely satisfies the criteria, none that definitely does not (a condition on a null tag is unknown), each " +
	"exactly as written and once, in time order; (2) the same query under the index configuration returns the same set; (3) the query as asked " +
	"returns exactly min(limit, matches-offset) elements whose sort keys are the keys of the sorted matching set at positions offset.."

func TestVerifStreamC08(t *testing.T) {
	verifkit.Run(t, verifkit.Spec[sCase]{
		Property: "C08", Unit: "stream_criteria", CrashReplay: true,
		Rule:  streamRule + "; non-trivial = a selective criteria query over a tag covered by an inverted or skipping rule, after a flush",
		Known: streamKnown,
		Gen: func(t *rapid.T, ks *verifkit.KnownSet) sCase {
			c := genStreamCase(t, nil)
			avoidKnown(&c, ks)
			return c
		},
		Check: func(x *verifkit.Ctx, c sCase) error {
			st, err := runStreamHistory(x, c)
			if err != nil {
				return err
			}
			sLabel(x, st)
			if (st.indexedCrit || st.skippingCrit) && st.selective && st.afterFlush {
				x.NonTrivial()
			}
			return nil
		},
		MinLabelFrac: map[string]float64{"criteria over an inverted-index tag": 0.3, "criteria over a skipping-index tag": 0.3, "selective criteria": 0.4, "merge": 0.1},
	})
}

func sLabel(x *verifkit.Ctx, st sStats) {
	x.LabelIf(st.indexedCrit, "criteria over an inverted-index tag")
	x.LabelIf(st.skippingCrit, "criteria over a skipping-index tag")
	x.LabelIf(st.selective, "selective criteria")
	x.LabelIf(st.orderedByIndex, "order by index rule")
	x.LabelIf(st.windowCuts, "limit/offset cuts the result")
	x.LabelIf(st.unknowns, "null tag under a condition")
	x.LabelIf(st.merges > 0, "merge")
	x.LabelIf(st.flushes > 0, "flush")
	x.LabelIf(st.multiSegment, "two segments")
	x.LabelIf(st.reopens > 0, "reopen")
	x.LabelIf(st.wide, "part with several primary blocks")
}

func TestVerifStreamC09(t *testing.T) {
	verifkit.Run(t, verifkit.Spec[sCase]{
		Property: "C09", Unit: "stream_order", CrashReplay: true,
		Rule: streamRule + "; here every query is ordered (time or the inverted rule of code, asc/desc) and most have small limits / offsets; " +
			"non-trivial = an ordered query whose limit/offset cuts the matching set, over >= 2 parts",
		Known: streamKnown,
		Gen: func(t *rapid.T, ks *verifkit.KnownSet) sCase {
			cfg := sIndexCfg{Status: rapid.SampledFrom([]string{"none", "inverted", "skipping"}).Draw(t, "cfg/status"), Code: "inverted",
				Dur: rapid.SampledFrom([]string{"none", "inverted", "skipping"}).Draw(t, "cfg/dur"), Labels: rapid.SampledFrom([]string{"none", "inverted"}).Draw(t, "cfg/labels")}
			c := genStreamCase(t, &cfg)
			for _, op := range c.Ops {
				if op.Kind == "query" {
					if op.Query.Order == "" {
						op.Query.Order = rapid.SampledFrom([]string{"time", "code"}).Draw(t, "order2")
					}
					op.Query.Limit = rapid.SampledFrom([]int{1, 2, 3, 5, 10, 20}).Draw(t, "limit2")
				}
			}
			avoidKnown(&c, ks)
			return c
		},
		Check: func(x *verifkit.Ctx, c sCase) error {
			st, err := runStreamHistory(x, c)
			if err != nil {
				return err
			}
			sLabel(x, st)
			if st.windowCuts && st.flushes >= 2 {
				x.NonTrivial()
			}
			return nil
		},
		MinLabelFrac: map[string]float64{"order by index rule": 0.4, "limit/offset cuts the result": 0.5},
	})
}

func streamL1Spec(pid string) verifkit.Spec[sCase] {
	return verifkit.Spec[sCase]{
		Property: pid, Unit: "stream_l1", CrashReplay: true,
		Rule: streamRule + "; here the emphasis is on the history: flush and merges of chosen parts between the writes, full and windowed " +
			"reads after each; non-trivial = elements read back after a merge that followed their write",
		Known: streamKnown,
		Gen: func(t *rapid.T, ks *verifkit.KnownSet) sCase {
			c := genStreamCase(t, nil)
			avoidKnown(&c, ks)
			return c
		},
		Check: func(x *verifkit.Ctx, c sCase) error {
			st, err := runStreamHistory(x, c)
			if err != nil {
				return err
			}
			sLabel(x, st)
			if st.merges > 0 || st.reopens > 0 {
				x.NonTrivial()
			}
			return nil
		},
		MinLabelFrac: map[string]float64{"merge": 0.1, "flush": 0.5},
	}
}

func TestVerifStreamC01(t *testing.T) { verifkit.Run(t, streamL1Spec("C01")) }

func TestVerifStreamC03(t *testing.T) { verifkit.Run(t, streamL1Spec("C03")) }

func TestVerifStreamC15(t *testing.T) {
	verifkit.Run(t, verifkit.Spec[sCase]{
		Property: "C15", Unit: "stream_vec_parity", CrashReplay: true,
		Rule: streamRule + "; additionally every query is answered by the columnar path as banyand/query/processor.go dispatches it on a standalone node " +
			"(VecExecutable -> ExecuteVectorized -> BuildElementsFromBatches -> tag filter -> offset/limit slice) with batch size in {1,2,7,1024}; oracle: the " +
			"same elements in the same order as the row path (positions whose sort keys are equal may hold different elements); non-trivial = the columnar " +
			"path served a query returning >= 2 elements after a flush",
		Known: streamKnown,
		Gen: func(t *rapid.T, ks *verifkit.KnownSet) sCase {
			c := genStreamCase(t, nil)
			c.VecBatch = rapid.SampledFrom([]int{1, 2, 7, 1024}).Draw(t, "vecbatch")
			avoidKnown(&c, ks)
			return c
		},
		Check: func(x *verifkit.Ctx, c sCase) error {
			st, err := runStreamHistory(x, c)
			if err != nil {
				return err
			}
			sLabel(x, st)
			x.LabelIf(st.vecServed > 0, "columnar path served a query")
			x.LabelIf(st.vecDeclined > 0, "columnar path declined a query")
			x.LabelIf(st.vecTieDiffers, "tie resolved differently (accepted)")
			if st.vecServed > 0 && st.afterFlush {
				x.NonTrivial()
			}
			return nil
		},
		MinLabelFrac: map[string]float64{"columnar path served a query": 0.5},
	})
}
