package stream

import (
	"fmt"
	"os"
	"path/filepath"
	"sort"
	"testing"

	"pgregory.net/rapid"

	"github.com/apache/skywalking-banyandb/api/common"
	"github.com/apache/skywalking-banyandb/banyand/protector"
	"github.com/apache/skywalking-banyandb/pkg/convert"
	"github.com/apache/skywalking-banyandb/pkg/fs"
	"github.com/apache/skywalking-banyandb/pkg/logger"
	pbv1 "github.com/apache/skywalking-banyandb/pkg/pb/v1"
	"github.com/apache/skywalking-banyandb/pkg/run"
	"github.com/apache/skywalking-banyandb/pkg/watcher"
	"github.com/apache/skywalking-banyandb/verifkit"
)

// C17 (stream write queue): the coordinator's write-queue table keeps memory parts of several time segments in one table;
// the flusher's memory-part merge round merges the parts of one segment with each other and leaves a part that is alone in
// its segment in place. Whatever the arrival order of the segments, every acknowledged element stays in the table until
// it is shipped, and no merged part mixes two segments.

type swOp struct {
	Kind string `json:"kind"` // write | mergemem | flush
	N    int    `json:"n,omitempty"`
	Seg  int64  `json:"seg,omitempty"`
}

type swCase struct {
	Ops []swOp `json:"ops"`
}

func runSW(c swCase) (rounds int, lone bool, err error) {
	sInitLog()
	dir, derr := os.MkdirTemp("", "verif-sw-")
	if derr != nil {
		return 0, false, derr
	}
	defer os.RemoveAll(dir)
	root := filepath.Join(dir, "tab")
	fsys := fs.NewLocalFileSystem()
	fsys.MkdirPanicIfExist(root, 0o755)
	tst, epoch, ierr := initTSTable(fsys, root, common.Position{}, logger.GetLogger("verif-sw"),
		option{mergePolicy: newDefaultMergePolicyForTesting(), protector: protector.Nop{}}, nil, false)
	if ierr != nil {
		return 0, false, ierr
	}
	tst.loopCloser = run.NewCloser(2)
	tst.introductions = make(chan *introduction)
	flushCh, mergeCh := make(chan *flusherIntroduction), make(chan *mergerIntroduction)
	go tst.introducerLoop(flushCh, mergeCh, make(watcher.Channel, 1), epoch+1)
	defer tst.Close()
	next := int64(0)
	acked := map[uint64]int64{} // element id -> segment
	for i, op := range c.Ops {
		what := fmt.Sprintf("op %d (%s)", i, op.Kind)
		switch op.Kind {
		case "write":
			es := &elements{}
			for k := 0; k < op.N; k++ {
				next++
				es.seriesIDs = append(es.seriesIDs, common.SeriesID(next%3+1))
				es.timestamps = append(es.timestamps, op.Seg*1_000_000+next)
				es.elementIDs = append(es.elementIDs, uint64(next))
				es.tagFamilies = append(es.tagFamilies, []tagValues{{tag: "tf", values: []*tagValue{
					{tag: "n", valueType: pbv1.ValueTypeInt64, value: convert.Int64ToBytes(next)}}}})
				acked[uint64(next)] = op.Seg
			}
			if len(es.seriesIDs) == 0 {
				continue
			}
			sort.Sort(es)
			tst.mustAddElementsWithSegmentID(es, op.Seg, nil)
		case "mergemem":
			s := tst.currentSnapshot()
			if s == nil {
				continue
			}
			var runs []int
			var last int64 = -1
			for _, pw := range s.parts {
				if pw.mp == nil {
					continue
				}
				if pw.mp.segmentID != last {
					runs = append(runs, 0)
					last = pw.mp.segmentID
				}
				runs[len(runs)-1]++
			}
			for _, n := range runs {
				if n == 1 && len(runs) > 1 {
					lone = true
				}
			}
			_, merr := tst.mergeMemParts(s, mergeCh)
			s.decRef()
			if merr != nil {
				return rounds, lone, fmt.Errorf("%s: %v", what, merr)
			}
			rounds++
		case "flush":
			s := tst.currentSnapshot()
			if s == nil {
				continue
			}
			n := 0
			for _, pw := range s.parts {
				if pw.mp != nil {
					n++
				}
			}
			if n > 0 {
				tst.flush(s, flushCh)
			}
			s.decRef()
		}
		// every acknowledged element is in exactly one part, and no part mixes segments
		s := tst.currentSnapshot()
		total := uint64(0)
		if s != nil {
			for _, pw := range s.parts {
				pm := pw.p.partMetadata
				total += pm.TotalCount
				if pm.TotalCount > 0 && pm.MinTimestamp/1_000_000 != pm.MaxTimestamp/1_000_000 {
					s.decRef()
					return rounds, lone, verifkit.Failf("after %s: part %d spans the segments %d and %d (timestamps %d..%d)", what, pw.ID(), pm.MinTimestamp/1_000_000, pm.MaxTimestamp/1_000_000, pm.MinTimestamp, pm.MaxTimestamp)
				}
			}
			s.decRef()
		}
		if total != uint64(len(acked)) {
			return rounds, lone, verifkit.Failf("after %s: the table's parts hold %d elements, %d were acknowledged", what, total, len(acked))
		}
	}
	return rounds, lone, nil
}

func TestVerifC17StreamWqueue(t *testing.T) {
	verifkit.Run(t, verifkit.Spec[swCase]{
		Property: "C17", Unit: "stream_wqueue_segments", CrashReplay: true,
		Rule: "a stream shard table used as the coordinator's write queue: 2..8 write batches of 1..5 elements that arrive as memory parts of time segments 1..3 in any order, " +
			"memory-part merge rounds of the flusher and flushes in between; oracle: after every step the parts of the table hold as many elements as were acknowledged and no part " +
			"spans two segments; non-trivial = a merge round that meets a memory part alone in its segment next to other segments' parts",
		Gen: func(t *rapid.T, _ *verifkit.KnownSet) swCase {
			var c swCase
			for b := rapid.IntRange(2, 8).Draw(t, "batches"); b > 0; b-- {
				c.Ops = append(c.Ops, swOp{Kind: "write", N: rapid.IntRange(1, 5).Draw(t, "n"), Seg: int64(rapid.IntRange(1, 3).Draw(t, "seg"))})
				switch rapid.IntRange(0, 4).Draw(t, "maint") {
				case 0, 1:
					c.Ops = append(c.Ops, swOp{Kind: "mergemem"})
				case 2:
					c.Ops = append(c.Ops, swOp{Kind: "flush"})
				}
			}
			c.Ops = append(c.Ops, swOp{Kind: "mergemem"}, swOp{Kind: "flush"})
			return c
		},
		Check: func(x *verifkit.Ctx, c swCase) error {
			for _, op := range c.Ops {
				if op.N < 0 || op.N > 100 || op.Seg < 0 || op.Seg > 1000 {
					return verifkit.Failf("bad case")
				}
			}
			rounds, lone, err := runSW(c)
			if err != nil {
				return err
			}
			x.LabelIf(rounds > 0, "memory-part merge round")
			x.LabelIf(lone, "memory part alone in its segment at a merge round")
			if lone {
				x.NonTrivial()
			}
			return nil
		},
		MinLabelFrac: map[string]float64{"memory-part merge round": 0.5, "memory part alone in its segment at a merge round": 0.2},
	})
}
