package stream

import (
	"fmt"
	"os"
	"path/filepath"
	"sort"
	"strings"
	"testing"

	"pgregory.net/rapid"

	"github.com/apache/skywalking-banyandb/verifkit"
)

// C19 (stream database): a file snapshot of a stream TSDB - segments, series index, shard tables with their
// parts and element index - taken at any position of a write / flush / merge history opens as a database
// that serves, through the real planner, exactly the elements flushed before the request.

type sSnapOp struct {
	Kind  string  `json:"kind"` // write | flush | merge | snapshot
	Elems []sElem `json:"elems,omitempty"`
	Pick  []int   `json:"pick,omitempty"`
}

type sSnapCase struct {
	Cfg sIndexCfg `json:"cfg"`
	Ops []sSnapOp `json:"ops"`
}

// openSEnvAt opens an engine over an existing database directory (a restored snapshot).
func openSEnvAt(cfg sIndexCfg, dbDir string) (*sEnv, error) {
	e, err := newSEnv(cfg)
	if err != nil {
		return nil, err
	}
	// newSEnv created an empty database below its own directory: replace it by the given one
	if cerr := e.db.Close(); cerr != nil {
		return nil, cerr
	}
	if rerr := os.RemoveAll(filepath.Join(e.dir, "db")); rerr != nil {
		return nil, rerr
	}
	if rerr := os.Rename(dbDir, filepath.Join(e.dir, "db")); rerr != nil {
		return nil, rerr
	}
	e.mu.Lock()
	e.tables = nil
	e.mu.Unlock()
	if oerr := e.openDB(); oerr != nil {
		return nil, oerr
	}
	e.stm.tsdb.Store(e.db)
	e.fake.db = e.db
	return e, nil
}

func sRenderOuts(outs []sOut) []string {
	var r []string
	for _, o := range outs {
		r = append(r, fmt.Sprintf("%s@%d %s", o.id, o.ts, o.tags))
	}
	sort.Strings(r)
	return r
}

func runStreamSnapshot(x *verifkit.Ctx, c sSnapCase) (snaps int, withMem, afterMerge, multiSeg bool, err error) {
	e, nerr := newSEnv(c.Cfg)
	if nerr != nil {
		return 0, false, false, false, nerr
	}
	defer e.close()
	var all, flushed []sElem
	merges := 0
	q := sQuery{Limit: 100000, From: -1, To: 5 * 3600 * 1000}
	for i, op := range c.Ops {
		switch op.Kind {
		case "write":
			e.write(op.Elems)
			all = append(all, op.Elems...)
		case "flush":
			if e.flushAll() > 0 {
				flushed = append([]sElem(nil), all...)
			}
		case "merge":
			n, merr := e.mergeFiles(op.Pick)
			if merr != nil {
				return snaps, withMem, afterMerge, multiSeg, fmt.Errorf("op %d merge: %v", i, merr)
			}
			merges += n
		case "snapshot":
			dst, derr := os.MkdirTemp("", "verif-ssnap-")
			if derr != nil {
				return snaps, withMem, afterMerge, multiSeg, derr
			}
			os.RemoveAll(dst)
			ok, serr := e.db.TakeFileSnapshot(dst)
			if serr != nil {
				os.RemoveAll(dst)
				return snaps, withMem, afterMerge, multiSeg, fmt.Errorf("op %d snapshot: %v", i, serr)
			}
			if !ok {
				os.RemoveAll(dst)
				if len(all) > 0 {
					return snaps, withMem, afterMerge, multiSeg, fmt.Errorf("op %d snapshot: nothing written although %d elements were acknowledged", i, len(all))
				}
				continue
			}
			snaps++
			if len(flushed) < len(all) {
				withMem = true
			}
			if merges > 0 {
				afterMerge = true
			}
			r, oerr := openSEnvAt(c.Cfg, dst)
			if oerr != nil {
				os.RemoveAll(dst)
				return snaps, withMem, afterMerge, multiSeg, fmt.Errorf("op %d snapshot: the copy does not open: %v", i, oerr)
			}
			got, qerr := r.query(q)
			r.close()
			os.RemoveAll(dst)
			if qerr != nil {
				return snaps, withMem, afterMerge, multiSeg, fmt.Errorf("op %d snapshot: query on the restored copy failed: %v", i, qerr)
			}
			var want []string
			for _, el := range flushed {
				want = append(want, fmt.Sprintf("%s@%d %s", storedID(el), sTS(el.T), el.renderedTags()))
				if el.T > 2*3600*1000-1 {
					multiSeg = true
				}
			}
			sort.Strings(want)
			if g := sRenderOuts(got); strings.Join(g, "\n") != strings.Join(want, "\n") {
				return snaps, withMem, afterMerge, multiSeg, fmt.Errorf("op %d snapshot: the restored copy serves %d elements, %d were flushed before the request (%d acknowledged)\nrestored: %v\nflushed:  %v",
					i, len(g), len(want), len(all), g, want)
			}
		}
		// the live database keeps serving everything acknowledged
		got, qerr := e.query(q)
		if qerr != nil {
			return snaps, withMem, afterMerge, multiSeg, fmt.Errorf("after op %d (%s): query failed: %v", i, op.Kind, qerr)
		}
		if len(got) != len(all) {
			return snaps, withMem, afterMerge, multiSeg, fmt.Errorf("after op %d (%s): the live database serves %d elements, %d were acknowledged", i, op.Kind, len(got), len(all))
		}
	}
	return snaps, withMem, afterMerge, multiSeg, nil
}

func TestVerifC19Stream(t *testing.T) {
	verifkit.Run(t, verifkit.Spec[sSnapCase]{
		Property: "C19", Unit: "stream_snapshot", CrashReplay: true,
		Rule: "the real stream engine below gRPC (write callback, TSDB with day segments, shard tables with element index, generated index rules): 2..5 write batches of " +
			"1..8 elements (some in the next day's segment) with generated flushes, merges of chosen parts and database TakeFileSnapshot requests in between - in " +
			"particular while memory parts are pending and right after merges; oracle: the copy opens as a database with the real open path and a full-range query " +
			"through the real planner returns exactly the elements flushed before the request, tags included (a prefix of the acknowledged batches, never a " +
			"mixture), while the live database keeps serving everything; non-trivial = a snapshot while memory parts exist or after a merge",
		Gen: func(t *rapid.T, _ *verifkit.KnownSet) sSnapCase {
			c := sSnapCase{Cfg: sIndexCfg{Status: rapid.SampledFrom([]string{"none", "inverted", "skipping"}).Draw(t, "cfg/status"), Code: "inverted",
				Dur: rapid.SampledFrom([]string{"none", "inverted"}).Draw(t, "cfg/dur"), Labels: rapid.SampledFrom([]string{"none", "inverted"}).Draw(t, "cfg/labels")}}
			id := 0
			for b := rapid.IntRange(2, 5).Draw(t, "batches"); b > 0; b-- {
				op := sSnapOp{Kind: "write"}
				for i := rapid.IntRange(1, 8).Draw(t, "n"); i > 0; i-- {
					id++
					op.Elems = append(op.Elems, genElem(t, id, 2, true))
				}
				c.Ops = append(c.Ops, op)
				for k := rapid.IntRange(0, 3).Draw(t, "nmaint"); k > 0; k-- {
					switch rapid.SampledFrom([]string{"flush", "flush", "merge", "snapshot", "snapshot"}).Draw(t, "kind") {
					case "merge":
						c.Ops = append(c.Ops, sSnapOp{Kind: "merge", Pick: rapid.SliceOfN(rapid.IntRange(0, 5), 2, 4).Draw(t, "pick")})
					case "snapshot":
						c.Ops = append(c.Ops, sSnapOp{Kind: "snapshot"})
					default:
						c.Ops = append(c.Ops, sSnapOp{Kind: "flush"})
					}
				}
			}
			c.Ops = append(c.Ops, sSnapOp{Kind: "snapshot"})
			return c
		},
		Check: func(x *verifkit.Ctx, c sSnapCase) error {
			snaps, withMem, afterMerge, multiSeg, err := runStreamSnapshot(x, c)
			if err != nil {
				return err
			}
			x.LabelIf(snaps > 0, "snapshot taken")
			x.LabelIf(withMem, "snapshot while memory parts exist")
			x.LabelIf(afterMerge, "snapshot after a merge")
			x.LabelIf(multiSeg, "two segments in the copy")
			if withMem || afterMerge {
				x.NonTrivial()
			}
			return nil
		},
		MinLabelFrac: map[string]float64{"snapshot taken": 0.5, "snapshot while memory parts exist": 0.2},
	})
}
