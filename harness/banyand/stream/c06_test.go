package stream

import (
	"sort"
	"testing"
	"time"

	"pgregory.net/rapid"

	"github.com/apache/skywalking-banyandb/pkg/timestamp"
	"github.com/apache/skywalking-banyandb/verifkit"
)

// C06 (writer side, stream engine): the real write callback files every accepted element under the
// segment that contains its timestamp; segments sit on the local day grid and survive a restart.

type sC06Point struct {
	Day    int `json:"day"`
	Minute int `json:"minute"`
}

type sC06Case struct {
	Zone    string        `json:"zone"`
	Batches [][]sC06Point `json:"batches"`
	Restart bool          `json:"restart"`
}

func (e *sEnv) segInfos() ([]verifkit.SegInfo, error) {
	segs, err := e.db.SelectSegments(timestamp.NewInclusiveTimeRange(time.Unix(1, 0), time.Unix(1<<34, 0)), true)
	if err != nil {
		return nil, err
	}
	var out []verifkit.SegInfo
	for _, s := range segs {
		tr := s.GetTimeRange()
		si := verifkit.SegInfo{Start: tr.Start, End: tr.End}
		tt, _ := s.Tables()
		for _, tst := range tt {
			snp := tst.currentSnapshot()
			if snp == nil {
				continue
			}
			for _, pw := range snp.parts {
				pm := pw.p.partMetadata
				if pm.TotalCount == 0 {
					continue
				}
				if si.Rows == 0 || pm.MinTimestamp < si.MinTS {
					si.MinTS = pm.MinTimestamp
				}
				if pm.MaxTimestamp > si.MaxTS {
					si.MaxTS = pm.MaxTimestamp
				}
				si.Rows += pm.TotalCount
			}
			snp.decRef()
		}
		out = append(out, si)
		s.DecRef()
	}
	sort.Slice(out, func(i, j int) bool { return out[i].Start.Before(out[j].Start) })
	return out, nil
}

func TestVerifC06StreamWriter(t *testing.T) {
	verifkit.Run(t, verifkit.Spec[sC06Case]{
		Property: "C06", Unit: "stream_writer", CrashReplay: true,
		Rule: "the real stream write callback over a real TSDB (day segments) in a process whose time zone is UTC, Asia/Shanghai, Asia/Kolkata, America/New_York or " +
			"Pacific/Honolulu: 1..4 batches of 1..5 elements at generated local days (-3..3) and minutes incl. the first and last minutes of a local day, a flush " +
			"and optionally a restart; oracle: local-midnight grid, one day long, disjoint, every accepted timestamp in exactly one segment, stored rows inside " +
			"their segment, all rows stored, same boundaries after the restart; non-trivial = >= 2 segments in a zone other than UTC",
		Gen: func(t *rapid.T, _ *verifkit.KnownSet) sC06Case {
			c := sC06Case{Zone: rapid.SampledFrom([]string{"UTC", "Asia/Shanghai", "Asia/Kolkata", "America/New_York", "Pacific/Honolulu"}).Draw(t, "zone"), Restart: rapid.Bool().Draw(t, "restart")}
			for b := rapid.IntRange(1, 4).Draw(t, "batches"); b > 0; b-- {
				var pts []sC06Point
				for i := rapid.IntRange(1, 5).Draw(t, "points"); i > 0; i-- {
					m := rapid.IntRange(0, 1439).Draw(t, "minute")
					if rapid.IntRange(0, 3).Draw(t, "edge") == 0 {
						m = rapid.SampledFrom([]int{0, 1, 1438, 1439}).Draw(t, "edgeminute")
					}
					pts = append(pts, sC06Point{Day: rapid.IntRange(-3, 3).Draw(t, "day"), Minute: m})
				}
				c.Batches = append(c.Batches, pts)
			}
			return c
		},
		Check: func(x *verifkit.Ctx, c sC06Case) error {
			loc, err := time.LoadLocation(c.Zone)
			if err != nil {
				return err
			}
			old := time.Local
			time.Local = loc
			defer func() { time.Local = old }()
			e, err := newSEnv(sIndexCfg{})
			if err != nil {
				return err
			}
			defer e.close()
			base := time.Date(2023, 11, 15, 0, 0, 0, 0, loc)
			var written []time.Time
			n := 0
			for _, b := range c.Batches {
				var batch []sElem
				for _, p := range b {
					n++
					ts := base.AddDate(0, 0, p.Day).Add(time.Duration(p.Minute) * time.Minute).Add(time.Duration(n) * time.Millisecond)
					batch = append(batch, sElem{Svc: 0, T: ts.UnixMilli() - sBaseMillis, ID: n, Status: "ok", Code: int64(n), DurNl: true, LabelsNl: true})
					written = append(written, ts)
				}
				e.write(batch)
			}
			e.flushAll()
			before, err := e.segInfos()
			if err != nil {
				return err
			}
			if err := verifkit.CheckDaySegments("after the writes", c.Zone, loc, before, written); err != nil {
				return err
			}
			if c.Restart {
				if err := e.reopen(); err != nil {
					return verifkit.Failf("restart failed: %v", err)
				}
				after, err := e.segInfos()
				if err != nil {
					return err
				}
				if err := verifkit.CheckDaySegments("after a restart", c.Zone, loc, after, written); err != nil {
					return err
				}
				if err := verifkit.SameBoundaries(before, after, loc); err != nil {
					return err
				}
			}
			x.Label("zone:" + c.Zone)
			x.LabelIf(c.Restart, "restart")
			x.LabelIf(len(before) >= 2, ">= 2 segments")
			if len(before) >= 2 && c.Zone != "UTC" {
				x.NonTrivial()
			}
			return nil
		},
		MinLabelFrac: map[string]float64{">= 2 segments": 0.3, "restart": 0.15},
	})
}
