package stream

import (
	"fmt"
	"math"
	"os"
	"path/filepath"
	"runtime"
	"sync"
	"sync/atomic"
	"testing"
	"time"

	"pgregory.net/rapid"

	"github.com/apache/skywalking-banyandb/api/common"
	"github.com/apache/skywalking-banyandb/banyand/protector"
	"github.com/apache/skywalking-banyandb/pkg/convert"
	"github.com/apache/skywalking-banyandb/pkg/fs"
	"github.com/apache/skywalking-banyandb/pkg/logger"
	pbv1 "github.com/apache/skywalking-banyandb/pkg/pb/v1"
	"github.com/apache/skywalking-banyandb/pkg/timestamp"
	"github.com/apache/skywalking-banyandb/verifkit"
)

// C05 (pin stress): a stream shard table with its real introducer, flusher and merger loops, one writer and many
// readers that pin the current snapshot the way the query path does (currentSnapshot, getParts, decRef). The schedule
// is the operating system's - this unit samples interleavings, it does not enumerate them: a clean run shows nothing
// about the windows it did not hit. Whatever snapshot a reader gets hold of must contain every element acknowledged
// before it was taken (flush and merge keep the count) and only parts that are still referenced.

type sStressCase struct {
	Writes  int `json:"writes"`   // elements written one at a time (each write publishes a new snapshot)
	Readers int `json:"readers"`  // reader goroutines per available CPU, in quarters
	FlushMs int `json:"flush_ms"` // flusher pause
}

func sStressElement(i int64) *elements {
	return &elements{
		seriesIDs: []common.SeriesID{common.SeriesID(i%4 + 1)}, timestamps: []int64{i}, elementIDs: []uint64{uint64(i)},
		tagFamilies: [][]tagValues{{{tag: "tf", values: []*tagValue{
			{tag: "s", valueType: pbv1.ValueTypeStr, value: []byte("value")},
			{tag: "n", valueType: pbv1.ValueTypeInt64, value: convert.Int64ToBytes(i)},
		}}}},
	}
}

func runStreamStress(c sStressCase) (checked int64, err error) {
	sInitLog()
	dir, derr := os.MkdirTemp("", "verif-sstress-")
	if derr != nil {
		return 0, derr
	}
	defer os.RemoveAll(dir)
	fileSystem := fs.NewLocalFileSystem()
	tab := filepath.Join(dir, "tab")
	fileSystem.MkdirPanicIfExist(tab, 0o755)
	tst, terr := newTSTable(fileSystem, tab, common.Position{}, logger.GetLogger("verif-stress"), timestamp.TimeRange{},
		option{flushTimeout: time.Duration(c.FlushMs) * time.Millisecond, mergePolicy: newDefaultMergePolicy(), protector: protector.Nop{}}, nil)
	if terr != nil {
		return 0, terr
	}
	defer tst.Close()
	var acked, snaps atomic.Int64
	var stop atomic.Bool
	var violation atomic.Pointer[string]
	report := func(msg string) {
		violation.CompareAndSwap(nil, &msg)
		stop.Store(true)
	}
	var wg sync.WaitGroup
	wg.Add(1)
	go func() {
		defer wg.Done()
		for i := int64(1); i <= int64(c.Writes) && !stop.Load(); i++ {
			tst.mustAddElements(sStressElement(i))
			acked.Store(i)
		}
		stop.Store(true)
	}()
	readers := max(2, c.Readers*runtime.GOMAXPROCS(0)/4)
	for r := 0; r < readers; r++ {
		wg.Add(1)
		go func() {
			defer wg.Done()
			defer func() {
				if p := recover(); p != nil {
					report(fmt.Sprintf("a reader panicked while reading a pinned snapshot: %v", p))
				}
			}()
			var parts []*part
			for !stop.Load() {
				want := acked.Load()
				s := tst.currentSnapshot()
				if s == nil {
					if want > 0 {
						report(fmt.Sprintf("no snapshot although %d elements were acknowledged", want))
					}
					continue
				}
				epoch := s.epoch
				parts, _ = s.getParts(parts[:0], math.MinInt64, math.MaxInt64)
				var visible int64
				for _, p := range parts {
					visible += int64(p.partMetadata.TotalCount)
				}
				released := 0
				for _, pw := range s.parts {
					if atomic.LoadInt32(&pw.ref) <= 0 {
						released++
					}
				}
				s.decRef()
				snaps.Add(1)
				if visible < want {
					report(fmt.Sprintf("the snapshot (epoch %d) a reader pinned shows %d elements in %d parts, %d had been acknowledged before it was taken", epoch, visible, len(parts), want))
				}
				if released > 0 {
					report(fmt.Sprintf("the snapshot (epoch %d) a reader pinned contains %d parts that were already released", epoch, released))
				}
			}
		}()
	}
	done := make(chan struct{})
	go func() { wg.Wait(); close(done) }()
	select {
	case <-done:
	case <-time.After(120 * time.Second):
		stop.Store(true)
		return snaps.Load(), fmt.Errorf("harness: writer or readers did not stop; violation so far: %v", violation.Load())
	}
	if v := violation.Load(); v != nil {
		return snaps.Load(), verifkit.Failf("%s (%d writes, %d readers, flush pause %d ms; schedule-dependent)", *v, c.Writes, readers, c.FlushMs)
	}
	return snaps.Load(), nil
}

func TestVerifC05StreamStress(t *testing.T) {
	verifkit.Run(t, verifkit.Spec[sStressCase]{
		Property: "C05", Unit: "stream_pin_stress", CrashReplay: true,
		Rule: "a stream shard table with its real background loops (flusher pause 1..5 ms, default merge policy), one writer adding 2000..8000 elements one at a time and " +
			"GOMAXPROCS/2 .. 2 x GOMAXPROCS readers that pin the current snapshot as the query path does, as fast as they can, until the writer is done; the interleaving is the " +
			"operating system's (sampled, not enumerated); oracle: every pinned snapshot holds at least the elements acknowledged before it was taken and no released part, no reader " +
			"panics; non-trivial = every case (>= 10000 pinned snapshots checked)",
		Gen: func(t *rapid.T, _ *verifkit.KnownSet) sStressCase {
			return sStressCase{Writes: rapid.IntRange(2000, 8000).Draw(t, "writes"), Readers: rapid.SampledFrom([]int{2, 4, 8}).Draw(t, "readers"),
				FlushMs: rapid.SampledFrom([]int{1, 2, 5}).Draw(t, "flush")}
		},
		HashOf: nil,
		Check: func(x *verifkit.Ctx, c sStressCase) error {
			if c.Writes < 1 || c.Writes > 200000 || c.Readers < 1 || c.Readers > 16 || c.FlushMs < 1 {
				return verifkit.Failf("bad case %+v", c)
			}
			n, err := runStreamStress(c)
			x.Count("pinned snapshots checked", int(n))
			if err != nil {
				return err
			}
			x.LabelIf(n >= 10000, ">= 10000 pinned snapshots checked")
			if n >= 10000 {
				x.NonTrivial()
			}
			return nil
		},
	})
}
