package stream

import (
	"fmt"
	"io"
	"os"
	"path/filepath"
	"sort"
	"strings"
	"testing"

	"pgregory.net/rapid"

	"github.com/apache/skywalking-banyandb/pkg/fs"
	"github.com/apache/skywalking-banyandb/verifkit"
	"github.com/apache/skywalking-banyandb/verifkit/crashfs"
)

// C04 (stream shard): the real stream engine below gRPC runs a write / flush / merge history with its shard
// table on the crash-logging file system. For crash points k the kill -9 image (all completed operations) and the
// power-loss image (only what was fsynced) of the shard directory are put into a copy of the database, the database
// is opened with the real start-up code and queried through the real planner. The answer has to be a prefix of the
// acknowledged batches, at least everything made durable by a flush that completed before k; and a second start
// after a stop without any new publication has to serve the same elements (recovery is idempotent: a start-up that
// leaves the directory in a state the next start-up reads differently loses data one restart later).

type sCrashOp struct {
	Kind  string  `json:"kind"` // write | flush | merge
	Elems []sElem `json:"elems,omitempty"`
	Pick  []int   `json:"pick,omitempty"`
}

type sCrashCase struct {
	Ops  []sCrashOp `json:"ops"`
	Seed int        `json:"seed"`
}

var sCrashCfg = sIndexCfg{Status: "none", Code: "none", Dur: "none", Labels: "none"}

func sCopyTree(src, dst, skip string) error {
	return filepath.Walk(src, func(p string, info os.FileInfo, err error) error {
		if err != nil {
			return err
		}
		rel, _ := filepath.Rel(src, p)
		if skip != "" && (p == skip || strings.HasPrefix(p, skip+string(os.PathSeparator))) {
			if p == skip {
				return os.MkdirAll(filepath.Join(dst, rel), 0o755)
			}
			if info.IsDir() {
				return filepath.SkipDir
			}
			return nil
		}
		if info.IsDir() {
			return os.MkdirAll(filepath.Join(dst, rel), 0o755)
		}
		in, oerr := os.Open(p)
		if oerr != nil {
			return oerr
		}
		defer in.Close()
		out, cerr := os.Create(filepath.Join(dst, rel))
		if cerr != nil {
			return cerr
		}
		if _, cerr = io.Copy(out, in); cerr != nil {
			out.Close()
			return cerr
		}
		return out.Close()
	})
}

func sRenderElems(els []sElem) []string {
	var want []string
	for _, el := range els {
		want = append(want, fmt.Sprintf("%s@%d %s", storedID(el), sTS(el.T), el.renderedTags()))
	}
	sort.Strings(want)
	return want
}

func runStreamCrash(x *verifkit.Ctx, c sCrashCase) (images int, inside, twoManifests bool, err error) {
	e, nerr := newSEnv(sCrashCfg)
	if nerr != nil {
		return 0, false, false, nerr
	}
	defer e.close()
	var cfs *crashfs.FS
	var root string
	e.wrapFS = func(real fs.FileSystem, r string) fs.FileSystem {
		if cfs != nil {
			return real // one segment, one shard: there is one table
		}
		cfs, root = crashfs.New(real, r), r
		return cfs
	}
	logLen := func() int {
		if cfs == nil {
			return 0
		}
		return cfs.Len()
	}
	type mark struct{ logLen, batches int }
	type span struct{ from, to int }
	var batches [][]sElem
	var writtenAt []int
	var marks []mark
	var maint []span
	for i, op := range c.Ops {
		before := logLen()
		switch op.Kind {
		case "write":
			if len(op.Elems) == 0 {
				continue
			}
			e.write(op.Elems)
			batches = append(batches, op.Elems)
			writtenAt = append(writtenAt, logLen())
		case "flush":
			if e.flushAll() > 0 {
				marks = append(marks, mark{logLen(), len(batches)})
				maint = append(maint, span{before, logLen()})
			}
		case "merge":
			n, merr := e.mergeFiles(op.Pick)
			if merr != nil {
				return 0, false, false, fmt.Errorf("op %d merge: %v", i, merr)
			}
			if n > 0 {
				maint = append(maint, span{before, logLen()})
			}
		}
	}
	if cfs == nil || len(batches) == 0 {
		return 0, false, false, nil
	}
	log := cfs.Log()
	// The series index of the segment is not part of the shard table (it is written through its own store, outside the
	// crash-logging file system): a file snapshot of the database provides a persisted copy of it, and the copy's shard
	// directory is then replaced by the crash image.
	snapDir, derr := os.MkdirTemp("", "verif-scrash-base-")
	if derr != nil {
		return 0, false, false, derr
	}
	defer os.RemoveAll(snapDir)
	os.RemoveAll(snapDir)
	if ok, serr := e.db.TakeFileSnapshot(snapDir); serr != nil || !ok {
		if serr == nil && len(marks) == 0 {
			return 0, false, false, nil // nothing was ever flushed: there is nothing durable to recover
		}
		return 0, false, false, fmt.Errorf("base snapshot: ok=%v err=%v", ok, serr)
	}
	dbDir := filepath.Join(e.dir, "db")
	rel, rerr := filepath.Rel(dbDir, root)
	if rerr != nil {
		return 0, false, false, rerr
	}
	dbDir, root = snapDir, filepath.Join(snapDir, rel)
	// crash points: everything for short logs, otherwise the end of every maintenance step (where the new
	// manifest is published and the old one dropped), a sample of the rest
	pts := map[int]bool{}
	if len(log) <= 60 {
		for k := 0; k <= len(log); k++ {
			pts[k] = true
		}
	} else {
		step := len(log)/12 + 1
		for k := c.Seed % step; k <= len(log); k += step {
			pts[k] = true
		}
		for _, m := range maint {
			for k := max(m.from+1, m.to-10); k <= m.to; k++ {
				pts[k] = true
			}
			pts[(m.from+m.to)/2] = true
		}
	}
	var points []int
	for k := range pts {
		points = append(points, k)
	}
	sort.Ints(points)
	q := sQuery{Limit: 100000, From: -1, To: 5 * 3600 * 1000}
	for _, k := range points {
		for _, m := range maint {
			if k > m.from && k < m.to {
				inside = true
			}
		}
		kf, pf, kd, pd := crashfs.Image(log, k)
		for _, img := range []struct {
			name  string
			files map[string][]byte
			dirs  []string
		}{{"kill -9", kf, kd}, {"power loss", pf, pd}} {
			nsnp := 0
			for name := range img.files {
				if strings.HasSuffix(name, ".snp") && !strings.Contains(name, string(os.PathSeparator)) {
					nsnp++
				}
			}
			if nsnp >= 2 {
				twoManifests = true
			}
			jmin, jmax := 0, 0
			for _, m := range marks {
				if m.logLen <= k && m.batches > jmin {
					jmin = m.batches
				}
			}
			for i, w := range writtenAt {
				if w <= k {
					jmax = i + 1
				}
			}
			base, derr := os.MkdirTemp("", "verif-scrash-")
			if derr != nil {
				return images, inside, twoManifests, derr
			}
			rerr := func() (ferr error) {
				defer os.RemoveAll(base)
				defer func() {
					if r := recover(); r != nil {
						ferr = fmt.Errorf("%s at op %d/%d: start-up panicked: %v", img.name, k, len(log), r)
					}
				}()
				if cerr := sCopyTree(dbDir, filepath.Join(base, "db"), root); cerr != nil {
					return cerr
				}
				if merr := crashfs.Materialise(filepath.Join(base, "db", rel), img.files, img.dirs); merr != nil {
					return merr
				}
				if os.Getenv("VERIF_DEBUG") != "" {
					filepath.Walk(filepath.Join(base, "db"), func(p string, info os.FileInfo, _ error) error {
						fmt.Println("IMG", img.name, k, p, info.Size())
						return nil
					})
					filepath.Walk(dbDir, func(p string, info os.FileInfo, _ error) error {
						fmt.Println("ORIG", p, info.Size())
						return nil
					})
				}
				r, oerr := openSEnvAt(sCrashCfg, filepath.Join(base, "db"))
				if oerr != nil {
					return fmt.Errorf("%s at op %d/%d: the database does not open: %v", img.name, k, len(log), oerr)
				}
				defer r.close()
				got, qerr := r.query(q)
				if qerr != nil {
					return fmt.Errorf("%s at op %d/%d: query after recovery failed: %v", img.name, k, len(log), qerr)
				}
				g := strings.Join(sRenderOuts(got), "\n")
				matched := -1
				for j := jmax; j >= jmin; j-- {
					var els []sElem
					for _, b := range batches[:j] {
						els = append(els, b...)
					}
					if strings.Join(sRenderElems(els), "\n") == g {
						matched = j
						break
					}
				}
				if matched < 0 {
					return fmt.Errorf("%s at op %d/%d: the recovered database serves %d elements, which is no prefix of the acknowledged batches between %d (durable by a completed flush) and %d (acknowledged)\nrecovered: %v",
						img.name, k, len(log), len(got), jmin, jmax, sRenderOuts(got))
				}
				// a stop without any new publication and a second start
				if perr := r.reopen(); perr != nil {
					return fmt.Errorf("%s at op %d/%d: second start failed: %v", img.name, k, len(log), perr)
				}
				got2, qerr2 := r.query(q)
				if qerr2 != nil {
					return fmt.Errorf("%s at op %d/%d: query after the second start failed: %v", img.name, k, len(log), qerr2)
				}
				if g2 := strings.Join(sRenderOuts(got2), "\n"); g2 != g {
					return fmt.Errorf("%s at op %d/%d: the first start after the crash serves %d elements (batches 1..%d), a second start - nothing was written in between - serves %d: recovery is not idempotent",
						img.name, k, len(log), len(got), matched, len(got2))
				}
				return nil
			}()
			images++
			if rerr != nil {
				return images, inside, twoManifests, rerr
			}
		}
	}
	return images, inside, twoManifests, nil
}

func TestVerifC04Stream(t *testing.T) {
	verifkit.Run(t, verifkit.Spec[sCrashCase]{
		Property: "C04", Unit: "stream_crash", CrashReplay: true,
		Rule: "the real stream engine below gRPC (write callback, TSDB, one shard table without index rules) with the shard table on the crash-logging file system: 2..4 write " +
			"batches of 1..6 elements with flushes and merges of chosen parts in between; crash points: every point of logs up to 60 operations, otherwise the last 10 operations " +
			"of every flush / merge, its middle and a sample of the rest; for each point the kill -9 image and the power-loss image of the shard directory are placed in a copy of the " +
			"database, which is opened by the real start-up code and queried through the real planner; oracle: the answer is a prefix of the acknowledged batches that contains every " +
			"batch covered by a flush completed before the crash point, and a second start after a stop without a new publication serves the same elements; non-trivial = a crash point inside a flush or merge",
		Gen: func(t *rapid.T, _ *verifkit.KnownSet) sCrashCase {
			c := sCrashCase{Seed: rapid.IntRange(0, 1000).Draw(t, "seed")}
			id := 0
			for b := rapid.IntRange(2, 4).Draw(t, "batches"); b > 0; b-- {
				op := sCrashOp{Kind: "write"}
				for i := rapid.IntRange(1, 6).Draw(t, "n"); i > 0; i-- {
					id++
					op.Elems = append(op.Elems, genElem(t, id, 2, false))
				}
				c.Ops = append(c.Ops, op)
				for k := rapid.IntRange(0, 2).Draw(t, "nmaint"); k > 0; k-- {
					if rapid.IntRange(0, 2).Draw(t, "kind") == 0 {
						c.Ops = append(c.Ops, sCrashOp{Kind: "merge", Pick: rapid.SliceOfN(rapid.IntRange(0, 5), 2, 3).Draw(t, "pick")})
					} else {
						c.Ops = append(c.Ops, sCrashOp{Kind: "flush"})
					}
				}
			}
			return c
		},
		Check: func(x *verifkit.Ctx, c sCrashCase) error {
			images, inside, two, err := runStreamCrash(x, c)
			x.Count("crash images recovered", images)
			if err != nil {
				return err
			}
			x.LabelIf(images > 0, "images recovered")
			x.LabelIf(inside, "crash point inside a flush or merge")
			x.LabelIf(two, "image with two manifests")
			if inside {
				x.NonTrivial()
			}
			return nil
		},
		MinLabelFrac: map[string]float64{"crash point inside a flush or merge": 0.4, "image with two manifests": 0.2},
	})
}
