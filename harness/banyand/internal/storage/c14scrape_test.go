package storage

import (
	"context"
	"fmt"
	"os"
	"sort"
	"testing"
	"time"

	"pgregory.net/rapid"

	"github.com/apache/skywalking-banyandb/verifkit"
)

// C14 (scrape): the metrics scraper uses a segment - its shard tables and its series index - without taking a
// reference: dormant segments (open, no holder) are scraped too. While the scraper is inside a segment, no
// housekeeping task may close or delete that segment. The harness owns the schedule: the scrape is parked inside
// the Collect call of one shard table, then the idle reclaimer, a retention run, a deletion by suffix or the forced
// deletion of the oldest segment is started; it has to leave the scraped segment alone until the scrape moved on.

type scrapeCase struct {
	Days    []int  `json:"days"`    // segment start days relative to the base (distinct, <= 0)
	Advance int    `json:"advance"` // days the clock advances before the race (TTL is 3 days)
	Park    int    `json:"park"`    // index (into the sorted segments) of the segment whose scrape is parked
	Task    string `json:"task"`    // idleclose | retention | deletesuffix | forced
	Held    bool   `json:"held"`    // a reader holds a reference to the parked segment as well
}

func runScrape(x *verifkit.Ctx, c scrapeCase) (taskWaited, touched bool, err error) {
	sc := sCase{Zone: "UTC", Unit: "day", Num: 1, TTLDays: 3, Base: "2024-06-15T00:00:00Z"}
	e, nerr := newL2Env(sc)
	if nerr != nil {
		return false, false, nerr
	}
	e.x = x
	defer func() {
		collectGateP.Store(nil)
		e.close()
	}()
	days := append([]int(nil), c.Days...)
	sort.Ints(days)
	for i, d := range days {
		if serr := e.step(i, sOp{Kind: "create", T: int64(d)*1440 + 60, N: i % 2}); serr != nil {
			return false, false, serr
		}
	}
	e.clock.Add(time.Duration(c.Advance) * 24 * time.Hour)
	segs := e.db.segmentController.copySegments()
	if len(segs) != len(days) {
		return false, false, fmt.Errorf("harness: %d segments for %d days", len(segs), len(days))
	}
	target := segs[c.Park%len(segs)]
	var held Segment[*fakeTable, int]
	if c.Held {
		h, herr := e.db.CreateSegmentIfNotExist(target.Start.Add(time.Hour))
		if herr != nil {
			return false, false, fmt.Errorf("harness: hold: %v", herr)
		}
		held = h
	}
	gate := &collectGate{prefix: target.location, entered: make(chan *fakeTable, 1), release: make(chan struct{})}
	collectGateP.Store(gate)
	// goroutine A: the scraper, as database.collect does for every segment
	aDone := make(chan struct{})
	go func() {
		defer close(aDone)
		for _, s := range e.db.segmentController.copySegments() {
			s.collectOpenMetrics(e.db.segmentController.metrics)
		}
	}()
	var table *fakeTable
	select {
	case table = <-gate.entered:
	case <-aDone:
		return false, false, fmt.Errorf("harness: the scrape did not reach a shard table of the chosen segment (is it open?)")
	case <-time.After(10 * time.Second):
		return false, false, fmt.Errorf("harness: the scrape did not start")
	}
	// goroutine B: the housekeeping task
	now := e.clock.Now()
	deadline := now.Add(-3 * 24 * time.Hour)
	selected := false
	switch c.Task {
	case "idleclose":
		selected = !c.Held
	case "retention":
		selected = !target.End.After(deadline)
	case "deletesuffix":
		selected = true
	case "forced":
		selected = target == segs[0] && len(segs) > 1
	}
	bDone := make(chan struct{})
	go func() {
		defer close(bDone)
		switch c.Task {
		case "idleclose":
			e.db.segmentController.idleTimeout = -time.Hour // every dormant segment counts as idle
			e.db.segmentController.closeIdleSegments()
		case "retention":
			newRetentionTask(e.db, e.ttl).run(context.Background(), now, e.db.logger)
		case "deletesuffix":
			_ = e.db.DeleteExpiredSegments([]string{target.suffix})
		case "forced":
			_, _ = e.db.DeleteOldestSegment()
		}
	}()
	select {
	case <-bDone:
	case <-time.After(60 * time.Millisecond):
		taskWaited = true
	}
	// the scrape is still inside the table: the segment must be untouched
	var verr error
	if table.closed.Load() {
		verr = verifkit.Failf("task %s closed shard table %s while the metrics scrape was inside its Collect call (segment %s, held=%v, selected by the task=%v)",
			c.Task, table.root, target.suffix, c.Held, selected)
	} else if _, serr := os.Stat(target.location); serr != nil {
		verr = verifkit.Failf("task %s removed the directory of segment %s while the metrics scrape was inside one of its shard tables (held=%v): %v", c.Task, target.suffix, c.Held, serr)
	}
	touched = selected
	close(gate.release)
	select {
	case <-aDone:
	case <-time.After(20 * time.Second):
		return taskWaited, touched, fmt.Errorf("the scrape did not finish after it was released")
	}
	select {
	case <-bDone:
	case <-time.After(20 * time.Second):
		return taskWaited, touched, fmt.Errorf("task %s did not finish after the scrape moved on", c.Task)
	}
	if held != nil {
		held.DecRef()
	}
	if verr != nil {
		return taskWaited, touched, verr
	}
	// afterwards the task has had its effect on a segment nobody holds
	if selected && !c.Held {
		switch c.Task {
		case "idleclose":
			if !table.closed.Load() {
				return taskWaited, touched, verifkit.Failf("the idle reclaimer skipped dormant segment %s although the scrape had moved on when it could take the lock", target.suffix)
			}
		case "retention", "deletesuffix", "forced":
			if _, serr := os.Stat(target.location); serr == nil {
				return taskWaited, touched, verifkit.Failf("task %s left the directory of segment %s behind although nobody holds it", c.Task, target.suffix)
			}
		}
	}
	return taskWaited, touched, nil
}

func TestVerifC14Scrape(t *testing.T) {
	verifkit.Run(t, verifkit.Spec[scrapeCase]{
		Property: "C14", Unit: "storage_scrape", CrashReplay: true,
		Rule: "1..4 day segments (two shard tables each) of a real TSDB with a mock clock advanced 0..9 days (TTL 3 days); the metrics scrape (collectOpenMetrics over every segment, as " +
			"database.collect does) is parked inside the Collect call of a shard table of a chosen segment - dormant or also held by a reader - and one task is started: idle reclaim, " +
			"retention run, deletion by suffix, forced deletion of the oldest; oracle: while the scrape is inside the table, the table is not closed and the segment directory exists; " +
			"after the scrape moved on both finish and the task has had its effect on a segment nobody holds; non-trivial = the task selects the scraped segment",
		Gen: func(t *rapid.T, _ *verifkit.KnownSet) scrapeCase {
			n := rapid.IntRange(1, 4).Draw(t, "segments")
			seen := map[int]bool{}
			var days []int
			for len(days) < n {
				d := -rapid.IntRange(0, 8).Draw(t, "day")
				if !seen[d] {
					seen[d] = true
					days = append(days, d)
				}
			}
			return scrapeCase{Days: days, Advance: rapid.IntRange(0, 9).Draw(t, "advance"), Park: rapid.IntRange(0, n-1).Draw(t, "park"),
				Task: rapid.SampledFrom([]string{"idleclose", "idleclose", "retention", "deletesuffix", "forced"}).Draw(t, "task"),
				Held: rapid.IntRange(0, 3).Draw(t, "held") == 0}
		},
		Check: func(x *verifkit.Ctx, c scrapeCase) error {
			if len(c.Days) == 0 || len(c.Days) > 8 {
				return verifkit.Failf("bad case: %d segments", len(c.Days))
			}
			waited, touched, err := runScrape(x, c)
			if err != nil {
				return err
			}
			x.LabelIf(waited, "the task waited for the scrape")
			x.LabelIf(touched, "the task selects the scraped segment")
			x.LabelIf(c.Held, "scraped segment also held by a reader")
			if touched {
				x.NonTrivial()
			}
			return nil
		},
		MinLabelFrac: map[string]float64{"the task selects the scraped segment": 0.3, "the task waited for the scrape": 0.2},
	})
}
