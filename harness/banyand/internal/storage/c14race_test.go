package storage

import (
	"context"
	"fmt"
	"os"
	"sort"
	"sync/atomic"
	"testing"
	"time"

	"pgregory.net/rapid"

	"github.com/apache/skywalking-banyandb/api/common"
	"github.com/apache/skywalking-banyandb/pkg/timestamp"
	"github.com/apache/skywalking-banyandb/verifkit"
)

// C14 (interleavings): a housekeeping task (retention, the expired-range probe, deletion by suffix, forced
// deletion) runs while one goroutine is in the middle of a slow cold reopen of a segment and another
// one acquires a segment. The harness owns the schedule: the cold reopen is parked inside the table
// creator (which runs under the segment's lock), the housekeeping task is started and - where it has
// to wait for that lock - left waiting, the second acquisition happens, then the reopen is released.

type raceCase struct {
	Days     []int  `json:"days"`      // segment start days relative to the base (distinct, <= 0)
	Advance  int    `json:"advance"`   // days the clock advances before the race (TTL is 3 days)
	Reopen   int    `json:"reopen"`    // index (into the sorted segments) of the segment whose cold reopen is parked
	Task     string `json:"task"`      // retention | expiredrange | deletesuffix | forced
	Acquire  int    `json:"acquire"`   // index of the segment the second goroutine acquires (-1: none)
	AcqFirst bool   `json:"acq_first"` // the second acquisition happens before the housekeeping task starts
	// Suffix2 >= 0: while the housekeeping task runs (or waits), the lifecycle path deletes the segment with this index by
	// its suffix (DeleteExpiredSegments takes no retention gate)
	Suffix2 int `json:"suffix2"`
}

func runRace(x *verifkit.Ctx, c raceCase) (blocked, flaggedHeld bool, err error) {
	sc := sCase{Zone: "UTC", Unit: "day", Num: 1, TTLDays: 3, Base: "2024-06-15T00:00:00Z"}
	e, nerr := newL2Env(sc)
	if nerr != nil {
		return false, false, nerr
	}
	e.x = x
	defer func() {
		fakeGateP.Store(nil)
		e.close()
	}()
	days := append([]int(nil), c.Days...)
	sort.Ints(days)
	for i, d := range days {
		if serr := e.step(i, sOp{Kind: "create", T: int64(d)*1440 + 60, N: i % 2}); serr != nil {
			return false, false, serr
		}
	}
	e.clock.Add(time.Duration(c.Advance) * 24 * time.Hour)
	if serr := e.step(100, sOp{Kind: "idleclose"}); serr != nil {
		return false, false, serr
	}
	segs := e.db.segmentController.copySegments()
	if len(segs) != len(days) {
		return false, false, fmt.Errorf("harness: %d segments for %d days", len(segs), len(days))
	}
	re := segs[c.Reopen%len(segs)]
	var acq *segment[*fakeTable, int]
	if c.Acquire >= 0 {
		acq = segs[c.Acquire%len(segs)]
		if acq == re {
			acq = nil
		}
	}
	// 1. goroutine A: a writer reaches the cold segment; the reopen parks inside the creator
	gate := &fakeGate{prefix: re.location, entered: make(chan struct{}), release: make(chan struct{})}
	fakeGateP.Store(gate)
	type acqResult struct {
		seg Segment[*fakeTable, int]
		err error
	}
	aDone := make(chan acqResult, 1)
	go func() {
		seg, aerr := e.db.CreateSegmentIfNotExist(re.Start.Add(time.Hour))
		aDone <- acqResult{seg, aerr}
	}()
	select {
	case <-gate.entered:
	case r := <-aDone:
		return false, false, fmt.Errorf("harness: the cold reopen did not reach the table creator (err=%v)", r.err)
	case <-time.After(10 * time.Second):
		return false, false, fmt.Errorf("harness: the cold reopen did not start")
	}
	// the second acquisition runs in its own goroutine: it may have to wait for a lock that the parked reopen (or the
	// housekeeping task waiting for it) holds; then it completes after the reopen does
	mDone := make(chan acqResult, 1)
	mStarted := false
	acquire := func() {
		if acq == nil {
			mDone <- acqResult{}
			return
		}
		mStarted = true
		go func() {
			seg, merr := e.db.CreateSegmentIfNotExist(acq.Start.Add(2 * time.Hour))
			mDone <- acqResult{seg, merr}
		}()
	}
	var mainRes *acqResult
	waitMain := func(d time.Duration) {
		if mainRes != nil {
			return
		}
		select {
		case r := <-mDone:
			mainRes = &r
		case <-time.After(d):
		}
	}
	if c.AcqFirst {
		acquire()
		waitMain(40 * time.Millisecond)
	}
	// 2. goroutine B: the housekeeping task
	now := e.clock.Now()
	deadline := now.Add(-3 * 24 * time.Hour)
	expired := func(s *segment[*fakeTable, int]) bool { return !s.End.After(deadline) }
	bDone := make(chan struct{})
	deleted := map[*segment[*fakeTable, int]]bool{}
	switch c.Task {
	case "retention":
		for _, s := range segs {
			if expired(s) {
				deleted[s] = true
			}
		}
	case "deletesuffix":
		deleted[segs[0]] = true
	case "forced":
		if len(segs) > 1 {
			deleted[segs[0]] = true
		}
	}
	go func() {
		defer close(bDone)
		switch c.Task {
		case "retention":
			newRetentionTask(e.db, e.ttl).run(context.Background(), now, e.db.logger)
		case "expiredrange":
			_ = e.db.GetExpiredSegmentsTimeRange()
		case "deletesuffix":
			_ = e.db.DeleteExpiredSegments([]string{segs[0].suffix})
		case "forced":
			_, _ = e.db.DeleteOldestSegment()
		}
	}()
	select {
	case <-bDone:
	case <-time.After(40 * time.Millisecond):
		blocked = true // waits for the lock the parked reopen holds
	}
	// 3. the second acquisition while the task is in progress
	if !c.AcqFirst {
		acquire()
		waitMain(40 * time.Millisecond)
	}
	// 3b. a deletion by suffix through the lifecycle path while the task is in progress
	s2Done := make(chan struct{})
	if c.Suffix2 >= 0 && len(segs) > 0 {
		target := segs[c.Suffix2%len(segs)]
		if target != re { // deleting the segment whose reopen is parked would wait for that lock: covered by the task itself
			deleted[target] = true
			go func() {
				defer close(s2Done)
				_ = e.db.DeleteExpiredSegments([]string{target.suffix})
			}()
			select {
			case <-s2Done:
			case <-time.After(40 * time.Millisecond):
			}
		} else {
			close(s2Done)
		}
	} else {
		close(s2Done)
	}
	// 4. the reopen completes; everybody finishes
	close(gate.release)
	a := <-aDone
	waitMain(20 * time.Second)
	if mainRes == nil {
		return blocked, false, fmt.Errorf("the second acquisition did not finish after the reopen completed (started=%v)", mStarted)
	}
	if mainRes.err != nil {
		if acq == nil || !deleted[acq] {
			return blocked, false, fmt.Errorf("second acquisition failed: %v", mainRes.err)
		}
		// a writer that meets a segment in the middle of its deletion may be refused: then it holds nothing
		mainRes.seg = nil
	}
	mainSeg := mainRes.seg
	select {
	case <-bDone:
	case <-time.After(20 * time.Second):
		return blocked, false, fmt.Errorf("the housekeeping task %s did not finish after the reopen completed", c.Task)
	}
	select {
	case <-s2Done:
	case <-time.After(20 * time.Second):
		return blocked, false, fmt.Errorf("the deletion by suffix did not finish after the reopen completed")
	}
	// every segment that no task selected for deletion is still listed (queries and writers find it)
	listed := map[*segment[*fakeTable, int]]bool{}
	for _, s := range e.db.segmentController.copySegments() {
		listed[s] = true
	}
	for _, s := range segs {
		if !deleted[s] && !listed[s] {
			return blocked, false, fmt.Errorf("segment %s (expired=%v) was selected for deletion by no task (%s, suffix deletion %d) but is no longer listed: its data is unreachable", s, expired(s), c.Task, c.Suffix2)
		}
	}
	if a.err != nil {
		// the acquisition may legitimately be refused when the segment was flagged first; then nothing is held
		a.seg = nil
	}
	// 5. whoever holds a segment has it: open, on disk, counted
	held := map[*segment[*fakeTable, int]]int{}
	if a.seg != nil {
		held[a.seg.(*segment[*fakeTable, int])]++
	}
	if mainSeg != nil {
		held[mainSeg.(*segment[*fakeTable, int])]++
	}
	for s, n := range held {
		who := fmt.Sprintf("segment %s held by %d goroutine(s) during %s (expired=%v, selected for deletion=%v)", s, n, c.Task, expired(s), deleted[s])
		if rc := atomic.LoadInt32(&s.refCount); int(rc) != n {
			return blocked, false, fmt.Errorf("%s has refCount %d: a reference of a holder was dropped by the housekeeping task", who, rc)
		}
		s.mu.RLock()
		open := s.index != nil
		s.mu.RUnlock()
		if !open {
			return blocked, false, fmt.Errorf("%s is closed while it is held", who)
		}
		if _, serr := os.Stat(s.location); serr != nil {
			return blocked, false, fmt.Errorf("%s: its directory is gone while it is held: %v", who, serr)
		}
		if deleted[s] {
			flaggedHeld = true
		}
	}
	for _, s := range segs {
		if held[s] == 0 {
			if rc := atomic.LoadInt32(&s.refCount); rc != 0 {
				return blocked, false, fmt.Errorf("segment %s is held by nobody but has refCount %d", s, rc)
			}
		}
	}
	// 6. release: a segment selected for deletion disappears with its last holder, the others stay
	if a.seg != nil {
		a.seg.DecRef()
	}
	if mainSeg != nil {
		mainSeg.DecRef()
	}
	// a writer that arrives after its segment was deleted creates the segment again (same directory name)
	recreated := map[string]bool{}
	for h := range held {
		known := false
		for _, s := range segs {
			if s == h {
				known = true
			}
		}
		if !known {
			recreated[h.location] = true
		}
	}
	for _, s := range segs {
		_, serr := os.Stat(s.location)
		if recreated[s.location] {
			continue
		}
		if deleted[s] && serr == nil {
			return blocked, flaggedHeld, fmt.Errorf("segment %s was selected for deletion by %s and every holder released it, but its directory is still on disk", s, c.Task)
		}
		if !deleted[s] && serr != nil {
			return blocked, flaggedHeld, fmt.Errorf("segment %s was not selected for deletion by %s but its directory is gone: %v", s, c.Task, serr)
		}
		if rc := atomic.LoadInt32(&s.refCount); rc != 0 {
			return blocked, flaggedHeld, fmt.Errorf("segment %s has refCount %d after every holder released it", s, rc)
		}
	}
	_ = common.ShardID(0)
	_ = timestamp.TimeRange{}
	return blocked, flaggedHeld, nil
}

func TestVerifC14Race(t *testing.T) { verifkit.Run(t, raceSpec("C14")) }

// C07 quantifies over retention runs racing with queries, writers and forced cleanup: the same schedules decide its
// clause "data younger than the TTL is never deleted or hidden by retention" (a young segment stays listed and on disk).
func TestVerifC07Race(t *testing.T) { verifkit.Run(t, raceSpec("C07")) }

func raceSpec(pid string) verifkit.Spec[raceCase] {
	return verifkit.Spec[raceCase]{
		Property: pid, Unit: "storage_interleavings", CrashReplay: true,
		Rule: "2..4 idle-closed day segments (TTL 3 days, the clock advanced 0..8 days so that none, some or all are expired); goroutine A (a writer) cold-reopens a " +
			"generated segment and is parked inside the table creator, i.e. under the segment's lock with the reference not yet counted; goroutine B runs a generated " +
			"housekeeping task (retention run, expired-range probe, deletion by suffix, forced deletion of the oldest) and is left waiting where it needs that lock; " +
			"the main goroutine acquires a generated other segment before or while B runs and optionally deletes a generated segment by suffix through the lifecycle path meanwhile; then the reopen is released. Oracle: every holder's segment is open, on " +
			"disk and has refCount = number of holders; unheld segments have refCount 0; every segment no task selected is still listed; after the release a segment selected for deletion is gone and every other " +
			"segment is still on disk; non-trivial = the housekeeping task had to wait for the parked reopen, or a held segment was selected for deletion",
		Gen: func(t *rapid.T, _ *verifkit.KnownSet) raceCase {
			n := rapid.IntRange(2, 4).Draw(t, "segments")
			c := raceCase{Days: rapid.SliceOfNDistinct(rapid.IntRange(-6, 0), n, n, rapid.ID[int]).Draw(t, "days"),
				Advance: rapid.IntRange(0, 8).Draw(t, "advance"), Reopen: rapid.IntRange(0, n-1).Draw(t, "reopen"),
				Task:    rapid.SampledFrom([]string{"retention", "retention", "expiredrange", "deletesuffix", "forced"}).Draw(t, "task"),
				Acquire: rapid.IntRange(-1, n-1).Draw(t, "acquire"), AcqFirst: rapid.Bool().Draw(t, "acqfirst"), Suffix2: rapid.IntRange(-2, n-1).Draw(t, "suffix2")}
			return c
		},
		Check: func(x *verifkit.Ctx, c raceCase) error {
			blocked, flaggedHeld, err := runRace(x, c)
			if err != nil {
				return err
			}
			x.Label("task:" + c.Task)
			x.LabelIf(blocked, "housekeeping waited for the parked reopen")
			x.LabelIf(flaggedHeld, "held segment selected for deletion")
			if blocked || flaggedHeld {
				x.NonTrivial()
			}
			return nil
		},
		MinLabelFrac: map[string]float64{"housekeeping waited for the parked reopen": 0.1},
	}
}
