package storage

import (
	"context"
	"encoding/json"
	"fmt"
	"os"
	"path/filepath"
	"sort"
	"strings"
	"sync"
	"sync/atomic"
	"testing"
	"time"
	_ "time/tzdata"

	"pgregory.net/rapid"

	"github.com/apache/skywalking-banyandb/api/common"
	commonv1 "github.com/apache/skywalking-banyandb/api/proto/banyandb/common/v1"
	"github.com/apache/skywalking-banyandb/pkg/fs"
	"github.com/apache/skywalking-banyandb/pkg/logger"
	"github.com/apache/skywalking-banyandb/pkg/timestamp"
	"github.com/apache/skywalking-banyandb/verifkit"
)

// ---------------------------------------------------------------------------------------------
// L2 kit: the real storage layer (OpenTSDB, segmentController, segment) with a mock clock and a
// small fake TSTable that persists what it is given in its shard directory.
// The cron scheduler is stopped after open so that every step is synchronous; retention runs
// are invoked through the real retentionTask.run with an explicit "now".
// ---------------------------------------------------------------------------------------------

var l2LogOnce sync.Once

type fakeTable struct {
	root   string
	closed atomic.Bool
}

var (
	fakeOpenCount  atomic.Int64
	fakeFailMarker = "FAIL_OPEN"
)

// fakeGate parks the opening of a shard table below the given directory prefix (a slow cold reopen) until release is closed.
type fakeGate struct {
	prefix  string
	entered chan struct{}
	release chan struct{}
	once    sync.Once
}

var fakeGateP atomic.Pointer[fakeGate]

func fakeCreator(_ fs.FileSystem, root string, _ common.Position, _ *logger.Logger, _ timestamp.TimeRange, _ int, _ any) (*fakeTable, error) {
	if g := fakeGateP.Load(); g != nil && strings.HasPrefix(root, g.prefix) {
		g.once.Do(func() { close(g.entered) })
		<-g.release
	}
	if _, err := os.Stat(filepath.Join(root, fakeFailMarker)); err == nil {
		return nil, fmt.Errorf("injected shard open failure at %s", root)
	}
	fakeOpenCount.Add(1)
	return &fakeTable{root: root}, nil
}

func (f *fakeTable) Close() error { f.closed.Store(true); return nil }

// collectGate parks a metrics scrape inside the Collect call of the shard tables below the given directory prefix.
type collectGate struct {
	prefix  string
	entered chan *fakeTable
	release chan struct{}
	once    sync.Once
}

var collectGateP atomic.Pointer[collectGate]

func (f *fakeTable) Collect(Metrics) {
	if g := collectGateP.Load(); g != nil && strings.HasPrefix(f.root, g.prefix) {
		parked := false
		g.once.Do(func() { parked = true; g.entered <- f })
		if parked {
			<-g.release
		}
	}
}
func (f *fakeTable) put(k, v string) error {
	if f.closed.Load() {
		return fmt.Errorf("write to a closed table %s", f.root)
	}
	fl, err := os.OpenFile(filepath.Join(f.root, "data.log"), os.O_CREATE|os.O_APPEND|os.O_WRONLY, 0o600)
	if err != nil {
		return err
	}
	defer fl.Close()
	_, err = fmt.Fprintf(fl, "%s=%s\n", k, v)
	return err
}

func readTableDir(root string) map[string]string {
	out := map[string]string{}
	b, err := os.ReadFile(filepath.Join(root, "data.log"))
	if err != nil {
		return out
	}
	for _, ln := range strings.Split(string(b), "\n") {
		if i := strings.IndexByte(ln, '='); i > 0 {
			out[ln[:i]] = ln[i+1:]
		}
	}
	return out
}

func (f *fakeTable) TakeFileSnapshot(dst string) (bool, error) {
	b, err := os.ReadFile(filepath.Join(f.root, "data.log"))
	if err != nil {
		if os.IsNotExist(err) {
			return false, nil
		}
		return false, err
	}
	if err := os.MkdirAll(dst, 0o700); err != nil {
		return false, err
	}
	return true, os.WriteFile(filepath.Join(dst, "data.log"), b, 0o600)
}

type sOp struct {
	Kind string `json:"kind"`
	T    int64  `json:"t,omitempty"`  // minutes from the base instant
	T2   int64  `json:"t2,omitempty"` // minutes (range end / clock advance)
	N    int    `json:"n,omitempty"`  // holder slot, interval num, ...
}

type sLegacy struct {
	Start int64 `json:"start"` // minutes from base, aligned down to the unit by the harness
	Len   int64 `json:"len"`   // length in units (hours or days)
}

type sCase struct {
	Zone    string    `json:"zone"`
	Unit    string    `json:"unit"` // hour | day
	Num     int       `json:"num"`
	TTLDays int       `json:"ttl_days"`
	Base    string    `json:"base"` // RFC3339 instant the offsets refer to
	Legacy  []sLegacy `json:"legacy,omitempty"`
	Ops     []sOp     `json:"ops"`
}

type mSeg struct {
	start, end time.Time
	holders    int
	open       bool
	flagged    bool
	gone       bool
	rows       map[string]string
	loc        string
}

type l2Env struct {
	c        sCase
	loc      *time.Location
	base     time.Time
	dir      string
	clock    timestamp.MockClock
	db       *database[*fakeTable, int]
	segs     []*mSeg // model, sorted by start
	held     map[int][]heldRef
	opts     TSDBOpts[*fakeTable, int]
	rule     IntervalRule
	ttl      IntervalRule
	seq      int
	stats    l2Stats
	removed  []*mSeg
	poisoned []*mSeg
	x        *verifkit.Ctx
}

// syncOpen copies the open/closed state of the real segments into the model after a failed
// multi-segment acquisition (which segments were reopened before the failure is an
// implementation detail; reference counts and directories are still compared exactly).
func (e *l2Env) syncOpen() {
	for _, s := range e.db.segmentController.copySegments() {
		for _, m := range e.segs {
			if m.start.Equal(s.Start) {
				s.mu.RLock()
				m.open = s.index != nil
				s.mu.RUnlock()
			}
		}
	}
}

type heldRef struct {
	seg  Segment[*fakeTable, int]
	real *segment[*fakeTable, int]
	m    *mSeg
}

type l2Stats struct {
	creates, newSegs, selects, retentions, forced, idle, reopens, updates, ttlUpdates, peeks int
	betweenExisting, legacyCap, dstDay, deleteWhileHeld, idleWhileHeld                       bool
	failedAcquire, nearExpiry, hiddenBeforeDelete, multiSeg                                  bool
	litter, snapshots                                                                        int
	tmpLitter, snapClosed                                                                    bool
}

func unitOf(s string) IntervalUnit {
	if s == "hour" {
		return HOUR
	}
	return DAY
}

func (e *l2Env) at(min int64) time.Time { return e.base.Add(time.Duration(min) * time.Minute) }

func (e *l2Env) open() error {
	ctx := timestamp.SetClock(context.Background(), e.clock)
	ctx = common.SetPosition(ctx, func(p common.Position) common.Position {
		p.Database = "verif"
		p.Stage = ""
		return p
	})
	tsdb, err := OpenTSDB(ctx, e.opts, nil, "verif-group")
	if err != nil {
		return err
	}
	e.db = tsdb.(*database[*fakeTable, int])
	// stop the cron retention job: retention runs are issued synchronously by the history
	e.db.scheduler.Close()
	return nil
}

func newL2Env(c sCase) (*l2Env, error) {
	l2LogOnce.Do(func() { _ = logger.Init(logger.Logging{Env: "dev", Level: "error"}) })
	loc, err := time.LoadLocation(c.Zone)
	if err != nil {
		return nil, err
	}
	time.Local = loc
	base, err := time.Parse(time.RFC3339, c.Base)
	if err != nil {
		return nil, err
	}
	dir, err := os.MkdirTemp("", "verif-l2-")
	if err != nil {
		return nil, err
	}
	e := &l2Env{c: c, loc: loc, base: base.In(loc), dir: dir, clock: timestamp.NewMockClock(), held: map[int][]heldRef{}}
	e.rule = IntervalRule{Unit: unitOf(c.Unit), Num: c.Num}
	e.ttl = IntervalRule{Unit: DAY, Num: c.TTLDays}
	e.clock.Set(e.base)
	e.opts = TSDBOpts[*fakeTable, int]{
		Location: filepath.Join(dir, "db"), SegmentInterval: e.rule, TTL: e.ttl, ShardNum: 2,
		TSTableCreator: fakeCreator, SeriesIndexFlushTimeoutSeconds: 1, SegmentIdleTimeout: time.Hour,
	}
	// legacy (off-grid) segments that exist before the database is opened
	if err := os.MkdirAll(e.opts.Location, 0o700); err != nil {
		return nil, err
	}
	for _, lg := range c.Legacy {
		// legacy segments are unit-aligned at both ends (their directory name only has unit
		// resolution) but need not sit on the Num-multiple grid
		st := e.rule.Unit.Standard(e.at(lg.Start))
		k := int(lg.Len)
		if k < 1 {
			k = 1
		}
		en := st.Add(time.Duration(k) * time.Hour)
		if e.rule.Unit == DAY {
			en = st.AddDate(0, 0, k)
		}
		if !en.After(st) {
			continue
		}
		overlap := false
		for _, m := range e.segs {
			if st.Before(m.end) && m.start.Before(en) {
				overlap = true
			}
		}
		if overlap {
			continue
		}
		p := filepath.Join(e.opts.Location, fmt.Sprintf(segTemplate, FormatSegmentTime(st, e.rule)))
		if _, err := os.Stat(p); err == nil {
			continue
		}
		if err := os.MkdirAll(p, 0o700); err != nil {
			return nil, err
		}
		meta, _ := json.Marshal(segmentMeta{Version: currentVersion, EndTime: en.Format(time.RFC3339Nano)})
		if err := os.WriteFile(filepath.Join(p, metadataFilename), meta, 0o600); err != nil {
			return nil, err
		}
		e.segs = append(e.segs, &mSeg{start: st, end: en, open: true, rows: map[string]string{}, loc: p})
	}
	e.sortModel()
	// the loader derives the end of the last legacy segment from metadata; neighbours cap each other
	if err := e.open(); err != nil {
		os.RemoveAll(dir)
		return nil, err
	}
	return e, nil
}

func (e *l2Env) sortModel() {
	sort.Slice(e.segs, func(i, j int) bool { return e.segs[i].start.Before(e.segs[j].start) })
}

func (e *l2Env) close() {
	if e.db != nil {
		_ = e.db.Close()
	}
	os.RemoveAll(e.dir)
}

func (e *l2Env) find(ts time.Time) *mSeg {
	for _, m := range e.segs {
		if !ts.Before(m.start) && ts.Before(m.end) {
			return m
		}
	}
	return nil
}

func (e *l2Env) findReal(m *mSeg) *segment[*fakeTable, int] {
	for _, s := range e.db.segmentController.copySegments() {
		if s.Start.Equal(m.start) {
			return s
		}
	}
	return nil
}

// invariants compares the real segment list and per-segment state with the model.
func (e *l2Env) invariants(what string) error {
	real := e.db.segmentController.copySegments()
	if len(real) != len(e.segs) {
		var rs []string
		for _, s := range real {
			rs = append(rs, s.String())
		}
		return fmt.Errorf("%s: %d segments listed, model has %d (%v)", what, len(real), len(e.segs), rs)
	}
	for i, s := range real {
		m := e.segs[i]
		if !s.Start.Equal(m.start) || !s.End.Equal(m.end) {
			return fmt.Errorf("%s: segment %d is [%s, %s), expected [%s, %s)", what, i, s.Start.In(e.loc), s.End.In(e.loc), m.start, m.end)
		}
		if i > 0 && s.Start.Before(real[i-1].End) {
			return fmt.Errorf("%s: segments overlap: [%s,%s) and [%s,%s)", what, real[i-1].Start, real[i-1].End, s.Start, s.End)
		}
		if !s.End.After(s.Start) {
			return fmt.Errorf("%s: empty or inverted segment [%s,%s)", what, s.Start, s.End)
		}
		rc := atomic.LoadInt32(&s.refCount)
		if int(rc) != m.holders {
			return fmt.Errorf("%s: segment %s has refCount %d, %d holder(s) are active", what, s, rc, m.holders)
		}
		s.mu.RLock()
		open := s.index != nil
		s.mu.RUnlock()
		if m.holders > 0 && !open {
			return fmt.Errorf("%s: segment %s is closed while %d holder(s) use it", what, s, m.holders)
		}
		if open != m.open {
			return fmt.Errorf("%s: segment %s open=%v, expected %v", what, s, open, m.open)
		}
		if _, err := os.Stat(s.location); err != nil {
			return fmt.Errorf("%s: directory of listed segment %s is missing: %v", what, s, err)
		}
	}
	// removed segments: gone from disk once unheld, still on disk (and open) while held
	for _, m := range e.removed {
		_, err := os.Stat(m.loc)
		if m.holders > 0 {
			if err != nil {
				return fmt.Errorf("%s: segment [%s,%s) was deleted while %d holder(s) still use it", what, m.start, m.end, m.holders)
			}
		} else if err == nil {
			return fmt.Errorf("%s: segment [%s,%s) selected for deletion and released by its last holder is still on disk", what, m.start, m.end)
		}
	}
	return nil
}

// l2Litter is the catalogue of engine artifacts a "litter" operation places in a shard directory (bit i of op.T selects entry i).
var l2Litter = []string{
	"0000000000000010/meta.bin", "0000000000000010/primary.bin", "0000000000000011.snp", "000000000000000f.snp.tmp", "idx/seg-1.seg", "idx/bluge.pid",
	"failed-parts/0000000000000009/meta.bin", "zz.tmp", "sidx/duration/0000000000000010/keys.bin", "idx/external-segment-temp/x.seg", "0000000000000003.snp.tmp",
	"0000000000000012/meta.bin",
}

// transient reports whether a path below a closed segment is one of the documented transient artifacts a snapshot may leave out.
func l2Transient(rel string) bool {
	for _, part := range strings.Split(filepath.ToSlash(rel), "/") {
		if part == "bluge.pid" || part == FailedPartsDirName || part == "external-segment-temp" || strings.HasSuffix(part, ".tmp") {
			return true
		}
	}
	return false
}

// snapshot takes a file snapshot of the database and checks it: no segment changes its open/closed state (a closed segment is
// never reopened), every listed segment is in the copy with its metadata, a closed segment's copy holds every non-transient file
// of the segment directory with identical content, an open segment's copy holds every shard's rows; the copy opens as a
// database and serves, segment by segment, exactly the rows written before the request.
func (e *l2Env) snapshot(what string) error {
	e.seq++
	dst := filepath.Join(e.dir, fmt.Sprintf("snap-%d", e.seq))
	opensBefore := fakeOpenCount.Load()
	ok, err := e.db.TakeFileSnapshot(dst)
	if err != nil {
		return fmt.Errorf("%s: TakeFileSnapshot failed: %v", what, err)
	}
	defer os.RemoveAll(dst)
	e.stats.snapshots++
	if fakeOpenCount.Load() != opensBefore {
		return fmt.Errorf("%s: the snapshot opened %d shard table(s): a closed segment was reopened", what, fakeOpenCount.Load()-opensBefore)
	}
	if err := e.invariants(what + " (after the snapshot)"); err != nil {
		return err
	}
	if len(e.segs) == 0 {
		if ok {
			return fmt.Errorf("%s: snapshot of a database without segments reports success", what)
		}
		return nil
	}
	if !ok {
		return fmt.Errorf("%s: snapshot of %d segment(s) reports that nothing was written", what, len(e.segs))
	}
	for _, m := range e.segs {
		segDst := filepath.Join(dst, filepath.Base(m.loc))
		srcMeta, rerr := os.ReadFile(filepath.Join(m.loc, metadataFilename))
		if rerr != nil {
			return rerr
		}
		dstMeta, rerr := os.ReadFile(filepath.Join(segDst, metadataFilename))
		if rerr != nil || string(srcMeta) != string(dstMeta) {
			return fmt.Errorf("%s: segment [%s,%s) (open=%v): metadata is missing from the snapshot or differs (%v)", what, m.start, m.end, m.open, rerr)
		}
		if !m.open {
			e.stats.snapClosed = true
			werr := filepath.Walk(m.loc, func(p string, info os.FileInfo, err error) error {
				if err != nil || info.IsDir() {
					return err
				}
				rel, _ := filepath.Rel(m.loc, p)
				if l2Transient(rel) {
					return nil
				}
				want, rerr := os.ReadFile(p)
				if rerr != nil {
					return rerr
				}
				got, rerr := os.ReadFile(filepath.Join(segDst, rel))
				if rerr != nil {
					return fmt.Errorf("%s: closed segment [%s,%s): %s is missing from the snapshot", what, m.start, m.end, rel)
				}
				if string(got) != string(want) {
					return fmt.Errorf("%s: closed segment [%s,%s): %s differs in the snapshot", what, m.start, m.end, rel)
				}
				return nil
			})
			if werr != nil {
				return werr
			}
		}
		// rows per shard
		got := map[string]string{}
		for sh := 0; sh < 2; sh++ {
			for k, v := range readTableDir(filepath.Join(segDst, fmt.Sprintf(shardTemplate, sh))) {
				got[fmt.Sprintf("%d/%s", sh, k)] = v
			}
		}
		if fmt.Sprint(got) != fmt.Sprint(m.rows) {
			return fmt.Errorf("%s: segment [%s,%s) (open=%v): the snapshot holds the rows %v, written before the request: %v", what, m.start, m.end, m.open, got, m.rows)
		}
	}
	// the copy opens as a database
	ropts := e.opts
	ropts.Location = dst
	ctx := timestamp.SetClock(context.Background(), e.clock)
	ctx = common.SetPosition(ctx, func(p common.Position) common.Position {
		p.Database = "verif-restored"
		return p
	})
	rdb, oerr := OpenTSDB(ctx, ropts, nil, "verif-group")
	if oerr != nil {
		return fmt.Errorf("%s: the snapshot does not open as a database: %v", what, oerr)
	}
	r := rdb.(*database[*fakeTable, int])
	r.scheduler.Close()
	defer r.Close()
	rsegs := r.segmentController.copySegments()
	if len(rsegs) != len(e.segs) {
		return fmt.Errorf("%s: the restored database lists %d segments, the source %d", what, len(rsegs), len(e.segs))
	}
	for i, rs := range rsegs {
		m := e.segs[i]
		if !rs.Start.Equal(m.start) || !rs.End.Equal(m.end) {
			return fmt.Errorf("%s: restored segment %d is [%s,%s), the source has [%s,%s)", what, i, rs.Start, rs.End, m.start, m.end)
		}
		tt, _ := rs.Tables()
		got := map[string]string{}
		for _, tb := range tt {
			sh := strings.TrimPrefix(filepath.Base(tb.root), "shard-")
			for k, v := range readTableDir(tb.root) {
				got[sh+"/"+k] = v
			}
		}
		if fmt.Sprint(got) != fmt.Sprint(m.rows) {
			return fmt.Errorf("%s: restored segment [%s,%s) serves the rows %v, written before the request: %v", what, m.start, m.end, got, m.rows)
		}
	}
	return nil
}

func (e *l2Env) expired(m *mSeg, now time.Time) bool {
	deadline := now.Add(-time.Duration(e.ttl.Num) * 24 * time.Hour)
	return !m.end.After(deadline)
}

func (e *l2Env) removeModel(m *mSeg) {
	for i, x := range e.segs {
		if x == m {
			e.segs = append(e.segs[:i], e.segs[i+1:]...)
			break
		}
	}
	m.flagged = true
	if m.holders == 0 {
		m.gone = true
		m.open = false
	}
	e.removed = append(e.removed, m)
}

func (e *l2Env) step(i int, op sOp) error {
	if op.Kind == "create" {
		ts := e.at(op.T)
		for _, m := range e.removed {
			if m.holders > 0 && !ts.Before(m.start) && ts.Before(m.end) && e.x.KnownActive("create-while-deleted-segment-held") {
				e.x.KnownExcluded("create-while-deleted-segment-held")
				return nil
			}
		}
	}
	what := fmt.Sprintf("op %d (%s)", i, op.Kind)
	switch op.Kind {
	case "create":
		ts := e.at(op.T)
		if ts.UnixNano() <= 0 {
			return nil
		}
		before := e.find(ts)
		seg, err := e.db.CreateSegmentIfNotExist(ts)
		if err != nil {
			if len(e.poisoned) > 0 {
				e.stats.failedAcquire = true
				e.syncOpen()
				return e.invariants(what)
			}
			return fmt.Errorf("%s at %s: %v", what, ts, err)
		}
		e.stats.creates++
		tr := seg.GetTimeRange()
		if !tr.Contains(ts.UnixNano()) {
			seg.DecRef()
			return fmt.Errorf("%s: timestamp %s was filed under segment [%s, %s) which does not contain it (rule %s x%d, zone %s)",
				what, ts.In(e.loc), tr.Start.In(e.loc), tr.End.In(e.loc), e.c.Unit, e.rule.Num, e.c.Zone)
		}
		if before != nil {
			if !tr.Start.Equal(before.start) || !tr.End.Equal(before.end) {
				seg.DecRef()
				return fmt.Errorf("%s: %s lies in existing segment [%s,%s) but [%s,%s) was returned", what, ts, before.start, before.end, tr.Start, tr.End)
			}
			before.open = true
		} else {
			m := &mSeg{start: tr.Start, end: tr.End, open: true, rows: map[string]string{}, loc: seg.Location()}
			// grid law for a segment that is not squeezed by a neighbour
			var prev, next *mSeg
			for _, x := range e.segs {
				if !x.end.After(m.start) {
					prev = x
				}
				if next == nil && !x.start.Before(m.end) {
					next = x
				}
			}
			ls := m.start.In(e.loc)
			bumped := prev != nil && prev.end.Equal(m.start)
			if !bumped {
				// HOUR: the start is the first instant of its local wall-clock hour (on a day whose DST gap removes
				// hh:00, e.g. a 30-minute shift, that is hh:30); DAY: local midnight
				onGrid := ls.Second() == 0 && ls.Nanosecond() == 0
				if e.rule.Unit == DAY {
					onGrid = onGrid && ls.Hour() == 0 && ls.Minute() == 0
				} else if ls.Minute() != 0 {
					pv := ls.Add(-time.Nanosecond)
					onGrid = onGrid && (pv.Hour() != ls.Hour() || pv.YearDay() != ls.YearDay())
				}
				if !onGrid {
					seg.DecRef()
					return fmt.Errorf("%s: new segment starts at %s which is not on the %s grid", what, ls, e.c.Unit)
				}
				if !e.rule.Standard(m.start).Equal(m.start) {
					seg.DecRef()
					return fmt.Errorf("%s: new segment start %s is not a grid point (Standard gives %s)", what, ls, e.rule.Standard(m.start))
				}
			}
			capped := next != nil && next.start.Equal(m.end)
			if !capped && !bumped {
				if want := e.rule.NextTime(m.start); !want.Equal(m.end) {
					seg.DecRef()
					return fmt.Errorf("%s: new unsqueezed segment is [%s,%s), one interval would end at %s", what, ls, m.end.In(e.loc), want)
				}
			}
			if prev != nil && next != nil {
				e.stats.betweenExisting = true
			}
			if capped && next.end.Sub(next.start) != e.rule.NextTime(next.start).Sub(next.start) {
				e.stats.legacyCap = true
			}
			// the directory name is reused when a deleted (and released) range is written again
			kept := e.removed[:0]
			for _, r := range e.removed {
				if r.loc != m.loc {
					kept = append(kept, r)
				}
			}
			e.removed = kept
			e.segs = append(e.segs, m)
			e.sortModel()
			e.stats.newSegs++
			before = m
		}
		// write one row through the segment's table and keep / release the reference
		tbl, terr := seg.CreateTSTableIfNotExist(common.ShardID(op.N % 2))
		if terr != nil {
			seg.DecRef()
			return fmt.Errorf("%s: shard open failed: %v", what, terr)
		}
		e.seq++
		k := fmt.Sprintf("k%d", e.seq)
		if perr := tbl.put(k, ts.Format(time.RFC3339Nano)); perr != nil {
			seg.DecRef()
			return fmt.Errorf("%s: %v", what, perr)
		}
		before.rows[fmt.Sprintf("%d/%s", op.N%2, k)] = ts.Format(time.RFC3339Nano)
		if op.T2 > 0 { // keep holding it in slot T2
			before.holders++
			e.held[int(op.T2)] = append(e.held[int(op.T2)], heldRef{seg: seg, m: before})
		} else {
			seg.DecRef()
		}
	case "select", "hold":
		a, b := e.at(op.T), e.at(op.T2)
		if b.Before(a) {
			a, b = b, a
		}
		tr := timestamp.NewInclusiveTimeRange(a, b)
		now := e.clock.Now()
		got, err := e.db.SelectSegments(tr, true)
		if err != nil {
			if len(e.poisoned) > 0 {
				// an injected reopen failure: the acquisition as a whole fails and must leave no reference behind
				e.stats.failedAcquire = true
				e.syncOpen()
				return e.invariants(what)
			}
			return fmt.Errorf("%s: %v", what, err)
		}
		e.stats.selects++
		var want []*mSeg
		for _, m := range e.segs {
			if m.start.After(b) || !m.end.After(a) {
				continue
			}
			// every overlapping segment is (re)opened by the lookup, also one that is then hidden
			m.open = true
			if e.expired(m, now) {
				e.stats.hiddenBeforeDelete = true
				continue
			}
			want = append(want, m)
		}
		if len(want) >= 2 {
			e.stats.multiSeg = true
		}
		seen := map[int64]bool{}
		for _, g := range got {
			st := g.GetTimeRange().Start
			if seen[st.UnixNano()] {
				return fmt.Errorf("%s: segment starting %s returned twice", what, st)
			}
			seen[st.UnixNano()] = true
		}
		for _, m := range want {
			if !seen[m.start.UnixNano()] {
				for _, g := range got {
					g.DecRef()
				}
				return fmt.Errorf("%s: range [%s,%s] overlaps live segment [%s,%s) (clock %s, TTL %dd) but it was not returned", what, a, b, m.start, m.end, now, e.ttl.Num)
			}
			m.open = true
		}
		if len(got) != len(want) {
			var gs []string
			for _, g := range got {
				gs = append(gs, g.GetTimeRange().String())
				g.DecRef()
			}
			return fmt.Errorf("%s: range [%s,%s] (clock %s, TTL %dd): %d segments returned %v, %d expected", what, a, b, now, e.ttl.Num, len(got), gs, len(want))
		}
		for _, g := range got {
			var m *mSeg
			for _, x := range want {
				if x.start.Equal(g.GetTimeRange().Start) {
					m = x
				}
			}
			// the holder sees its data
			for k, v := range m.rows {
				parts := strings.SplitN(k, "/", 2)
				shardDir := filepath.Join(g.Location(), fmt.Sprintf(shardTemplate, int(parts[0][0]-'0')))
				if readTableDir(shardDir)[parts[1]] != v {
					return fmt.Errorf("%s: row %s written to segment [%s,%s) is not readable from it", what, k, m.start, m.end)
				}
			}
			if op.Kind == "hold" {
				m.holders++
				e.held[op.N] = append(e.held[op.N], heldRef{seg: g, m: m})
			} else {
				g.DecRef()
			}
		}
	case "peek":
		// read-only stats lookup: never reopens, the caller releases whatever it got
		a, b := e.at(op.T), e.at(op.T2)
		if b.Before(a) {
			a, b = b, a
		}
		got, err := e.db.SelectSegments(timestamp.NewInclusiveTimeRange(a, b), false)
		if err != nil {
			return fmt.Errorf("%s: %v", what, err)
		}
		now := e.clock.Now()
		n := 0
		for _, m := range e.segs {
			if !(m.start.After(b) || !m.end.After(a)) && !e.expired(m, now) {
				n++
			}
		}
		if len(got) != n {
			for _, g := range got {
				g.DecRef()
			}
			return fmt.Errorf("%s: stats lookup over [%s,%s] returned %d segments, %d live segments overlap", what, a, b, len(got), n)
		}
		for _, g := range got {
			g.DecRef()
		}
		e.stats.peeks++
	case "poison":
		// make the next reopen of one idle-closed segment fail (its shard table cannot be opened)
		var closed []*mSeg
		for _, m := range e.segs {
			if !m.open && m.holders == 0 && len(m.rows) > 0 {
				closed = append(closed, m)
			}
		}
		if len(closed) == 0 {
			return nil
		}
		m := closed[op.N%len(closed)]
		for sh := 0; sh < 2; sh++ {
			d := filepath.Join(m.loc, fmt.Sprintf(shardTemplate, sh))
			if _, err := os.Stat(d); err == nil {
				_ = os.WriteFile(filepath.Join(d, fakeFailMarker), []byte("x"), 0o600)
			}
		}
		e.poisoned = append(e.poisoned, m)
	case "heal":
		for _, m := range e.poisoned {
			for sh := 0; sh < 2; sh++ {
				_ = os.Remove(filepath.Join(m.loc, fmt.Sprintf(shardTemplate, sh), fakeFailMarker))
			}
		}
		e.poisoned = nil
	case "tickacquire":
		// what the rotation tick does: pin every segment (reopening closed ones), then release
		ss, err := e.db.segmentController.segments(context.Background(), true)
		if err == nil {
			for _, s := range ss {
				s.DecRef()
			}
			for _, m := range e.segs {
				m.open = true
			}
		} else {
			e.stats.failedAcquire = true
			e.syncOpen()
		}
	case "release":
		for _, h := range e.held[op.N] {
			h.seg.DecRef()
			h.m.holders--
			if h.m.holders == 0 && h.m.flagged {
				h.m.gone = true
				h.m.open = false
			}
		}
		delete(e.held, op.N)
	case "advance":
		e.clock.Add(time.Duration(op.T2) * time.Minute)
	case "retention":
		now := e.clock.Now().Add(time.Duration(op.T) * time.Minute)
		if len(e.segs) >= 2 {
			for _, m := range e.segs {
				d := m.end.Add(time.Duration(e.ttl.Num) * 24 * time.Hour).Sub(now)
				if d > -e.rule.estimatedDuration() && d < e.rule.estimatedDuration() {
					e.stats.nearExpiry = true
				}
			}
		}
		rt := newRetentionTask(e.db, e.ttl)
		rt.run(context.Background(), now, e.db.logger)
		e.stats.retentions++
		for _, m := range append([]*mSeg(nil), e.segs...) {
			if e.expired(m, now) {
				if m.holders > 0 {
					e.stats.deleteWhileHeld = true
				}
				e.removeModel(m)
			}
		}
	case "forced":
		ok, err := e.db.DeleteOldestSegment()
		if err != nil {
			return fmt.Errorf("%s: %v", what, err)
		}
		e.stats.forced++
		wantDel := len(e.segs) > 1
		if ok != wantDel {
			return fmt.Errorf("%s: forced cleanup returned %v with %d segments present", what, ok, len(e.segs))
		}
		if wantDel {
			if e.segs[0].holders > 0 {
				e.stats.deleteWhileHeld = true
			}
			e.removeModel(e.segs[0])
		}
	case "litter":
		// files an engine leaves in a shard directory (parts, manifests, interrupted atomic writes, index directories, lock files)
		if len(e.segs) == 0 {
			return nil
		}
		m := e.segs[op.N%len(e.segs)]
		shardDir := filepath.Join(m.loc, fmt.Sprintf(shardTemplate, int(op.T2%2)))
		if _, err := os.Stat(shardDir); err != nil {
			return nil
		}
		for bit, rel := range l2Litter {
			if op.T&(1<<uint(bit)) == 0 {
				continue
			}
			full := filepath.Join(shardDir, filepath.FromSlash(rel))
			if err := os.MkdirAll(filepath.Dir(full), 0o700); err != nil {
				return err
			}
			e.seq++
			if err := os.WriteFile(full, []byte(fmt.Sprintf("litter-%d-%s", e.seq, rel)), 0o600); err != nil {
				return err
			}
			if strings.HasSuffix(rel, ".tmp") {
				e.stats.tmpLitter = true
			}
		}
		e.stats.litter++
	case "snapshot":
		if err := e.snapshot(what); err != nil {
			return err
		}
	case "idleclose":
		e.db.segmentController.idleTimeout = -time.Hour // every dormant segment counts as idle
		e.db.segmentController.closeIdleSegments()
		e.stats.idle++
		for _, m := range e.segs {
			if m.holders == 0 {
				m.open = false
			} else {
				e.stats.idleWhileHeld = true
			}
		}
	case "reopen":
		if len(e.held) > 0 || len(e.poisoned) > 0 {
			return nil // a clean restart happens with no query in flight (and no injected fault pending)
		}
		if err := e.db.Close(); err != nil {
			return fmt.Errorf("%s: close: %v", what, err)
		}
		e.removed = nil
		if err := e.open(); err != nil {
			return fmt.Errorf("%s: reopen failed: %v", what, err)
		}
		e.stats.reopens++
		for _, m := range e.segs {
			m.open = true
		}
	case "ttl":
		if op.N <= 0 {
			return nil
		}
		e.ttl.Num = op.N
		u := commonv1.IntervalRule_UNIT_DAY
		if e.rule.Unit == HOUR {
			u = commonv1.IntervalRule_UNIT_HOUR
		}
		e.db.UpdateOptions(&commonv1.ResourceOpts{ShardNum: 2,
			SegmentInterval: &commonv1.IntervalRule{Unit: u, Num: uint32(e.rule.Num)},
			Ttl:             &commonv1.IntervalRule{Unit: commonv1.IntervalRule_UNIT_DAY, Num: uint32(op.N)}})
		e.opts.TTL = e.ttl
		e.stats.ttlUpdates++
	case "update":
		if op.N <= 0 {
			return nil
		}
		e.rule.Num = op.N
		u := commonv1.IntervalRule_UNIT_DAY
		if e.rule.Unit == HOUR {
			u = commonv1.IntervalRule_UNIT_HOUR
		}
		e.db.UpdateOptions(&commonv1.ResourceOpts{ShardNum: 2,
			SegmentInterval: &commonv1.IntervalRule{Unit: u, Num: uint32(op.N)},
			Ttl:             &commonv1.IntervalRule{Unit: commonv1.IntervalRule_UNIT_DAY, Num: uint32(e.ttl.Num)}})
		e.opts.SegmentInterval = e.rule
		e.stats.updates++
	}
	return e.invariants(what)
}

func runL2(x *verifkit.Ctx, c sCase) (l2Stats, error) {
	e, err := newL2Env(c)
	if err != nil {
		return l2Stats{}, fmt.Errorf("open with %d legacy segments failed: %v", len(c.Legacy), err)
	}
	e.x = x
	defer e.close()
	if err := e.invariants("after open"); err != nil {
		return e.stats, err
	}
	for i, op := range c.Ops {
		if err := e.step(i, op); err != nil {
			return e.stats, err
		}
	}
	// release everything: nothing may stay pinned, every segment can be idle-closed
	if err := e.step(len(c.Ops), sOp{Kind: "heal"}); err != nil {
		return e.stats, err
	}
	for slot := range e.held {
		if err := e.step(len(c.Ops), sOp{Kind: "release", N: slot}); err != nil {
			return e.stats, err
		}
	}
	if err := e.step(len(c.Ops)+1, sOp{Kind: "idleclose"}); err != nil {
		return e.stats, err
	}
	for _, s := range e.db.segmentController.copySegments() {
		s.mu.RLock()
		open := s.index != nil
		s.mu.RUnlock()
		if open {
			return e.stats, fmt.Errorf("after releasing every holder segment %s cannot be idle-closed (refCount %d): a reference leaked", s, atomic.LoadInt32(&s.refCount))
		}
	}
	// DST day label
	for _, op := range c.Ops {
		if op.Kind == "create" {
			t := e.at(op.T)
			_, o1 := t.In(e.loc).Zone()
			_, o2 := t.Add(24 * time.Hour).In(e.loc).Zone()
			_, o3 := t.Add(-24 * time.Hour).In(e.loc).Zone()
			if o1 != o2 || o1 != o3 {
				e.stats.dstDay = true
			}
		}
	}
	return e.stats, nil
}

// ---------------------------------------------------------------------------------------------
// generators
// ---------------------------------------------------------------------------------------------

var l2Zones = []string{"UTC", "Asia/Shanghai", "Asia/Kolkata", "America/New_York", "Europe/Berlin", "Australia/Lord_Howe", "Asia/Kathmandu", "Pacific/Apia", "America/Sao_Paulo"}

// bases near DST switches of the zones above, plus plain days
var l2Bases = []string{"2024-03-09T12:00:00Z", "2024-11-02T12:00:00Z", "2024-03-30T12:00:00Z", "2024-10-26T12:00:00Z", "2024-04-06T02:00:00Z",
	"2024-10-05T02:00:00Z", "2024-06-15T00:00:00Z", "2024-01-01T00:00:00Z", "2011-12-29T00:00:00Z", "2000-10-07T00:00:00Z", "2024-02-28T18:00:00Z"}

// offClass reports whether the zone's UTC offset at some instant used by the case differs from its
// 1970 offset by a non-multiple of num hours (the documented anchor of the HOUR grid).
func hourGridOffClass(c sCase) bool {
	if c.Unit != "hour" {
		return false
	}
	loc, err := time.LoadLocation(c.Zone)
	if err != nil {
		return false
	}
	base, _ := time.Parse(time.RFC3339, c.Base)
	_, off70 := time.Date(1970, 1, 1, 0, 0, 0, 0, loc).Zone()
	if c.Zone == "Australia/Lord_Howe" && len(c.Legacy) > 0 {
		// a 30-minute DST shift: an older HOUR x n>1 segment that spans the switch ends at hh:30, the next new
		// segment is squeezed to start there, but its directory name only keeps the hour
		return true
	}
	nums := map[int]bool{c.Num: true}
	for _, op := range c.Ops {
		if op.Kind == "update" && op.N > 0 {
			nums[op.N] = true
		}
	}
	for _, op := range c.Ops {
		if op.Kind != "create" {
			continue
		}
		ts := base.Add(time.Duration(op.T) * time.Minute)
		for n := range nums {
			// a zone that skipped a calendar day (date-line change) is off by that day as well
			if n > 1 && c.Zone == "Pacific/Apia" {
				return true
			}
			// the bucket that holds ts may start up to n hours earlier, under another offset
			for k := -n; n > 1 && k <= n; k++ {
				_, off := ts.Add(time.Duration(k) * time.Hour).In(loc).Zone()
				if (off-off70)%(n*3600) != 0 {
					return true
				}
			}
		}
	}
	return false
}

// fallBackNameClass: with hourly segments the directory name is the local wall-clock hour
// ("2006010215"), which is ambiguous for the repeated period after a DST fall-back. The class is
// every hour-unit case with a create timestamp within [transition-1h, transition+shift+1h).
func fallBackNameClass(c sCase) bool {
	if c.Unit != "hour" {
		return false
	}
	loc, err := time.LoadLocation(c.Zone)
	if err != nil {
		return false
	}
	base, _ := time.Parse(time.RFC3339, c.Base)
	for _, op := range c.Ops {
		if op.Kind != "create" {
			continue
		}
		ts := base.Add(time.Duration(op.T) * time.Minute).In(loc)
		for _, probe := range []time.Time{ts, ts.Add(time.Hour)} {
			start, _ := probe.ZoneBounds()
			if start.IsZero() {
				continue
			}
			_, off := start.Zone()
			_, prev := start.Add(-time.Nanosecond).Zone()
			if prev > off { // fall back by prev-off seconds at `start`
				d := time.Duration(prev-off) * time.Second
				if !ts.Before(start.Add(-time.Hour)) && ts.Before(start.Add(d+time.Hour)) {
					return true
				}
			}
		}
	}
	return false
}

// midnightDSTDayClass: zones whose DST switch happens at local midnight (the day has no 00:00).
func midnightDSTDayClass(c sCase) bool {
	return c.Unit == "day" && c.Zone == "America/Sao_Paulo" && c.Base < "2019"
}

func dayGridOddZoneClass(c sCase) bool {
	if c.Unit != "day" {
		return false
	}
	multi := c.Num > 1
	for _, op := range c.Ops {
		if op.Kind == "update" && op.N > 1 {
			multi = true
		}
	}
	switch c.Zone {
	case "Pacific/Apia", "America/Sao_Paulo", "America/New_York", "Europe/Berlin", "Australia/Lord_Howe":
		if multi {
			return true // zones with DST (or a skipped day): days are not all 24 h long
		}
	}
	// the skipped calendar day itself (Pacific/Apia had no 2011-12-30): with any n the segment of 2011-12-29
	// ends where it starts
	if c.Zone == "Pacific/Apia" {
		loc, err := time.LoadLocation(c.Zone)
		base, _ := time.Parse(time.RFC3339, c.Base)
		for _, op := range c.Ops {
			if err != nil || op.Kind != "create" {
				continue
			}
			ts := base.Add(time.Duration(op.T) * time.Minute).In(loc)
			if ts.Year() == 2011 && ts.Month() == time.December && ts.Day() >= 28 {
				return true
			}
			if ts.Year() == 2012 && ts.Month() == time.January && ts.Day() <= 2 {
				return true
			}
		}
	}
	return false
}

type l2Profile struct {
	kinds   []string
	maxOps  int
	ttl     []int
	legacy  bool
	zones   []string
	farPast bool
}

func genL2(t *rapid.T, p l2Profile, ks *verifkit.KnownSet) sCase {
	c := sCase{Zone: rapid.SampledFrom(p.zones).Draw(t, "zone"), Unit: rapid.SampledFrom([]string{"hour", "day"}).Draw(t, "unit"),
		Base: rapid.SampledFrom(l2Bases).Draw(t, "base"), TTLDays: rapid.SampledFrom(p.ttl).Draw(t, "ttl")}
	if c.Unit == "hour" {
		c.Num = rapid.SampledFrom([]int{1, 1, 2, 3, 4, 6, 12, 24, 48}).Draw(t, "num")
	} else {
		c.Num = rapid.SampledFrom([]int{1, 1, 1, 2, 3, 7}).Draw(t, "num")
	}
	if len(p.zones) > 4 && rapid.IntRange(0, 3).Draw(t, "dstpair") == 0 {
		// a zone together with one of its own DST switch days, on the plain (x1) grid
		pair := rapid.SampledFrom([][2]string{{"America/New_York", "2024-03-10T05:00:00Z"}, {"America/New_York", "2024-11-03T04:00:00Z"},
			{"Europe/Berlin", "2024-03-31T00:00:00Z"}, {"Europe/Berlin", "2024-10-27T00:00:00Z"}, {"Australia/Lord_Howe", "2024-04-06T14:00:00Z"},
			{"Australia/Lord_Howe", "2024-10-05T15:00:00Z"}, {"America/Sao_Paulo", "2018-11-04T02:00:00Z"}}).Draw(t, "pair")
		c.Zone, c.Base, c.Num = pair[0], pair[1], 1
	}
	unitMin := int64(60)
	if c.Unit == "day" {
		unitMin = 1440
	}
	span := unitMin * int64(c.Num) * 4
	if p.legacy && rapid.IntRange(0, 2).Draw(t, "haslegacy") == 0 {
		for i := 0; i < rapid.IntRange(1, 3).Draw(t, "nlegacy"); i++ {
			c.Legacy = append(c.Legacy, sLegacy{Start: rapid.Int64Range(-span, span).Draw(t, "lstart"),
				Len: rapid.Int64Range(1, int64(c.Num)*2).Draw(t, "llen")})
		}
	}
	genT := func(label string) int64 {
		switch rapid.IntRange(0, 5).Draw(t, label+"/k") {
		case 0: // around a unit boundary
			return rapid.Int64Range(-6, 6).Draw(t, label+"/u")*unitMin + rapid.Int64Range(-1, 1).Draw(t, label+"/d")
		case 1:
			if p.farPast {
				return rapid.Int64Range(-60*1440, 60*1440).Draw(t, label+"/far")
			}
			return rapid.Int64Range(-span, span).Draw(t, label)
		default:
			return rapid.Int64Range(-span, span).Draw(t, label)
		}
	}
	n := rapid.IntRange(1, p.maxOps).Draw(t, "nops")
	for i := 0; i < n; i++ {
		op := sOp{Kind: rapid.SampledFrom(p.kinds).Draw(t, "kind")}
		switch op.Kind {
		case "create":
			op.T, op.N = genT("t"), rapid.IntRange(0, 1).Draw(t, "shard")
			if rapid.IntRange(0, 4).Draw(t, "keep") == 0 {
				op.T2 = int64(rapid.IntRange(1, 3).Draw(t, "slot"))
			}
		case "select", "hold", "peek":
			op.T, op.T2, op.N = genT("a"), genT("b"), rapid.IntRange(1, 3).Draw(t, "slot")
		case "release":
			op.N = rapid.IntRange(1, 3).Draw(t, "slot")
		case "litter":
			op.N, op.T2 = rapid.IntRange(0, 5).Draw(t, "lseg"), int64(rapid.IntRange(0, 1).Draw(t, "lshard"))
			op.T = int64(rapid.IntRange(1, 1<<len(l2Litter)-1).Draw(t, "lmask"))
		case "poison":
			op.N = rapid.IntRange(0, 5).Draw(t, "which")
		case "advance":
			op.T2 = rapid.SampledFrom([]int64{1, 30, 60, 720, 1440, 1441, 2880, 1440 * 7}).Draw(t, "adv")
		case "retention":
			op.T = rapid.SampledFrom([]int64{0, 0, 1, -1, 60, 1440}).Draw(t, "skew")
		case "ttl":
			op.N = rapid.SampledFrom([]int{1, 2, 3, 5, 30}).Draw(t, "newttl")
		case "update":
			if c.Unit == "hour" {
				op.N = rapid.SampledFrom([]int{1, 2, 3, 6, 12, 24}).Draw(t, "newnum")
			} else {
				op.N = rapid.SampledFrom([]int{1, 2, 3, 7}).Draw(t, "newnum")
			}
		}
		c.Ops = append(c.Ops, op)
	}
	for _, k := range p.kinds {
		if k == "poison" && rapid.IntRange(0, 3).Draw(t, "faultscenario") == 0 {
			// a reopen failure in the middle of a multi-segment acquisition
			c.Ops = append(c.Ops, sOp{Kind: "create", T: genT("ft1")}, sOp{Kind: "create", T: genT("ft2")}, sOp{Kind: "idleclose"},
				sOp{Kind: "poison", N: rapid.IntRange(0, 3).Draw(t, "fwhich")},
				sOp{Kind: rapid.SampledFrom([]string{"tickacquire", "hold", "tickacquire"}).Draw(t, "facq"), T: -span, T2: span, N: 2},
				sOp{Kind: "heal"}, sOp{Kind: "release", N: 2})
			break
		}
	}
	// construct around the recorded grid findings
	if ks.Active("hour-grid-dst-offset") && hourGridOffClass(c) {
		ks.Excluded("hour-grid-dst-offset")
		c.Zone = "UTC"
	}
	if ks.Active("day-grid-odd-zone") && (dayGridOddZoneClass(c) || midnightDSTDayClass(c)) {
		ks.Excluded("day-grid-odd-zone")
		c.Zone = "UTC"
	}
	if ks.Active("hour-name-ambiguous-at-dst-fall-back") && fallBackNameClass(c) {
		// keep the DST day, move the creates out of the ambiguous window
		ks.Excluded("hour-name-ambiguous-at-dst-fall-back")
		for tries := 0; tries < 6 && fallBackNameClass(c); tries++ {
			for i := range c.Ops {
				if c.Ops[i].Kind == "create" {
					c.Ops[i].T += 150
				}
			}
		}
		if fallBackNameClass(c) {
			c.Zone = "UTC"
		}
	}
	return c
}

func l2Sample(c sCase) any { return c }

// createAfterDeleteWhileHeldClass: a reference is kept (hold / create with a slot), a delete
// (retention / forced) follows, and a create comes after it.
func createAfterDeleteWhileHeldClass(c sCase) bool {
	held, deleted := false, false
	for _, op := range c.Ops {
		switch {
		case op.Kind == "hold" || (op.Kind == "create" && op.T2 > 0):
			held = true
			if deleted {
				return true
			}
		case (op.Kind == "retention" || op.Kind == "forced") && held:
			deleted = true
		case op.Kind == "create" && deleted:
			return true
		}
	}
	return false
}

var l2Known = []verifkit.Known[sCase]{
	{Key: "create-while-deleted-segment-held", Match: createAfterDeleteWhileHeldClass},
	{Key: "hour-grid-dst-offset", Match: hourGridOffClass},
	{Key: "day-grid-odd-zone", Match: dayGridOddZoneClass},
	{Key: "hour-name-ambiguous-at-dst-fall-back", Match: fallBackNameClass},
	{Key: "day-grid-odd-zone", Match: midnightDSTDayClass},
}

func TestVerifC06(t *testing.T) {
	p := l2Profile{kinds: []string{"create", "create", "create", "create", "select", "select", "reopen", "update", "advance", "idleclose"}, maxOps: 16,
		ttl: []int{400}, legacy: true, zones: l2Zones}
	verifkit.Run(t, verifkit.Spec[sCase]{
		Property: "C06", Unit: "storage_l2", CrashReplay: true,
		Rule: "a configuration (unit hour/day, multiple 1..48, zone from 9 zones incl. DST and odd offsets, base instants around DST switches, optional " +
			"pre-existing off-grid legacy segments) and 1..16 operations create(ts near grid lines / random / duplicate), select(range), reopen, " +
			"update(interval), advance clock, idle-close against the real OpenTSDB with a mock clock; oracle: interval-set model - after every step " +
			"the segment list is sorted, pairwise disjoint and equals the model; create(ts) returns the one segment containing ts; a new unsqueezed " +
			"segment starts on the hour/day grid and spans one interval; boundaries unchanged by reopen/update; select returns exactly the " +
			"overlapping segments once, with their rows; non-trivial = >= 3 segments incl. one created between two others, or a DST day, or a legacy cap",
		Known:    l2Known,
		Gen:      func(t *rapid.T, ks *verifkit.KnownSet) sCase { return genL2(t, p, ks) },
		SampleOf: l2Sample,
		Check: func(x *verifkit.Ctx, c sCase) error {
			st, err := runL2(x, c)
			if err != nil {
				return err
			}
			x.LabelIf(st.betweenExisting, "segment created between two existing")
			x.LabelIf(st.legacyCap, "legacy neighbour caps a new segment")
			x.LabelIf(st.dstDay, "DST day")
			x.LabelIf(st.reopens > 0, "reopen")
			x.LabelIf(st.updates > 0, "interval update")
			x.LabelIf(len(c.Legacy) > 0, "legacy segments")
			x.LabelIf(st.multiSeg, "select over >=2 segments")
			x.Label("unit:" + c.Unit)
			if (st.newSegs >= 3 && st.betweenExisting) || st.dstDay || st.legacyCap {
				x.NonTrivial()
			}
			return nil
		},
		MinLabelFrac: map[string]float64{"segment created between two existing": 0.05, "DST day": 0.04, "reopen": 0.1, "interval update": 0.2},
	})
}

func TestVerifC07(t *testing.T) {
	p := l2Profile{kinds: []string{"create", "create", "create", "select", "select", "retention", "retention", "forced", "advance", "advance", "hold", "release", "ttl", "reopen", "peek", "update"}, maxOps: 20,
		ttl: []int{1, 1, 2, 3}, legacy: false, zones: []string{"UTC", "Asia/Shanghai", "America/New_York"}}
	verifkit.Run(t, verifkit.Spec[sCase]{
		Property: "C07", Unit: "storage_l2", CrashReplay: true,
		Rule: "short TTLs (1-3 days) with hour/day intervals, 1..20 operations create / select / hold / release / advance clock (minutes to a week) / " +
			"scheduled retention run (now = clock +- skew) / forced oldest-segment cleanup / run-time change of the TTL and of the segment interval (existing segments keep their span, so " +
			"segments longer or shorter than the current interval exist) / restart against the real storage layer with a mock clock; oracle: a " +
			"retention run removes exactly the segments whose end <= now - TTL and no other; forced cleanup removes exactly the oldest segment iff more " +
			"than one exists; a segment whose end <= clock - TTL is not returned by select even before deletion while every other overlapping segment is, " +
			"with its rows; held segments keep their directory until released; non-trivial = a retention run or select with a segment within one interval " +
			"of its expiry and >= 2 segments",
		Known:    l2Known,
		Gen:      func(t *rapid.T, ks *verifkit.KnownSet) sCase { return genL2(t, p, ks) },
		SampleOf: l2Sample,
		Check: func(x *verifkit.Ctx, c sCase) error {
			st, err := runL2(x, c)
			if err != nil {
				return err
			}
			x.LabelIf(st.nearExpiry, "retention near an expiry edge")
			x.LabelIf(st.hiddenBeforeDelete, "expired segment hidden before deletion")
			x.LabelIf(st.forced > 0, "forced cleanup")
			x.LabelIf(st.deleteWhileHeld, "delete while held")
			x.LabelIf(st.retentions > 0, "retention run")
			x.LabelIf(st.ttlUpdates > 0, "TTL changed at run time")
			x.LabelIf(st.updates > 0 && st.retentions > 0, "interval changed at run time and a retention run")
			if st.nearExpiry || st.hiddenBeforeDelete {
				x.NonTrivial()
			}
			return nil
		},
		MinLabelFrac: map[string]float64{"retention run": 0.3, "retention near an expiry edge": 0.02, "expired segment hidden before deletion": 0.02},
	})
}

func TestVerifC14(t *testing.T) {
	p := l2Profile{kinds: []string{"create", "create", "hold", "hold", "release", "release", "idleclose", "idleclose", "retention", "forced", "select", "advance", "reopen", "peek", "peek", "poison", "poison", "heal", "tickacquire", "tickacquire"}, maxOps: 24,
		ttl: []int{1, 2, 400}, legacy: false, zones: []string{"UTC", "Asia/Shanghai"}}
	verifkit.Run(t, verifkit.Spec[sCase]{
		Property: "C14", Unit: "storage_l2", CrashReplay: true,
		Rule: "1..24 operations over up to ~8 segments and 3 holder slots: create(+optionally keep the reference), hold(range) (= SelectSegments kept), " +
			"release(slot), idle-close, retention delete, forced delete, select, advance, restart; oracle (reference model per segment {holders, open, " +
			"on disk, flagged}): after every step refCount == holders, open/closed state, directory existence and list membership equal the model; a held " +
			"segment is open and on disk; a deleted segment disappears exactly when its last holder releases it; after releasing all holders every " +
			"segment can be idle-closed (no leaked reference); non-trivial = delete or idle-close issued while a holder is active",
		Known:    l2Known,
		Gen:      func(t *rapid.T, ks *verifkit.KnownSet) sCase { return genL2(t, p, ks) },
		SampleOf: l2Sample,
		Check: func(x *verifkit.Ctx, c sCase) error {
			st, err := runL2(x, c)
			if err != nil {
				return err
			}
			x.LabelIf(st.deleteWhileHeld, "delete while held")
			x.LabelIf(st.idleWhileHeld, "idle-close while held")
			x.LabelIf(st.idle > 0, "idle-close")
			x.LabelIf(st.failedAcquire, "failed acquisition (injected reopen failure)")
			if st.deleteWhileHeld || st.idleWhileHeld || st.failedAcquire {
				x.NonTrivial()
			}
			return nil
		},
		MinLabelFrac: map[string]float64{"delete while held": 0.01, "idle-close while held": 0.05, "failed acquisition (injected reopen failure)": 0.01},
	})
}

func TestVerifC19Storage(t *testing.T) {
	p := l2Profile{kinds: []string{"create", "create", "create", "hold", "release", "release", "idleclose", "idleclose", "litter", "litter", "snapshot", "snapshot", "select", "advance", "reopen"},
		maxOps: 20, ttl: []int{400}, legacy: false, zones: []string{"UTC"}}
	verifkit.Run(t, verifkit.Spec[sCase]{
		Property: "C19", Unit: "storage_snapshot", CrashReplay: true,
		Rule: "1..20 operations on a real TSDB (2 shards, file-backed stand-in tables): create a segment / write a row (optionally keeping the reference), hold, " +
			"release, idle-close, restart, litter (engine artifacts placed in a shard directory: part directories, *.snp manifests, *.snp.tmp and *.tmp leftovers " +
			"that sort before and after them, idx / sidx directories, lock file, failed-parts) and TakeFileSnapshot at generated positions over open, dormant and " +
			"idle-closed segments; oracle per snapshot: no shard table is opened and no segment changes its open/closed state, every segment is in the copy with " +
			"its metadata, the copy of a closed segment holds every non-transient file with identical content, the copy opens as a database and serves per " +
			"segment exactly the rows written before the request; non-trivial = a snapshot over an idle-closed segment that holds a *.tmp leftover",
		Gen: func(t *rapid.T, ks *verifkit.KnownSet) sCase {
			if rapid.IntRange(0, 3).Draw(t, "free") == 0 {
				return genL2(t, p, ks)
			}
			// rounds of: writes into a few segments, artifacts, idle-close (segments with a kept reference stay open), some reopened, snapshot
			c := sCase{Zone: "UTC", Unit: rapid.SampledFrom([]string{"hour", "day"}).Draw(t, "unit"), Num: 1, TTLDays: 400, Base: rapid.SampledFrom(l2Bases).Draw(t, "base")}
			unitMin := int64(60)
			if c.Unit == "day" {
				unitMin = 1440
			}
			for round := rapid.IntRange(1, 3).Draw(t, "rounds"); round > 0; round-- {
				for k := rapid.IntRange(1, 4).Draw(t, "creates"); k > 0; k-- {
					op := sOp{Kind: "create", T: rapid.Int64Range(-3, 3).Draw(t, "u")*unitMin + rapid.Int64Range(0, 30).Draw(t, "d"), N: rapid.IntRange(0, 1).Draw(t, "shard")}
					if rapid.IntRange(0, 4).Draw(t, "keep") == 0 {
						op.T2 = int64(rapid.IntRange(1, 3).Draw(t, "slot"))
					}
					c.Ops = append(c.Ops, op)
				}
				for k := rapid.IntRange(0, 3).Draw(t, "litters"); k > 0; k-- {
					c.Ops = append(c.Ops, sOp{Kind: "litter", N: rapid.IntRange(0, 5).Draw(t, "lseg"), T2: int64(rapid.IntRange(0, 1).Draw(t, "lshard")),
						T: int64(rapid.IntRange(1, 1<<len(l2Litter)-1).Draw(t, "lmask"))})
				}
				if rapid.IntRange(0, 3).Draw(t, "idle") > 0 {
					c.Ops = append(c.Ops, sOp{Kind: "idleclose"})
					if rapid.IntRange(0, 2).Draw(t, "touch") == 0 {
						c.Ops = append(c.Ops, sOp{Kind: "select", T: rapid.Int64Range(-3, 3).Draw(t, "sa") * unitMin, T2: rapid.Int64Range(-3, 3).Draw(t, "sb") * unitMin, N: 1})
					}
				}
				c.Ops = append(c.Ops, sOp{Kind: "snapshot"})
				switch rapid.IntRange(0, 3).Draw(t, "after") {
				case 0:
					c.Ops = append(c.Ops, sOp{Kind: "release", N: rapid.IntRange(1, 3).Draw(t, "rslot")})
				case 1:
					c.Ops = append(c.Ops, sOp{Kind: "reopen"})
				}
			}
			return c
		},
		SampleOf: l2Sample,
		Check: func(x *verifkit.Ctx, c sCase) error {
			st, err := runL2(x, c)
			if err != nil {
				return err
			}
			x.LabelIf(st.snapshots > 0, "snapshot taken")
			x.LabelIf(st.snapClosed, "snapshot over an idle-closed segment")
			x.LabelIf(st.snapClosed && st.litter > 0, "closed segment with engine artifacts")
			x.LabelIf(st.snapClosed && st.tmpLitter, "closed segment with a .tmp leftover")
			if st.snapClosed && st.tmpLitter {
				x.NonTrivial()
			}
			return nil
		},
		MinLabelFrac: map[string]float64{"snapshot taken": 0.5, "snapshot over an idle-closed segment": 0.15, "closed segment with a .tmp leftover": 0.05},
	})
}
