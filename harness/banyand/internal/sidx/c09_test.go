package sidx

import (
	"context"
	"fmt"
	"math"
	"os"
	"sort"
	"strings"
	"sync"
	"testing"

	"pgregory.net/rapid"

	"github.com/apache/skywalking-banyandb/api/common"
	modelv1 "github.com/apache/skywalking-banyandb/api/proto/banyandb/model/v1"
	snapshotpkg "github.com/apache/skywalking-banyandb/banyand/internal/snapshot"
	"github.com/apache/skywalking-banyandb/banyand/protector"
	"github.com/apache/skywalking-banyandb/pkg/convert"
	"github.com/apache/skywalking-banyandb/pkg/fs"
	"github.com/apache/skywalking-banyandb/pkg/index"
	"github.com/apache/skywalking-banyandb/pkg/logger"
	pbv1 "github.com/apache/skywalking-banyandb/pkg/pb/v1"
	"github.com/apache/skywalking-banyandb/pkg/query/model"
	"github.com/apache/skywalking-banyandb/verifkit"
)

// C09 / C03 (ordered secondary index): through its public interface the sidx returns every
// matching entry within the requested key range exactly once, in key order, through both the
// streaming and the synchronous interface - before, between and after flushes and merges of any
// subset of parts.

type xElem struct {
	S int   `json:"s"` // series id
	K int64 `json:"k"` // user key
	D int   `json:"d"` // data payload id (unique per element unless the case repeats payloads)
}

type xOp struct {
	Kind  string  `json:"kind"` // write | flush | merge | query
	Elems []xElem `json:"elems,omitempty"`
	Pick  []int   `json:"pick,omitempty"`
	Sids  []int   `json:"sids,omitempty"`
	Min   *int64  `json:"min,omitempty"`
	Max   *int64  `json:"max,omitempty"`
	Desc  bool    `json:"desc,omitempty"`
	Batch int     `json:"batch,omitempty"`
	Slot  int     `json:"slot,omitempty"`
	// TagKind (write): every element of the batch carries a tag "status" of this type: "" none | "str" (ok / error by payload
	// parity) | "int" (200 / 500). Filter (query): only entries whose status is the string "ok".
	TagKind string `json:"tag_kind,omitempty"`
	Filter  bool   `json:"filter,omitempty"`
	// Arr (write): every element also carries a string-array tag "labels": ["a|b","c"] for even payload ids, ["z"] for odd ones.
	// ArrFilter (query): only entries whose labels are exactly ["a|b","c"].
	Arr       bool `json:"arr,omitempty"`
	ArrFilter bool `json:"arr_filter,omitempty"`
}

// xLabelsAB is the tag filter of an array-filtered query: labels is exactly ["a|b", "c"].
type xLabelsAB struct{}

func (xLabelsAB) Match(tags []*modelv1.Tag) (bool, error) {
	for _, tag := range tags {
		if tag.Key == "labels" && tag.Value.GetStrArray() != nil {
			v := tag.Value.GetStrArray().GetValue()
			if len(v) == 2 && v[0] == "a|b" && v[1] == "c" {
				return true, nil
			}
		}
	}
	return false, nil
}

func (xLabelsAB) GetDecoder() model.TagValueDecoder {
	return func(valueType pbv1.ValueType, value []byte, valueArr [][]byte) *modelv1.TagValue {
		if valueType != pbv1.ValueTypeStrArr || valueArr == nil {
			return pbv1.NullTagValue
		}
		var out []string
		for _, v := range valueArr {
			out = append(out, string(v))
		}
		return &modelv1.TagValue{Value: &modelv1.TagValue_StrArray{StrArray: &modelv1.StrArray{Value: out}}}
	}
}

// xStatusOK is the tag filter of a filtered query: status is a string and equals "ok".
type xStatusOK struct{}

func (xStatusOK) Match(tags []*modelv1.Tag) (bool, error) {
	for _, tag := range tags {
		if tag.Key == "status" && tag.Value.GetStr() != nil && tag.Value.GetStr().GetValue() == "ok" {
			return true, nil
		}
	}
	return false, nil
}

func (xStatusOK) GetDecoder() model.TagValueDecoder {
	return func(valueType pbv1.ValueType, value []byte, _ [][]byte) *modelv1.TagValue {
		if value == nil {
			return pbv1.NullTagValue
		}
		switch valueType {
		case pbv1.ValueTypeStr:
			return &modelv1.TagValue{Value: &modelv1.TagValue_Str{Str: &modelv1.Str{Value: string(value)}}}
		case pbv1.ValueTypeInt64:
			return &modelv1.TagValue{Value: &modelv1.TagValue_Int{Int: &modelv1.Int{Value: convert.BytesToInt64(value)}}}
		}
		return pbv1.NullTagValue
	}
}

type xCase struct {
	Ops []xOp `json:"ops"`
	// Split: every publication is prepared and committed in two steps through the snapshot transition
	// interface (as the trace engine does) with a full scan in between; pin / unpin operations hold a snapshot.
	Split bool `json:"split,omitempty"`
}

type xPin struct {
	snap  *Snapshot
	model []xElem
	parts map[uint64]string // part id -> directory ("" for a memory part)
	at    int
}

var sidxLogOnce sync.Once

type xEnv struct {
	phase  string
	okStr  map[int]bool // payload id -> the element carries the string status "ok"
	abArr  map[int]bool // payload id -> the element carries the labels ["a|b","c"]
	s      SIDX
	dir    string
	nextID uint64
	mem    []uint64
	files  []uint64
	model  []xElem
	x      *verifkit.Ctx
	stats  struct {
		flushes, merges, queries        int
		splitWindows                    int
		pinAcross                       bool
		filtered, strTag, intTag        bool
		arrTag                          bool
		multiPart, rangeCut, afterMerge bool
	}
}

func (e *xEnv) query(op xOp, allSids []int) (qerr error) {
	if os.Getenv("VERIF_DEBUG") != "" {
		impl := e.s.(*sidx)
		snap := impl.currentSnapshot()
		desc := ""
		if snap != nil {
			for _, pw := range snap.parts {
				desc += fmt.Sprintf(" [id=%d mem=%v ref=%d removable=%v count=%d]", pw.ID(), pw.mp != nil, pw.refCount(), pw.removable.Load(), pw.p.partMetadata.TotalCount)
			}
			snap.decRef()
		}
		fmt.Printf("DEBUG query filter=%v phase=%s parts:%s\n", op.Filter, e.phase, desc)
		defer func() {
			if r := recover(); r != nil {
				fmt.Printf("DEBUG PANIC in phase=%s: %v\n", e.phase, r)
				panic(r)
			}
		}()
	}
	sids := op.Sids
	if len(sids) == 0 {
		sids = allSids
	}
	req := QueryRequest{MaxBatchSize: op.Batch, MinKey: op.Min, MaxKey: op.Max}
	if op.Filter {
		req.TagFilter = xStatusOK{}
		req.SchemaTagTypes = map[string]pbv1.ValueType{"status": pbv1.ValueTypeStr}
		req.TagProjection = []model.TagProjection{{Names: []string{"status"}}}
		e.stats.filtered = true
	}
	if op.ArrFilter {
		req.TagFilter = xLabelsAB{}
		req.SchemaTagTypes = map[string]pbv1.ValueType{"labels": pbv1.ValueTypeStrArr}
		req.TagProjection = []model.TagProjection{{Names: []string{"labels"}}}
		e.stats.filtered = true
	}
	for _, s := range sids {
		req.SeriesIDs = append(req.SeriesIDs, common.SeriesID(s))
	}
	if op.Desc {
		req.Order = &index.OrderBy{Sort: modelv1.Sort_SORT_DESC}
	} else {
		req.Order = &index.OrderBy{Sort: modelv1.Sort_SORT_ASC}
	}
	in := map[int]bool{}
	for _, s := range sids {
		in[s] = true
	}
	var want []xElem
	for _, m := range e.model {
		if !in[m.S] || (op.Min != nil && m.K < *op.Min) || (op.Max != nil && m.K > *op.Max) {
			continue
		}
		if op.Filter && !e.okStr[m.D] {
			continue
		}
		if op.ArrFilter && !e.abArr[m.D] {
			continue
		}
		want = append(want, m)
	}
	if len(want) < len(e.model) && len(want) > 0 && (op.Min != nil || op.Max != nil) {
		e.stats.rangeCut = true
	}
	collect := func(name string, resps []*QueryResponse, topN bool) error {
		var got []xElem
		var keys []int64
		for _, r := range resps {
			if r.Error != nil {
				return fmt.Errorf("%s: response error: %v", name, r.Error)
			}
			if err := r.Validate(); err != nil {
				return fmt.Errorf("%s: %v", name, err)
			}
			if op.Batch > 0 && r.Len() > op.Batch && !topN {
				return fmt.Errorf("%s: a batch holds %d entries, MaxBatchSize is %d", name, r.Len(), op.Batch)
			}
			for i := range r.Keys {
				var d int
				if _, err := fmt.Sscanf(string(r.Data[i]), "d%d", &d); err != nil {
					return fmt.Errorf("%s: unknown payload %q", name, r.Data[i])
				}
				got = append(got, xElem{S: int(r.SIDs[i]), K: r.Keys[i], D: d})
				keys = append(keys, r.Keys[i])
			}
		}
		crossBatch := true
		if op.Batch > 0 && e.x.KnownActive("sidx-sync-topn-not-prefix") {
			// recorded finding: with MaxBatchSize > 0 the order only holds inside each response
			crossBatch = false
			e.x.KnownExcluded("sidx-sync-topn-not-prefix")
			for _, r := range resps {
				for i := 1; i < len(r.Keys); i++ {
					if (!op.Desc && r.Keys[i] < r.Keys[i-1]) || (op.Desc && r.Keys[i] > r.Keys[i-1]) {
						return fmt.Errorf("%s: keys inside one response not ordered: %v", name, r.Keys)
					}
				}
			}
		}
		for i := 1; crossBatch && i < len(keys); i++ {
			if (!op.Desc && keys[i] < keys[i-1]) || (op.Desc && keys[i] > keys[i-1]) {
				return fmt.Errorf("%s: keys not in %s order: %d then %d (all %v)", name, map[bool]string{false: "ascending", true: "descending"}[op.Desc], keys[i-1], keys[i], keys)
			}
		}
		wm := map[xElem]int{}
		for _, w := range want {
			wm[w]++
		}
		for _, g := range got {
			if wm[g] == 0 {
				return fmt.Errorf("%s: entry %+v returned but not expected (not written, out of range [%v,%v], or returned twice); got %v", name, g, deref(op.Min), deref(op.Max), got)
			}
			wm[g]--
		}
		if topN && op.Batch > 0 {
			// the synchronous interface treats MaxBatchSize as an ordered top-N budget: the result must be
			// a prefix of the full ordered result holding at least min(N, total) entries
			if len(got) < min(op.Batch, len(want)) {
				return fmt.Errorf("%s: %d entries returned for a budget of %d with %d matching", name, len(got), op.Batch, len(want))
			}
			ks := make([]int64, 0, len(want))
			for _, w := range want {
				ks = append(ks, w.K)
			}
			sort.Slice(ks, func(i, j int) bool {
				if op.Desc {
					return ks[i] > ks[j]
				}
				return ks[i] < ks[j]
			})
			if e.x.KnownActive("sidx-sync-topn-not-prefix") {
				// recorded finding: with a budget the synchronous interface may skip entries that tie with or
				// precede returned ones; sortedness, membership, uniqueness and the count are still checked
				e.x.KnownExcluded("sidx-sync-topn-not-prefix")
				return nil
			}
			for i, k := range keys {
				if ks[i] != k {
					return fmt.Errorf("%s: top-%d result is not a prefix of the ordered result: position %d has key %d, the ordered result has %d (got %v, all %v)", name, op.Batch, i, k, ks[i], keys, ks)
				}
			}
			return nil
		}
		for w, n := range wm {
			if n > 0 {
				return fmt.Errorf("%s: entry %+v within range [%v,%v] is missing (%d returned, %d expected)", name, w, deref(op.Min), deref(op.Max), len(got), len(want))
			}
		}
		return nil
	}
	sync1, err := e.s.QuerySync(context.Background(), req)
	if err != nil {
		return fmt.Errorf("QuerySync: %v", err)
	}
	if err := collect("QuerySync", sync1, true); err != nil {
		return err
	}
	ch, errCh := e.s.StreamingQuery(context.Background(), req)
	var streamed []*QueryResponse
	for r := range ch {
		cp := &QueryResponse{}
		cp.CopyFrom(r)
		streamed = append(streamed, cp)
	}
	if serr, ok := <-errCh; ok && serr != nil {
		return fmt.Errorf("StreamingQuery: %v", serr)
	}
	if err := collect("StreamingQuery", streamed, false); err != nil {
		return err
	}
	e.stats.queries++
	if len(e.mem)+len(e.files) >= 2 {
		e.stats.multiPart = true
	}
	if e.stats.merges > 0 {
		e.stats.afterMerge = true
	}
	return nil
}

func deref(p *int64) any {
	if p == nil {
		return "-"
	}
	return *p
}

func runSidx(x *verifkit.Ctx, c xCase) (*xEnv, error) {
	sidxLogOnce.Do(func() { _ = logger.Init(logger.Logging{Env: "dev", Level: "error"}) })
	dir, err := os.MkdirTemp("", "verif-sidx-")
	if err != nil {
		return nil, err
	}
	defer os.RemoveAll(dir)
	s, err := NewSIDX(fs.NewLocalFileSystem(), &Options{Path: dir + "/sidx", Memory: protector.Nop{}})
	if err != nil {
		return nil, err
	}
	defer s.Close()
	e := &xEnv{s: s, dir: dir, nextID: 1, x: x, okStr: map[int]bool{}, abArr: map[int]bool{}}
	sidSet := map[int]bool{}
	for _, op := range c.Ops {
		for _, el := range op.Elems {
			sidSet[el.S] = true
		}
	}
	var allSids []int
	for s := range sidSet {
		allSids = append(allSids, s)
	}
	sort.Ints(allSids)
	impl, _ := s.(*sidx)
	pins := map[int]*xPin{}
	publications := 0
	// publish applies a prepared transition: immediately, or - in split mode - after a full scan that must still see the state before it
	publish := func(i int, what string, prepare func(cur *Snapshot) *Snapshot) error {
		publications++
		if !c.Split {
			tr := snapshotpkg.NewTransition[*Snapshot](impl, prepare)
			tr.Commit()
			tr.Release()
			return nil
		}
		tr := snapshotpkg.NewTransition[*Snapshot](impl, prepare)
		e.phase = fmt.Sprintf("window of %s (op %d)", what, i)
		defer func() { e.phase = "" }()
		for _, q := range []xOp{{Kind: "query"}, {Kind: "query", Desc: true}} {
			if w := os.Getenv("VERIF_SIDX_WINDOWS"); len(allSids) == 0 || (w != "" && !strings.Contains(w, strings.Fields(what)[0])) {
				break
			}
			if err := e.query(q, allSids); err != nil {
				tr.Commit()
				tr.Release()
				return fmt.Errorf("between preparation and commit of the %s of op %d: %v", what, i, err)
			}
		}
		if w := os.Getenv("VERIF_SIDX_WINDOWS"); w != "" && !strings.Contains(w, strings.Fields(what)[0]) {
			tr.Commit()
			tr.Release()
			return nil
		}
		if err := e.scanAll("between preparation and commit of the "+what, e.model); err != nil {
			tr.Commit()
			tr.Release()
			return err
		}
		tr.Commit()
		tr.Release()
		e.stats.splitWindows++
		return nil
	}
	defer func() {
		for _, p := range pins {
			p.snap.decRef()
		}
	}()
	full := func(i int) error {
		e.phase = fmt.Sprintf("after op %d", i)
		qs := []xOp{{Kind: "query"}, {Kind: "query", Desc: true, Batch: 3}}
		if c.Split {
			qs = []xOp{{Kind: "query"}, {Kind: "query", Desc: true}}
		}
		if e.stats.strTag || e.stats.intTag {
			qs = append(qs, xOp{Kind: "query", Filter: true})
		}
		if e.stats.arrTag {
			qs = append(qs, xOp{Kind: "query", ArrFilter: true}, xOp{Kind: "query", ArrFilter: true, Desc: true})
		}
		// the scan interface (used by maintenance tools) serves every entry as well
		if err := e.scanAll(fmt.Sprintf("full scan after op %d", i), e.model); err != nil {
			return err
		}
		for _, q := range qs {
			if len(allSids) == 0 {
				break
			}
			if err := e.query(q, allSids); err != nil {
				return fmt.Errorf("full scan after op %d: %v", i, err)
			}
		}
		return nil
	}
	for i, op := range c.Ops {
		switch op.Kind {
		case "write":
			if len(op.Elems) == 0 {
				continue
			}
			var reqs []WriteRequest
			for _, el := range op.Elems {
				wr := WriteRequest{SeriesID: common.SeriesID(el.S), Key: el.K, Data: []byte(fmt.Sprintf("d%d", el.D))}
				switch op.TagKind {
				case "str":
					v := "error"
					if el.D%2 == 0 {
						v = "ok"
						e.okStr[el.D] = true
					}
					wr.Tags = []Tag{{Name: "status", Value: []byte(v), ValueType: pbv1.ValueTypeStr}}
					e.stats.strTag = true
				case "int":
					v := int64(500)
					if el.D%2 == 0 {
						v = 200
					}
					wr.Tags = []Tag{{Name: "status", Value: convert.Int64ToBytes(v), ValueType: pbv1.ValueTypeInt64}}
					e.stats.intTag = true
				}
				if op.Arr {
					if el.D%2 == 0 {
						wr.Tags = append(wr.Tags, Tag{Name: "labels", ValueArr: [][]byte{[]byte("a|b"), []byte("c")}, ValueType: pbv1.ValueTypeStrArr})
						e.abArr[el.D] = true
					} else {
						wr.Tags = append(wr.Tags, Tag{Name: "labels", ValueArr: [][]byte{[]byte("z")}, ValueType: pbv1.ValueTypeStrArr})
					}
					e.stats.arrTag = true
				}
				reqs = append(reqs, wr)
			}
			mp, err := s.ConvertToMemPart(reqs, 0, nil, nil)
			if err != nil {
				return e, fmt.Errorf("op %d write: %v", i, err)
			}
			id := e.nextID
			e.nextID++
			if c.Split {
				if err := publish(i, "memory part", impl.PrepareMemPart(id, mp)); err != nil {
					return e, err
				}
			} else {
				s.IntroduceMemPart(id, mp)
			}
			e.mem = append(e.mem, id)
			e.model = append(e.model, op.Elems...)
		case "flush":
			if len(e.mem) == 0 {
				continue
			}
			ids := map[uint64]struct{}{}
			for _, id := range e.mem {
				ids[id] = struct{}{}
			}
			intro, err := s.Flush(ids)
			if err != nil {
				return e, fmt.Errorf("op %d flush: %v", i, err)
			}
			if intro != nil {
				if c.Split {
					if err := publish(i, "flush", impl.PrepareFlushed(intro)); err != nil {
						return e, err
					}
				} else {
					s.IntroduceFlushed(intro)
				}
				intro.Release()
			}
			e.files = append(e.files, e.mem...)
			e.mem = nil
			e.stats.flushes++
		case "merge":
			if len(e.files) < 2 || len(op.Pick) < 2 {
				continue
			}
			ids := map[uint64]struct{}{}
			for _, p := range op.Pick {
				ids[e.files[p%len(e.files)]] = struct{}{}
			}
			if len(ids) < 2 {
				continue
			}
			newID := e.nextID
			e.nextID++
			closeCh := make(chan struct{})
			intro, err := s.Merge(closeCh, ids, newID, nil)
			close(closeCh)
			if err != nil {
				return e, fmt.Errorf("op %d merge: %v", i, err)
			}
			if intro == nil {
				continue
			}
			// a query between "merge computed" and "merge published" still sees the old parts
			if err := full(i); err != nil {
				return e, fmt.Errorf("between merge computation and publication: %v", err)
			}
			if c.Split {
				if err := publish(i, "merge", impl.PrepareMerged(intro)); err != nil {
					return e, err
				}
			} else if release := s.IntroduceMerged(intro); release != nil {
				release()
			}
			var kept []uint64
			for _, f := range e.files {
				if _, m := ids[f]; !m {
					kept = append(kept, f)
				}
			}
			e.files = append(kept, newID)
			e.stats.merges++
		case "query":
			if err := e.query(op, allSids); err != nil {
				return e, fmt.Errorf("query op %d: %v", i, err)
			}
			continue
		case "pin":
			if pins[op.Slot] != nil || impl == nil {
				continue
			}
			snap := impl.currentSnapshot()
			if snap == nil {
				continue
			}
			pin := &xPin{snap: snap, model: append([]xElem(nil), e.model...), parts: map[uint64]string{}, at: publications}
			for _, pw := range snap.parts {
				dir := ""
				if pw.mp == nil {
					dir = pw.p.path
				}
				pin.parts[pw.ID()] = dir
			}
			pins[op.Slot] = pin
			continue
		case "unpin":
			pin := pins[op.Slot]
			if pin == nil {
				continue
			}
			delete(pins, op.Slot)
			err := e.checkPinned(pin, fmt.Sprintf("snapshot pinned before op %d's predecessor publications (%d publications ago)", i, publications-pin.at))
			pin.snap.decRef()
			if err != nil {
				return e, err
			}
			if publications > pin.at {
				e.stats.pinAcross = true
			}
			continue
		}
		if err := full(i); err != nil {
			return e, err
		}
	}
	return e, nil
}

func genSidxCase(t *rapid.T) xCase {
	var c xCase
	d := 0
	nb := rapid.IntRange(1, 6).Draw(t, "batches")
	// tag mode: no tags | a string tag in every batch | the tag's type changes between batches (the parts conflict when merged)
	tagMode := rapid.SampledFrom([]string{"none", "str", "mixed", "mixed"}).Draw(t, "tagmode")
	arrMode := rapid.IntRange(0, 2).Draw(t, "arrmode") == 0
	for b := 0; b < nb; b++ {
		n := rapid.IntRange(1, 25).Draw(t, "n")
		op := xOp{Kind: "write"}
		op.Arr = arrMode
		switch tagMode {
		case "str":
			op.TagKind = "str"
		case "mixed":
			op.TagKind = rapid.SampledFrom([]string{"str", "int", "str", ""}).Draw(t, "tagkind")
		}
		for i := 0; i < n; i++ {
			d++
			op.Elems = append(op.Elems, xElem{S: rapid.IntRange(1, 3).Draw(t, "s"), K: rapid.Int64Range(-5, 30).Draw(t, "k"), D: d})
		}
		c.Ops = append(c.Ops, op)
		for k := 0; k < rapid.IntRange(0, 2).Draw(t, "nm"); k++ {
			switch rapid.SampledFrom([]string{"flush", "flush", "merge", "query"}).Draw(t, "kind") {
			case "flush":
				c.Ops = append(c.Ops, xOp{Kind: "flush"})
			case "merge":
				c.Ops = append(c.Ops, xOp{Kind: "merge", Pick: rapid.SliceOfN(rapid.IntRange(0, 5), 2, 4).Draw(t, "pick")})
			default:
				c.Ops = append(c.Ops, genSidxQuery(t, &c))
			}
		}
	}
	c.Ops = append(c.Ops, xOp{Kind: "flush"}, xOp{Kind: "merge", Pick: []int{0, 1, 2}})
	if rapid.Bool().Draw(t, "round2") {
		// a second round: a fresh part merged with the result of an earlier merge
		op := xOp{Kind: "write", TagKind: map[string]string{"none": "", "str": "str", "mixed": "str"}[tagMode]}
		for i := rapid.IntRange(1, 6).Draw(t, "n2"); i > 0; i-- {
			d++
			op.Elems = append(op.Elems, xElem{S: rapid.IntRange(1, 3).Draw(t, "s2"), K: rapid.Int64Range(-5, 30).Draw(t, "k2"), D: d})
		}
		c.Ops = append(c.Ops, op, xOp{Kind: "flush"}, xOp{Kind: "merge", Pick: []int{0, 1, 2, 3}})
	}
	for k := 0; k < rapid.IntRange(1, 3).Draw(t, "nq"); k++ {
		c.Ops = append(c.Ops, genSidxQuery(t, &c))
	}
	return c
}

func genSidxQuery(t *rapid.T, c *xCase) xOp {
	q := xOp{Kind: "query", Desc: rapid.Bool().Draw(t, "desc"), Batch: rapid.SampledFrom([]int{0, 1, 2, 3, 7, 100}).Draw(t, "batch")}
	q.Filter = rapid.IntRange(0, 3).Draw(t, "filter") == 0
	n := rapid.IntRange(1, 3).Draw(t, "nsids")
	q.Sids = rapid.SliceOfNDistinct(rapid.IntRange(1, 3), n, n, rapid.ID[int]).Draw(t, "sids")
	// bounds are biased to keys that exist, in particular per-series extremes (= block min/max keys)
	var pool []int64
	lo, hi := map[int]int64{}, map[int]int64{}
	for _, op := range c.Ops {
		for _, el := range op.Elems {
			if v, ok := lo[el.S]; !ok || el.K < v {
				lo[el.S] = el.K
			}
			if v, ok := hi[el.S]; !ok || el.K > v {
				hi[el.S] = el.K
			}
			pool = append(pool, el.K)
		}
	}
	for s := range lo {
		pool = append(pool, lo[s], hi[s], lo[s], hi[s])
	}
	sort.Slice(pool, func(i, j int) bool { return pool[i] < pool[j] })
	bound := func(label string) int64 {
		if len(pool) > 0 && rapid.IntRange(0, 2).Draw(t, label+"/existing") > 0 {
			return rapid.SampledFrom(pool).Draw(t, label+"/k")
		}
		return rapid.Int64Range(-6, 31).Draw(t, label)
	}
	if rapid.Bool().Draw(t, "hasmin") {
		v := bound("min")
		q.Min = &v
	}
	if rapid.Bool().Draw(t, "hasmax") {
		v := bound("max")
		q.Max = &v
	}
	if q.Min != nil && q.Max != nil && *q.Min > *q.Max {
		q.Min, q.Max = q.Max, q.Min
	}
	return q
}

func sidxSpec(property string) verifkit.Spec[xCase] {
	return verifkit.Spec[xCase]{
		Property: property, Unit: "sidx", CrashReplay: true,
		Rule: "histories against the real sidx through its public interface: 1..6 write batches of 1..25 elements (3 series, keys from a small range with " +
			"many duplicates, unique payloads; optionally a tag 'status' whose type - string or int - is fixed per batch and may change between batches), interleaved with flush, merge of an arbitrary subset of file parts (with a query between merge computation and " +
			"publication) and queries (series subset, inclusive MinKey/MaxKey, asc/desc, MaxBatchSize 1..100 or unlimited, optionally filtered to status == \"ok\"), a second merge round of a fresh part with a merged one; oracle: QuerySync and " +
			"StreamingQuery each return exactly the written entries of the requested series within the key range, each once, in key order, batches within " +
			"MaxBatchSize; a full scan after every step equals the model; non-trivial = a query over >= 2 parts that cuts the key range, or a query after a merge",
		Gen: func(t *rapid.T, _ *verifkit.KnownSet) xCase { return genSidxCase(t) },
		Check: func(x *verifkit.Ctx, c xCase) error {
			e, err := runSidx(x, c)
			if err != nil {
				return err
			}
			x.LabelIf(e.stats.merges > 0, "merge")
			x.LabelIf(e.stats.multiPart, "query over >=2 parts")
			x.LabelIf(e.stats.rangeCut, "key range cuts the result")
			x.LabelIf(e.stats.afterMerge, "query after merge")
			x.LabelIf(e.stats.filtered, "tag-filtered query")
			x.LabelIf(e.stats.arrTag, "string-array tag with escaped elements")
			x.LabelIf(e.stats.strTag && e.stats.intTag, "tag with conflicting types")
			x.LabelIf(e.stats.strTag && e.stats.intTag && e.stats.merges >= 2, "conflicting types merged in >= 2 rounds")
			if (e.stats.multiPart && e.stats.rangeCut) || e.stats.afterMerge {
				x.NonTrivial()
			}
			return nil
		},
		MinLabelFrac: map[string]float64{"merge": 0.3, "key range cuts the result": 0.3},
	}
}

func TestVerifC09Sidx(t *testing.T) { verifkit.Run(t, sidxSpec("C09")) }
func TestVerifC03Sidx(t *testing.T) { verifkit.Run(t, sidxSpec("C03")) }

// ---------------------------------------------------------------------------------------------
// C05 (secondary index): a reader evaluates against one snapshot - the one current when it
// started - whatever the introducer prepares or publishes meanwhile.
// ---------------------------------------------------------------------------------------------

// scanParts reads every entry of the given snapshot through the real part selection and part scan of ScanQuery.
func (e *xEnv) scanParts(snap *Snapshot) ([]xElem, []uint64, error) {
	impl := e.s.(*sidx)
	req := ScanQueryRequest{}
	parts := selectPartsForScan(snap, math.MinInt64, math.MaxInt64, nil, nil)
	var results []*QueryResponse
	cur := &QueryResponse{}
	var ids []uint64
	for _, pw := range parts {
		ids = append(ids, pw.ID())
		var err error
		if cur, err = impl.scanPart(context.Background(), pw, req, math.MinInt64, math.MaxInt64, &results, cur, 1000); err != nil {
			return nil, ids, err
		}
	}
	if cur.Len() > 0 {
		results = append(results, cur)
	}
	var got []xElem
	for _, r := range results {
		for i := range r.Keys {
			var d int
			if _, err := fmt.Sscanf(string(r.Data[i]), "d%d", &d); err != nil {
				return nil, ids, fmt.Errorf("unknown payload %q", r.Data[i])
			}
			got = append(got, xElem{S: int(r.SIDs[i]), K: r.Keys[i], D: d})
		}
	}
	return got, ids, nil
}

func sameElems(got, want []xElem) error {
	wm := map[xElem]int{}
	for _, w := range want {
		wm[w]++
	}
	for _, g := range got {
		if wm[g] == 0 {
			return fmt.Errorf("entry %+v is served but not part of that state (or served twice); %d served, %d expected", g, len(got), len(want))
		}
		wm[g]--
	}
	for w, n := range wm {
		if n > 0 {
			return fmt.Errorf("entry %+v is missing; %d served, %d expected", w, len(got), len(want))
		}
	}
	return nil
}

// scanAll runs the public ScanQuery (current snapshot) and compares it with the given state.
func (e *xEnv) scanAll(what string, want []xElem) error {
	resps, err := e.s.ScanQuery(context.Background(), ScanQueryRequest{})
	if err != nil {
		return fmt.Errorf("%s: ScanQuery failed: %v", what, err)
	}
	var got []xElem
	for _, r := range resps {
		for i := range r.Keys {
			var d int
			if _, serr := fmt.Sscanf(string(r.Data[i]), "d%d", &d); serr != nil {
				return fmt.Errorf("%s: unknown payload %q", what, r.Data[i])
			}
			got = append(got, xElem{S: int(r.SIDs[i]), K: r.Keys[i], D: d})
		}
	}
	if err := sameElems(got, want); err != nil {
		return fmt.Errorf("%s: ScanQuery: %v", what, err)
	}
	return nil
}

func (e *xEnv) checkPinned(pin *xPin, what string) error {
	// the part selection of both query paths still covers every part of the pinned snapshot
	got, ids, err := e.scanParts(pin.snap)
	if err != nil {
		return fmt.Errorf("%s: scanning the pinned snapshot failed: %v", what, err)
	}
	if len(ids) != len(pin.parts) {
		return fmt.Errorf("%s: the scan selects the parts %v of a snapshot that holds %d parts %v", what, ids, len(pin.parts), pin.parts)
	}
	if n := len(selectPartsForQuery(pin.snap, math.MinInt64, math.MaxInt64, nil, nil)); n != len(pin.parts) {
		return fmt.Errorf("%s: the ordered query selects %d parts of a snapshot that holds %d parts", what, n, len(pin.parts))
	}
	if err := sameElems(got, pin.model); err != nil {
		return fmt.Errorf("%s: %v", what, err)
	}
	// files of replaced parts stay until the last reader of a snapshot containing them has finished
	for id, dir := range pin.parts {
		if dir == "" {
			continue
		}
		if _, serr := os.Stat(dir); serr != nil {
			return fmt.Errorf("%s: the directory of part %d of the pinned snapshot was deleted while the snapshot is still held: %v", what, id, serr)
		}
	}
	return nil
}

func TestVerifC05Sidx(t *testing.T) {
	verifkit.Run(t, verifkit.Spec[xCase]{
		Property: "C05", Unit: "sidx_split", CrashReplay: true,
		Rule: "sidx histories (1..6 write batches over 3 series, flushes, merges of arbitrary subsets of file parts) in which every publication - memory part, " +
			"flush, merge - is prepared and committed in two steps through the snapshot transition interface, exactly as the trace introducer does, with ordered " +
			"queries and a scan BETWEEN the two steps, and in which up to 3 readers pin the current snapshot and evaluate it any number of publications later " +
			"(part selection of the ordered and the scan path plus the real part scan); oracle: a reader between preparation and commit sees exactly the state " +
			"before the publication (never the inputs and the merged part together, never neither), a pinned reader sees exactly the state at its pin, the part " +
			"directories of a pinned snapshot exist until it is released; non-trivial = a reader inside a merge window or pinned across a merge",
		Gen: func(t *rapid.T, _ *verifkit.KnownSet) xCase {
			c := genSidxCase(t)
			c.Split = true
			// drop budgeted queries (their ordering is another property's recorded finding) and add pins
			var ops []xOp
			for _, op := range c.Ops {
				if op.Kind == "query" {
					op.Batch = 0
				}
				if rapid.IntRange(0, 3).Draw(t, "pin") == 0 {
					ops = append(ops, xOp{Kind: "pin", Slot: rapid.IntRange(1, 3).Draw(t, "slot")})
				}
				ops = append(ops, op)
				if rapid.IntRange(0, 4).Draw(t, "unpin") == 0 {
					ops = append(ops, xOp{Kind: "unpin", Slot: rapid.IntRange(1, 3).Draw(t, "uslot")})
				}
			}
			for slot := 1; slot <= 3; slot++ {
				ops = append(ops, xOp{Kind: "unpin", Slot: slot})
			}
			c.Ops = ops
			return c
		},
		Check: func(x *verifkit.Ctx, c xCase) error {
			e, err := runSidx(x, c)
			if err != nil {
				return err
			}
			x.LabelIf(e.stats.merges > 0, "merge window")
			x.LabelIf(e.stats.pinAcross, "reader pinned across a publication")
			x.LabelIf(e.stats.splitWindows > 0, "reader between preparation and commit")
			if e.stats.merges > 0 || e.stats.pinAcross {
				x.NonTrivial()
			}
			return nil
		},
		MinLabelFrac: map[string]float64{"merge window": 0.3, "reader pinned across a publication": 0.3},
	})
}
