package encoding

import (
	"bytes"
	"fmt"
	"math"
	"testing"

	"pgregory.net/rapid"

	pkgbytes "github.com/apache/skywalking-banyandb/pkg/bytes"
	"github.com/apache/skywalking-banyandb/pkg/convert"
	pkgenc "github.com/apache/skywalking-banyandb/pkg/encoding"
	pbv1 "github.com/apache/skywalking-banyandb/pkg/pb/v1"
	"github.com/apache/skywalking-banyandb/verifkit"
)

// C11 (tag value marshaling): EncodeTagValues/DecodeTagValues return exactly the column that was
// written for int64, float64 and default (string/binary/array) value types, whichever internal
// mode (int list modes, decimal float, dictionary, plain fallback) the encoder picks.

type c11TagCol struct {
	Type string   `json:"type"` // int | float | bytes
	Ints []int64  `json:"ints,omitempty"`
	Bits []uint64 `json:"bits,omitempty"`
	Nil  []bool   `json:"nil,omitempty"` // per row: value is nil (null)
	Strs [][]byte `json:"strs,omitempty"`
}

func (c c11TagCol) rows() ([][]byte, pbv1.ValueType) {
	switch c.Type {
	case "int":
		out := make([][]byte, len(c.Ints))
		for i, v := range c.Ints {
			if i < len(c.Nil) && c.Nil[i] {
				continue
			}
			out[i] = convert.Int64ToBytes(v)
		}
		return out, pbv1.ValueTypeInt64
	case "float":
		out := make([][]byte, len(c.Bits))
		for i, v := range c.Bits {
			if i < len(c.Nil) && c.Nil[i] {
				continue
			}
			out[i] = convert.Float64ToBytes(math.Float64frombits(v))
		}
		return out, pbv1.ValueTypeFloat64
	default:
		out := make([][]byte, len(c.Strs))
		for i, v := range c.Strs {
			if i < len(c.Nil) && c.Nil[i] {
				continue
			}
			if v == nil {
				v = []byte{}
			}
			out[i] = v
		}
		return out, pbv1.ValueTypeStr
	}
}

func TestVerifC11TagEncoder(t *testing.T) {
	verifkit.Run(t, verifkit.Spec[c11TagCol]{
		Property: "C11", Unit: "tag_encoder",
		Rule: "one tag column of 1..600 rows: int64 (const/arith/monotone/random/boundary, optional nulls), float64 (short decimals, boundary pool incl. " +
			"values the decimal codec must refuse, optional nulls) or bytes (low cardinality, > 256 distinct, nil vs empty); oracle: " +
			"DecodeTagValues(EncodeTagValues(col)) == col byte for byte incl. nil vs empty; non-trivial = >= 2 rows",
		Known: []verifkit.Known[c11TagCol]{{Key: "float-decimal-neg-zero", Match: func(c c11TagCol) bool {
			for i, b := range c.Bits {
				if b == 1<<63 && !(i < len(c.Nil) && c.Nil[i]) {
					return true
				}
			}
			return false
		}}},
		Gen: func(t *rapid.T, ks *verifkit.KnownSet) c11TagCol {
			n := rapid.IntRange(1, 40).Draw(t, "n")
			if rapid.IntRange(0, 9).Draw(t, "long") == 0 {
				n = rapid.IntRange(200, 600).Draw(t, "n2")
			}
			c := c11TagCol{Type: rapid.SampledFrom([]string{"int", "float", "bytes"}).Draw(t, "type")}
			withNil := rapid.IntRange(0, 3).Draw(t, "withnil") == 0
			for i := 0; i < n; i++ {
				c.Nil = append(c.Nil, withNil && rapid.IntRange(0, 5).Draw(t, "nil") == 0)
			}
			switch c.Type {
			case "int":
				shape := rapid.SampledFrom([]string{"const", "arith", "monotone", "random", "hostile"}).Draw(t, "shape")
				v := verifkit.Int64(t, "v0")
				d := verifkit.Int64(t, "d")
				for i := 0; i < n; i++ {
					switch shape {
					case "arith":
						v += d
					case "monotone":
						v += int64(rapid.IntRange(0, 1000).Draw(t, "dd"))
					case "random":
						v = rapid.Int64().Draw(t, "v")
					case "hostile":
						v = verifkit.Int64(t, "v")
					}
					c.Ints = append(c.Ints, v)
				}
			case "float":
				dec := rapid.Bool().Draw(t, "decimals")
				for i := 0; i < n; i++ {
					var b uint64
					if dec {
						b = math.Float64bits(float64(rapid.IntRange(-99999, 99999).Draw(t, "m")) / math.Pow10(rapid.IntRange(0, 3).Draw(t, "e")))
					} else {
						b = verifkit.FloatBits(t, "b", true)
					}
					if b == 1<<63 && ks.Active("float-decimal-neg-zero") {
						b = 0
						ks.Excluded("float-decimal-neg-zero")
					}
					c.Bits = append(c.Bits, b)
				}
			default:
				kind := rapid.SampledFrom([]string{"low", "high", "mixed"}).Draw(t, "kind")
				pool := [][]byte{[]byte("a"), []byte(""), []byte("null"), []byte("svc|x"), verifkit.Bytes(t, "p", 12)}
				for i := 0; i < n; i++ {
					switch kind {
					case "low":
						c.Strs = append(c.Strs, rapid.SampledFrom(pool).Draw(t, "s"))
					case "high":
						c.Strs = append(c.Strs, []byte(fmt.Sprintf("k-%d", i)))
					default:
						c.Strs = append(c.Strs, verifkit.Bytes(t, "s", 30))
					}
				}
			}
			return c
		},
		Check: func(x *verifkit.Ctx, c c11TagCol) error {
			rows, vt := c.rows()
			in := make([][]byte, len(rows))
			for i, r := range rows {
				if r != nil {
					in[i] = append([]byte{}, r...)
				}
			}
			bb := &pkgbytes.Buffer{}
			et, err := EncodeTagValues(bb, in, vt)
			if err != nil {
				return verifkit.Failf("EncodeTagValues: %v", err)
			}
			enc := append([]byte(nil), bb.Buf...)
			var dec pkgenc.BytesBlockDecoder
			got, err := DecodeTagValues(nil, &dec, &pkgbytes.Buffer{Buf: enc}, vt, len(rows))
			if err != nil {
				return verifkit.Failf("DecodeTagValues: %v", err)
			}
			if len(got) != len(rows) {
				return verifkit.Failf("type %s encode type %d: decoded %d rows, wrote %d", c.Type, et, len(got), len(rows))
			}
			for i := range rows {
				if (rows[i] == nil) != (got[i] == nil) || !bytes.Equal(rows[i], got[i]) {
					return verifkit.Failf("type %s encode type %d row %d: wrote %x (nil=%v) read %x (nil=%v)", c.Type, et, i, rows[i], rows[i] == nil, got[i], got[i] == nil)
				}
			}
			x.Label("type:" + c.Type)
			x.Label(fmt.Sprintf("encode-type:%d", et))
			if len(rows) >= 2 {
				x.NonTrivial()
			}
			return nil
		},
		MinLabelFrac: map[string]float64{
			fmt.Sprintf("encode-type:%d", pkgenc.EncodeTypePlain): 0.05, fmt.Sprintf("encode-type:%d", pkgenc.EncodeTypeDictionary): 0.05,
			fmt.Sprintf("encode-type:%d", pkgenc.EncodeTypeDelta): 0.02, fmt.Sprintf("encode-type:%d", pkgenc.EncodeTypeDeltaOfDelta): 0.02,
		},
	})
}
