package property

import (
	"github.com/apache/skywalking-banyandb/banyand/property/db"
	"github.com/apache/skywalking-banyandb/pkg/bus"
	"github.com/apache/skywalking-banyandb/pkg/logger"
)

// VerifListeners returns the data-node message listeners of the property service (update, delete,
// query, repair) bound to the given database, for harnesses that assemble a liaison and data nodes
// in one process. Overlay-only file (never part of /repo).
func VerifListeners(database db.Database, nodeID, path string) (update, del, query, repair bus.MessageListener) {
	l := logger.GetLogger("verif-property-node")
	s := &service{db: database, l: l, nodeID: nodeID}
	return &updateListener{s: s, l: l, path: path, maxDiskUsagePercent: 100}, &deleteListener{s: s}, &queryListener{s: s}, &repairListener{s: s}
}
