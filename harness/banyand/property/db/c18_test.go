package db

import (
	"context"
	"fmt"
	"os"
	"sort"
	"sync"
	"testing"
	"time"

	"google.golang.org/protobuf/encoding/protojson"
	"pgregory.net/rapid"

	commonv1 "github.com/apache/skywalking-banyandb/api/proto/banyandb/common/v1"
	modelv1 "github.com/apache/skywalking-banyandb/api/proto/banyandb/model/v1"
	propertyv1 "github.com/apache/skywalking-banyandb/api/proto/banyandb/property/v1"
	"github.com/apache/skywalking-banyandb/banyand/observability"
	"github.com/apache/skywalking-banyandb/pkg/fs"
	"github.com/apache/skywalking-banyandb/pkg/logger"
	"github.com/apache/skywalking-banyandb/verifkit"
)

// C18 (anti-entropy): repair is monotone and convergent. 2..3 real replica databases receive
// generated subsets of a global update log (apply of a new revision, pruning of older revisions,
// delete), then exchange their newest state per key pairwise through Repair in a generated order.

type pOp struct {
	Kind string `json:"kind"` // apply | prune | delete | exchange
	Key  int    `json:"key"`
	Rev  int64  `json:"rev,omitempty"`
	To   []int  `json:"to,omitempty"`   // replicas reached by apply / prune / delete
	From int    `json:"from,omitempty"` // exchange: from -> Dst
	Dst  int    `json:"dst,omitempty"`
}

type pCase struct {
	Replicas int   `json:"replicas"`
	Ops      []pOp `json:"ops"`
}

const (
	c18Group = "verif-group"
	c18Name  = "verif-name"
)

var c18LogOnce sync.Once

func c18Prop(key int, rev int64) *propertyv1.Property {
	return &propertyv1.Property{
		Metadata: &commonv1.Metadata{Group: c18Group, Name: c18Name, CreateRevision: 1, ModRevision: rev},
		Id:       fmt.Sprintf("k%d", key),
		Tags:     []*modelv1.Tag{{Key: "v", Value: &modelv1.TagValue{Value: &modelv1.TagValue_Str{Str: &modelv1.Str{Value: fmt.Sprintf("val-%d-%d", key, rev)}}}}},
	}
}

type pDoc struct {
	rev int64
	del int64
	val string
	p   *propertyv1.Property
}

func (d *pDoc) String() string {
	if d == nil {
		return "<absent>"
	}
	if d.del > 0 {
		return fmt.Sprintf("tombstone@%d", d.rev)
	}
	return fmt.Sprintf("%s@%d", d.val, d.rev)
}

func c18Docs(r Database, key int) ([]*pDoc, error) {
	res, err := r.Query(context.Background(), &propertyv1.QueryRequest{Groups: []string{c18Group}, Name: c18Name, Ids: []string{fmt.Sprintf("k%d", key)}, Limit: 1000})
	if err != nil {
		return nil, err
	}
	var out []*pDoc
	for _, q := range res {
		var p propertyv1.Property
		if err := protojson.Unmarshal(q.Source(), &p); err != nil {
			return nil, err
		}
		d := &pDoc{rev: q.Timestamp(), del: q.DeleteTime(), p: &p}
		if len(p.Tags) > 0 {
			d.val = p.Tags[0].GetValue().GetStr().GetValue()
		}
		out = append(out, d)
	}
	sort.Slice(out, func(i, j int) bool { return out[i].rev < out[j].rev })
	return out, nil
}

func c18Latest(r Database, key int) (*pDoc, error) {
	docs, err := c18Docs(r, key)
	if err != nil || len(docs) == 0 {
		return nil, err
	}
	// several documents may share the newest revision (a live one and its deleted predecessor):
	// the visible state is live if any of them is live
	top := docs[len(docs)-1]
	for _, d := range docs {
		if d.rev == top.rev && d.del == 0 {
			return d, nil
		}
	}
	return top, nil
}

func sameDoc(a, b *pDoc) bool {
	if a == nil || b == nil {
		return a == b
	}
	return a.rev == b.rev && (a.del > 0) == (b.del > 0) && (a.del > 0 || a.val == b.val)
}

func runC18(x *verifkit.Ctx, c pCase) error {
	c18LogOnce.Do(func() { _ = logger.Init(logger.Logging{Env: "dev", Level: "error"}) })
	dir, err := os.MkdirTemp("", "verif-c18-")
	if err != nil {
		return err
	}
	defer os.RemoveAll(dir)
	var reps []Database
	defer func() {
		for _, r := range reps {
			_ = r.Close()
		}
	}()
	for i := 0; i < c.Replicas; i++ {
		r, oerr := OpenDB(context.Background(), Config{
			Location: fmt.Sprintf("%s/r%d/data", dir, i), MetricsScopeName: fmt.Sprintf("verif_c18_%d", i), FlushInterval: time.Hour, ExpireToDeleteDuration: time.Hour,
			Repair: RepairConfig{Enabled: false, Location: fmt.Sprintf("%s/r%d/repair", dir, i), BuildTreeCron: "@every 10m", QuickBuildTreeTime: time.Hour, TreeSlotCount: 32},
		}, observability.BypassRegistry, fs.NewLocalFileSystem())
		if oerr != nil {
			return fmt.Errorf("open replica %d: %v", i, oerr)
		}
		reps = append(reps, r)
	}
	ctx := context.Background()
	keys := map[int]bool{}
	maxRev := map[int]int64{}
	tomb, missed, multiRev := false, false, false
	revsOf := map[int]map[int64]bool{}
	delTime := time.Now() // tombstones older than ExpireToDeleteDuration are purged, so deletes happen "now"; the value never reaches an oracle
	exchange := func(from, dst int, what string) error {
		for k := range keys {
			src, lerr := c18Latest(reps[from], k)
			if lerr != nil {
				return lerr
			}
			if src == nil {
				continue
			}
			before, lerr := c18Latest(reps[dst], k)
			if lerr != nil {
				return lerr
			}
			if rerr := reps[dst].Repair(ctx, GetPropertyID(src.p), 0, src.p, src.del); rerr != nil {
				return fmt.Errorf("%s: Repair key k%d failed: %v", what, k, rerr)
			}
			after, lerr := c18Latest(reps[dst], k)
			if lerr != nil {
				return lerr
			}
			if after == nil {
				return fmt.Errorf("%s: key k%d disappeared from replica %d after a repair offering %v", what, k, dst, src)
			}
			if before != nil && after.rev < before.rev {
				return fmt.Errorf("%s: repair moved key k%d on replica %d backwards: %v -> %v (offered %v)", what, k, dst, before, after, src)
			}
			if before != nil && before.rev > src.rev && !sameDoc(before, after) {
				return fmt.Errorf("%s: replica %d held the newer %v for key k%d, was offered the older %v and now shows %v", what, dst, before, k, src, after)
			}
			if (before == nil || src.rev > before.rev) && !sameDoc(after, src) {
				return fmt.Errorf("%s: replica %d was offered the newer %v for key k%d (had %v) but shows %v", what, dst, src, k, before, after)
			}
		}
		return nil
	}
	for i, op := range c.Ops {
		what := fmt.Sprintf("op %d (%s)", i, op.Kind)
		switch op.Kind {
		case "apply":
			keys[op.Key] = true
			if revsOf[op.Key] == nil {
				revsOf[op.Key] = map[int64]bool{}
			}
			revsOf[op.Key][op.Rev] = true
			if len(revsOf[op.Key]) >= 3 {
				multiRev = true
			}
			if op.Rev > maxRev[op.Key] {
				maxRev[op.Key] = op.Rev
			}
			if len(op.To) < c.Replicas {
				missed = true
			}
			p := c18Prop(op.Key, op.Rev)
			for _, r := range op.To {
				if uerr := reps[r%c.Replicas].Update(ctx, 0, GetPropertyID(p), p); uerr != nil {
					return fmt.Errorf("%s: %v", what, uerr)
				}
			}
		case "prune", "delete":
			// prune: the broadcast that removes the revisions older than Rev; delete: removes every revision
			for _, r := range op.To {
				docs, derr := c18Docs(reps[r%c.Replicas], op.Key)
				if derr != nil {
					return derr
				}
				var ids [][]byte
				for _, d := range docs {
					if d.del == 0 && (op.Kind == "delete" || d.rev < op.Rev) {
						ids = append(ids, GetPropertyID(d.p))
					}
				}
				if len(ids) > 0 {
					if derr := reps[r%c.Replicas].Delete(ctx, ids, delTime); derr != nil {
						return fmt.Errorf("%s: %v", what, derr)
					}
					tomb = true
				}
			}
		case "exchange":
			if op.From%c.Replicas == op.Dst%c.Replicas {
				continue
			}
			if eerr := exchange(op.From%c.Replicas, op.Dst%c.Replicas, what); eerr != nil {
				return eerr
			}
		}
	}
	// anti-entropy until quiescence: all ordered pairs, twice
	for round := 0; round < 2; round++ {
		for a := 0; a < c.Replicas; a++ {
			for b := 0; b < c.Replicas; b++ {
				if a != b {
					if eerr := exchange(a, b, fmt.Sprintf("final round %d exchange %d->%d", round, a, b)); eerr != nil {
						return eerr
					}
				}
			}
		}
	}
	for k := range keys {
		var first *pDoc
		for r := 0; r < c.Replicas; r++ {
			d, lerr := c18Latest(reps[r], k)
			if lerr != nil {
				return lerr
			}
			if d == nil {
				return fmt.Errorf("after full exchange replica %d has nothing for key k%d", r, k)
			}
			if d.rev != maxRev[k] {
				return fmt.Errorf("after full exchange replica %d shows %v for key k%d, the highest revision applied anywhere is %d", r, d, k, maxRev[k])
			}
			if r == 0 {
				first = d
			} else if !sameDoc(first, d) {
				return fmt.Errorf("replicas did not converge on key k%d: replica 0 shows %v, replica %d shows %v", k, first, r, d)
			}
		}
	}
	x.LabelIf(tomb, "tombstone")
	x.LabelIf(missed, "update missed by a replica")
	x.LabelIf(multiRev, "key with >=3 revisions")
	if tomb && missed && multiRev {
		x.NonTrivial()
	}
	return nil
}

func TestVerifC18Repair(t *testing.T) {
	verifkit.Run(t, verifkit.Spec[pCase]{
		Property: "C18", Unit: "repair", CrashReplay: true,
		Rule: "2..3 real property databases; a generated update log over 1..3 keys (apply of increasing revisions, the broadcast pruning older revisions, deletes) of " +
			"which every replica receives a generated subset; generated pairwise exchanges (the sender's newest document or tombstone per key is offered through " +
			"Repair) interleaved with the log, then all ordered pairs twice; oracles after every single Repair: the receiver's newest revision never decreases, a " +
			"newer local value is never replaced by an older offer, a newer offer is adopted; at the end all replicas show the same (revision, value|tombstone) per " +
			"key and it carries the highest revision applied anywhere; non-trivial = a key with >= 3 revisions incl. a tombstone, missed by >= 1 replica",
		Gen: func(t *rapid.T, _ *verifkit.KnownSet) pCase {
			c := pCase{Replicas: rapid.IntRange(2, 3).Draw(t, "replicas")}
			nextRev := map[int]int64{}
			n := rapid.IntRange(3, 14).Draw(t, "nops")
			subset := func(label string) []int {
				var s []int
				for r := 0; r < c.Replicas; r++ {
					if rapid.IntRange(0, 3).Draw(t, label) > 0 {
						s = append(s, r)
					}
				}
				if len(s) == 0 {
					s = []int{rapid.IntRange(0, c.Replicas-1).Draw(t, label+"/one")}
				}
				return s
			}
			for i := 0; i < n; i++ {
				k := rapid.IntRange(0, 2).Draw(t, "key")
				switch rapid.IntRange(0, 9).Draw(t, "kind") {
				case 0, 1, 2, 3:
					nextRev[k] += int64(rapid.IntRange(1, 3).Draw(t, "step")) * 1000
					c.Ops = append(c.Ops, pOp{Kind: "apply", Key: k, Rev: nextRev[k], To: subset("to")})
					if rapid.Bool().Draw(t, "prune") {
						c.Ops = append(c.Ops, pOp{Kind: "prune", Key: k, Rev: nextRev[k], To: subset("pto")})
					}
				case 4, 5:
					c.Ops = append(c.Ops, pOp{Kind: "delete", Key: k, To: subset("dto")})
				default:
					c.Ops = append(c.Ops, pOp{Kind: "exchange", From: rapid.IntRange(0, c.Replicas-1).Draw(t, "from"), Dst: rapid.IntRange(0, c.Replicas-1).Draw(t, "dst")})
				}
			}
			return c
		},
		Check:        func(x *verifkit.Ctx, c pCase) error { return runC18(x, c) },
		MinLabelFrac: map[string]float64{"tombstone": 0.25, "update missed by a replica": 0.2},
	})
}
