package grpc

import (
	"context"
	"fmt"
	"os"
	"sort"
	"strings"
	"sync"
	"testing"
	"time"

	"pgregory.net/rapid"

	"github.com/apache/skywalking-banyandb/api/data"
	commonv1 "github.com/apache/skywalking-banyandb/api/proto/banyandb/common/v1"
	databasev1 "github.com/apache/skywalking-banyandb/api/proto/banyandb/database/v1"
	modelv1 "github.com/apache/skywalking-banyandb/api/proto/banyandb/model/v1"
	propertyv1 "github.com/apache/skywalking-banyandb/api/proto/banyandb/property/v1"
	"github.com/apache/skywalking-banyandb/banyand/metadata"
	"github.com/apache/skywalking-banyandb/banyand/metadata/schema"
	"github.com/apache/skywalking-banyandb/banyand/observability"
	"github.com/apache/skywalking-banyandb/banyand/property"
	propertydb "github.com/apache/skywalking-banyandb/banyand/property/db"
	"github.com/apache/skywalking-banyandb/banyand/queue"
	"github.com/apache/skywalking-banyandb/pkg/bus"
	"github.com/apache/skywalking-banyandb/pkg/fs"
	"github.com/apache/skywalking-banyandb/pkg/logger"
	"github.com/apache/skywalking-banyandb/verifkit"
)

// C18 (map clause): the real liaison PropertyService (Apply with merge / replace, Delete, Query) over
// real property data nodes (property database + the data-node listeners), wired by an in-process
// pipeline instead of gRPC. After any sequence of applies and deletes a query returns, for every key,
// exactly the latest non-deleted value: merge keeps earlier tags that were not overwritten, replace
// discards them, the creation revision of a live key is stable and the modification revision strictly
// increases.

const (
	p18Group = "verif-pg"
	p18Name  = "verif-pp"
)

var p18LogOnce sync.Once

type p18Op struct {
	Kind    string            `json:"kind"` // apply | delete | query | burst (apply Times times) | many | deleteall | down | up
	Times   int               `json:"times,omitempty"`
	Key     int               `json:"key"`
	Replace bool              `json:"replace,omitempty"`
	Tags    map[string]string `json:"tags,omitempty"` // t0..t3 -> value
	Q       *p18Query         `json:"q,omitempty"`
}

// p18Query is a generated user query: positive criteria (a missing tag never matches), an optional
// order by one tag, an optional projection, a limit relative to the expected result size.
type p18Query struct {
	Crit    *p18Crit `json:"crit,omitempty"`
	Order   string   `json:"order,omitempty"`
	Desc    bool     `json:"desc,omitempty"`
	Proj    []string `json:"proj,omitempty"`
	LimitBy int      `json:"limit_by"` // limit = max(1, expected + LimitBy)
}

type p18Crit struct {
	Op    string   `json:"op"` // eq | in | and | or
	Tag   string   `json:"tag,omitempty"`
	Vals  []string `json:"vals,omitempty"`
	Left  *p18Crit `json:"left,omitempty"`
	Right *p18Crit `json:"right,omitempty"`
}

func (c *p18Crit) eval(tags map[string]string) bool {
	switch c.Op {
	case "eq":
		v, ok := tags[c.Tag]
		return ok && v == c.Vals[0]
	case "in":
		v, ok := tags[c.Tag]
		if !ok {
			return false
		}
		for _, w := range c.Vals {
			if v == w {
				return true
			}
		}
		return false
	case "and":
		return c.Left.eval(tags) && c.Right.eval(tags)
	default:
		return c.Left.eval(tags) || c.Right.eval(tags)
	}
}

func (c *p18Crit) proto() *modelv1.Criteria {
	str := func(v string) *modelv1.TagValue {
		return &modelv1.TagValue{Value: &modelv1.TagValue_Str{Str: &modelv1.Str{Value: v}}}
	}
	switch c.Op {
	case "eq":
		return &modelv1.Criteria{Exp: &modelv1.Criteria_Condition{Condition: &modelv1.Condition{Name: c.Tag, Op: modelv1.Condition_BINARY_OP_EQ, Value: str(c.Vals[0])}}}
	case "in":
		return &modelv1.Criteria{Exp: &modelv1.Criteria_Condition{Condition: &modelv1.Condition{Name: c.Tag, Op: modelv1.Condition_BINARY_OP_IN,
			Value: &modelv1.TagValue{Value: &modelv1.TagValue_StrArray{StrArray: &modelv1.StrArray{Value: c.Vals}}}}}}
	}
	op := modelv1.LogicalExpression_LOGICAL_OP_AND
	if c.Op == "or" {
		op = modelv1.LogicalExpression_LOGICAL_OP_OR
	}
	return &modelv1.Criteria{Exp: &modelv1.Criteria_Le{Le: &modelv1.LogicalExpression{Op: op, Left: c.Left.proto(), Right: c.Right.proto()}}}
}

func p18GenCrit(t *rapid.T, depth int) *p18Crit {
	kinds := []string{"eq", "eq", "in"}
	if depth > 0 {
		kinds = append(kinds, "and", "or")
	}
	c := &p18Crit{Op: rapid.SampledFrom(kinds).Draw(t, "critop")}
	switch c.Op {
	case "eq":
		c.Tag = rapid.SampledFrom([]string{"t0", "t1", "t2", "t3"}).Draw(t, "ctag")
		c.Vals = []string{rapid.SampledFrom([]string{"a", "b", "c"}).Draw(t, "cval")}
	case "in":
		c.Tag = rapid.SampledFrom([]string{"t0", "t1", "t2", "t3"}).Draw(t, "ctag")
		c.Vals = rapid.SliceOfNDistinct(rapid.SampledFrom([]string{"a", "b", "c"}), 1, 3, rapid.ID[string]).Draw(t, "cvals")
	default:
		c.Left, c.Right = p18GenCrit(t, depth-1), p18GenCrit(t, depth-1)
	}
	return c
}

type p18Case struct {
	// Faulty: with two copies of every shard, node 0 may be unreachable for stretches of the history
	// (down / up operations): it misses the updates and deletes of that stretch and serves its stale
	// state afterwards. One replica of every shard always holds the full history.
	Faulty   bool    `json:"faulty,omitempty"`
	Nodes    int     `json:"nodes"`
	Replicas int     `json:"replicas"` // additional copies
	Ops      []p18Op `json:"ops"`
}

// ---- fakes: schema registry, node registry, pipeline ----

type p18Groups struct{ schema.Group }

func (p18Groups) GetGroup(_ context.Context, name string) (*commonv1.Group, error) {
	if name != p18Group {
		return nil, fmt.Errorf("group %s not found", name)
	}
	return &commonv1.Group{Metadata: &commonv1.Metadata{Name: p18Group}, Catalog: commonv1.Catalog_CATALOG_PROPERTY, ResourceOpts: &commonv1.ResourceOpts{ShardNum: 2}}, nil
}

type p18Props struct{ schema.Property }

func (p18Props) GetProperty(_ context.Context, md *commonv1.Metadata) (*databasev1.Property, error) {
	if md.GetName() != p18Name {
		return nil, fmt.Errorf("property %s not found", md.GetName())
	}
	spec := &databasev1.Property{Metadata: &commonv1.Metadata{Name: p18Name, Group: p18Group}}
	for i := 0; i < 4; i++ {
		spec.Tags = append(spec.Tags, &databasev1.TagSpec{Name: fmt.Sprintf("t%d", i), Type: databasev1.TagType_TAG_TYPE_STRING})
	}
	return spec, nil
}

type p18Repo struct{ metadata.Repo }

func (p18Repo) GroupRegistry() schema.Group       { return p18Groups{} }
func (p18Repo) PropertyRegistry() schema.Property { return p18Props{} }

type p18NodeRegistry struct{ nodes []string }

func (r p18NodeRegistry) Locate(_, _ string, shardID, replicaID uint32) (string, error) {
	return r.nodes[int(shardID+replicaID)%len(r.nodes)], nil
}

func (r p18NodeRegistry) LocateAll(_ string, shardID uint32, replicas int) ([]string, error) {
	seen := map[string]bool{}
	var out []string
	for i := 0; i < replicas; i++ {
		n, _ := r.Locate("", "", shardID, uint32(i))
		if !seen[n] {
			seen[n] = true
			out = append(out, n)
		}
	}
	return out, nil
}
func (r p18NodeRegistry) String() string { return strings.Join(r.nodes, ",") }

type p18Future struct {
	m   bus.Message
	err error
}

func (f p18Future) Get() (bus.Message, error)      { return f.m, f.err }
func (f p18Future) GetAll() ([]bus.Message, error) { return []bus.Message{f.m}, f.err }

type p18Node struct {
	name      string
	db        propertydb.Database
	listeners map[bus.Topic]bus.MessageListener
}

type p18Pipeline struct {
	queue.Client
	nodes map[string]*p18Node
	order []string
	down  map[string]bool
}

func (p *p18Pipeline) deliver(n *p18Node, topic bus.Topic, msg bus.Message) (bus.Future, error) {
	l, ok := n.listeners[topic]
	if !ok {
		return nil, fmt.Errorf("no listener for %v", topic)
	}
	resp := l.Rev(context.Background(), msg)
	return p18Future{m: bus.NewMessageWithNode(resp.ID(), n.name, resp.Data())}, nil
}

func (p *p18Pipeline) Publish(_ context.Context, topic bus.Topic, messages ...bus.Message) (bus.Future, error) {
	var last bus.Future
	for _, m := range messages {
		n, ok := p.nodes[m.Node()]
		if !ok {
			return nil, fmt.Errorf("unknown node %q", m.Node())
		}
		if p.down[n.name] {
			return nil, fmt.Errorf("node %s is unreachable", n.name)
		}
		f, err := p.deliver(n, topic, m)
		if err != nil {
			return nil, err
		}
		last = f
	}
	return last, nil
}

func (p *p18Pipeline) Broadcast(_ time.Duration, topic bus.Topic, message bus.Message) ([]bus.Future, error) {
	var out []bus.Future
	for _, name := range p.order {
		if p.down[name] {
			continue // the publisher broadcasts to the active nodes only
		}
		f, err := p.deliver(p.nodes[name], topic, message)
		if err != nil {
			return nil, err
		}
		out = append(out, f)
	}
	return out, nil
}

// ---- model and run ----

type p18Entry struct {
	tags      map[string]string
	createRev int64
	modRev    int64
}

func p18ID(k int) string { return fmt.Sprintf("k%d", k) }

func p18Render(tags []*modelv1.Tag) string {
	var parts []string
	for _, t := range tags {
		parts = append(parts, t.GetKey()+"="+t.GetValue().GetStr().GetValue())
	}
	sort.Strings(parts)
	return strings.Join(parts, ",")
}

func p18RenderMap(m map[string]string) string {
	var parts []string
	for k, v := range m {
		parts = append(parts, k+"="+v)
	}
	sort.Strings(parts)
	return strings.Join(parts, ",")
}

func runP18(x *verifkit.Ctx, c p18Case) error {
	p18LogOnce.Do(func() { _ = logger.Init(logger.Logging{Env: "dev", Level: "error"}) })
	dir, err := os.MkdirTemp("", "verif-p18-")
	if err != nil {
		return err
	}
	defer os.RemoveAll(dir)
	pipe := &p18Pipeline{nodes: map[string]*p18Node{}, down: map[string]bool{}}
	defer func() {
		for _, n := range pipe.nodes {
			_ = n.db.Close()
		}
	}()
	for i := 0; i < c.Nodes; i++ {
		name := fmt.Sprintf("node-%d", i)
		d, oerr := propertydb.OpenDB(context.Background(), propertydb.Config{
			Location: fmt.Sprintf("%s/%s/data", dir, name), MetricsScopeName: fmt.Sprintf("verif_p18_%d", i), FlushInterval: time.Hour, ExpireToDeleteDuration: time.Hour,
			Repair: propertydb.RepairConfig{Enabled: false, Location: fmt.Sprintf("%s/%s/repair", dir, name), BuildTreeCron: "@every 10m", QuickBuildTreeTime: time.Hour, TreeSlotCount: 32},
		}, observability.BypassRegistry, fs.NewLocalFileSystem())
		if oerr != nil {
			return fmt.Errorf("open %s: %v", name, oerr)
		}
		up, del, q, rep := property.VerifListeners(d, name, dir)
		pipe.nodes[name] = &p18Node{name: name, db: d, listeners: map[bus.Topic]bus.MessageListener{
			data.TopicPropertyUpdate: up, data.TopicPropertyDelete: del, data.TopicPropertyQuery: q, data.TopicPropertyRepair: rep,
		}}
		pipe.order = append(pipe.order, name)
	}
	nr := p18NodeRegistry{nodes: pipe.order}
	l := logger.GetLogger("verif-p18")
	gr := &groupRepo{log: l, resourceOpts: map[string]*commonv1.ResourceOpts{p18Group: {ShardNum: 2, Replicas: uint32(c.Replicas)}}, inflight: map[string]*groupInflight{}}
	ps := &propertyServer{
		schemaRegistry: p18Repo{}, pipeline: pipe, nodeRegistry: nr,
		discoveryService: newDiscoveryService(schema.KindProperty, p18Repo{}, nr, gr),
		metrics:          newMetrics(observability.BypassRegistry.With(observability.RootScope.SubScope("verif_p18"))),
	}
	ps.SetLogger(l)
	ps.repairQueue = newRepairQueue(ps, 64)
	ctx := context.Background()
	model := map[int]*p18Entry{}
	lastMod := map[int]int64{}
	merged, replaced, deleted, reapplied := false, false, false, false
	userQueries, ordered, wasDown, staleServed := false, false, false, false
	checkAll := func(what string) error {
		resp, qerr := ps.Query(ctx, &propertyv1.QueryRequest{Groups: []string{p18Group}, Name: p18Name, Limit: 1000})
		if qerr != nil {
			return fmt.Errorf("%s: query failed: %v", what, qerr)
		}
		got := map[string]*propertyv1.Property{}
		for _, p := range resp.GetProperties() {
			if _, dup := got[p.GetId()]; dup {
				return fmt.Errorf("%s: key %s returned twice", what, p.GetId())
			}
			got[p.GetId()] = p
		}
		for k, e := range model {
			p, ok := got[p18ID(k)]
			if !ok {
				return fmt.Errorf("%s: key %s [%s] is missing from the query result", what, p18ID(k), p18RenderMap(e.tags))
			}
			if p18Render(p.GetTags()) != p18RenderMap(e.tags) {
				return fmt.Errorf("%s: key %s holds [%s], the map model holds [%s]", what, p18ID(k), p18Render(p.GetTags()), p18RenderMap(e.tags))
			}
			if e.createRev == 0 {
				e.createRev, e.modRev = p.GetMetadata().GetCreateRevision(), p.GetMetadata().GetModRevision()
				if prev, ok := lastMod[k]; ok && e.modRev <= prev {
					return fmt.Errorf("%s: key %s: modification revision %d after %d is not increasing", what, p18ID(k), e.modRev, prev)
				}
				lastMod[k] = e.modRev
			} else {
				if p.GetMetadata().GetCreateRevision() != e.createRev {
					return fmt.Errorf("%s: key %s: creation revision changed from %d to %d", what, p18ID(k), e.createRev, p.GetMetadata().GetCreateRevision())
				}
				if p.GetMetadata().GetModRevision() < e.modRev {
					return fmt.Errorf("%s: key %s: modification revision went back from %d to %d", what, p18ID(k), e.modRev, p.GetMetadata().GetModRevision())
				}
				if p.GetMetadata().GetModRevision() > e.modRev {
					e.modRev = p.GetMetadata().GetModRevision()
					lastMod[k] = e.modRev
				}
			}
		}
		for id := range got {
			found := false
			for k := range model {
				if p18ID(k) == id {
					found = true
				}
			}
			if !found {
				return fmt.Errorf("%s: query returns key %s [%s] which the map model does not hold (deleted or never applied)", what, id, p18Render(got[id].GetTags()))
			}
		}
		return nil
	}
	var ops []p18Op
	for _, op := range c.Ops {
		if op.Kind == "many" {
			for j := 0; j < op.Times; j++ {
				ops = append(ops, p18Op{Kind: "apply", Key: 1000 + j, Replace: op.Replace, Tags: op.Tags, Times: -2})
			}
			continue
		}
		if op.Kind == "burst" {
			for j := 0; j < op.Times; j++ {
				ops = append(ops, p18Op{Kind: "apply", Key: op.Key, Replace: op.Replace, Tags: op.Tags, Times: -1})
			}
			continue
		}
		ops = append(ops, op)
	}
	// keys whose current revision was written while node 0 was unreachable (reset when a stretch begins)
	inStretch := map[int]bool{}
	tieSkipped := 0
	revisions := map[int]int{}
	maxRevisions, maxLive := 0, 0
	for i, op := range ops {
		what := fmt.Sprintf("op %d (%s %s)", i, op.Kind, p18ID(op.Key))
		switch op.Kind {
		case "apply":
			inStretch[op.Key] = true
			revisions[op.Key]++
			maxRevisions = max(maxRevisions, revisions[op.Key])
			var tags []*modelv1.Tag
			keys := make([]string, 0, len(op.Tags))
			for k := range op.Tags {
				keys = append(keys, k)
			}
			sort.Strings(keys)
			for _, k := range keys {
				tags = append(tags, &modelv1.Tag{Key: k, Value: &modelv1.TagValue{Value: &modelv1.TagValue_Str{Str: &modelv1.Str{Value: op.Tags[k]}}}})
			}
			strategy := propertyv1.ApplyRequest_STRATEGY_MERGE
			if op.Replace {
				strategy = propertyv1.ApplyRequest_STRATEGY_REPLACE
			}
			resp, aerr := ps.Apply(ctx, &propertyv1.ApplyRequest{Strategy: strategy,
				Property: &propertyv1.Property{Metadata: &commonv1.Metadata{Group: p18Group, Name: p18Name}, Id: p18ID(op.Key), Tags: tags}})
			if aerr != nil {
				return fmt.Errorf("%s: apply failed: %v", what, aerr)
			}
			e, live := model[op.Key]
			if resp.GetCreated() == live {
				return fmt.Errorf("%s: apply reports created=%v although the key was live=%v", what, resp.GetCreated(), live)
			}
			if !live {
				if _, was := lastMod[op.Key]; was {
					reapplied = true
				}
				e = &p18Entry{tags: map[string]string{}}
				model[op.Key] = e
			} else if op.Replace {
				e.tags = map[string]string{}
				replaced = true
			} else {
				merged = true
			}
			for k, v := range op.Tags {
				e.tags[k] = v
			}
			// the new modification revision is read back by the next check
			prevMod := e.modRev
			e.modRev = prevMod
			if int(resp.GetTagsNum()) != len(e.tags) {
				return fmt.Errorf("%s: apply reports %d tags, the map model holds %d", what, resp.GetTagsNum(), len(e.tags))
			}
			if op.Times < 0 && i+1 < len(ops) && ops[i+1].Times == op.Times && (op.Times == -2 || ops[i+1].Key == op.Key) {
				// inside a burst: the apply response was checked; the read-back happens at the end of the burst
				continue
			}
			if live {
				// force "strictly increasing": remember the previous value, compare after the read-back
				if cerr := func() error {
					before := prevMod
					if qerr := checkAll(what); qerr != nil {
						return qerr
					}
					if model[op.Key].modRev <= before {
						return fmt.Errorf("%s: key %s: modification revision did not increase on apply (%d -> %d)", what, p18ID(op.Key), before, model[op.Key].modRev)
					}
					return nil
				}(); cerr != nil {
					return cerr
				}
				continue
			}
		case "delete":
			if _, live := model[op.Key]; live && pipe.down[pipe.order[0]] && !inStretch[op.Key] {
				// node 0 holds this very revision live and would miss its tombstone: the same revision would be
				// live on one replica and deleted on the other, a tie the property does not arbitrate
				tieSkipped++
				continue
			}
			resp, derr := ps.Delete(ctx, &propertyv1.DeleteRequest{Group: p18Group, Name: p18Name, Id: p18ID(op.Key)})
			if derr != nil {
				return fmt.Errorf("%s: delete failed: %v", what, derr)
			}
			_, live := model[op.Key]
			if live && !resp.GetDeleted() {
				return fmt.Errorf("%s: delete of a live key reports deleted=false", what)
			}
			if live {
				deleted = true
			}
			delete(model, op.Key)
		case "down":
			if c.Faulty && !pipe.down[pipe.order[0]] {
				pipe.down[pipe.order[0]] = true
				wasDown = true
				inStretch = map[int]bool{}
			}
			continue
		case "up":
			if c.Faulty && pipe.down[pipe.order[0]] {
				delete(pipe.down, pipe.order[0])
				staleServed = true
			}
		case "deleteall":
			if pipe.down[pipe.order[0]] {
				tie := false
				for k := range model {
					if !inStretch[k] {
						tie = true
					}
				}
				if tie {
					tieSkipped++
					continue
				}
			}
			resp, derr := ps.Delete(ctx, &propertyv1.DeleteRequest{Group: p18Group, Name: p18Name})
			if derr != nil {
				return fmt.Errorf("%s: delete failed: %v", what, derr)
			}
			if len(model) > 0 && !resp.GetDeleted() {
				return fmt.Errorf("%s: delete of all keys reports deleted=false with %d live keys", what, len(model))
			}
			if len(model) > 0 {
				deleted = true
			}
			model = map[int]*p18Entry{}
		case "query":
			if op.Q != nil && wasDown && op.Q.Crit != nil {
				// criteria are evaluated per node: a stale replica may match with a revision that the
				// others have superseded; that is outside what the map model can state
				op.Q.Crit = nil
			}
			if op.Q != nil {
				if qerr := p18UserQuery(ctx, ps, model, op.Q, what); qerr != nil {
					return qerr
				}
				userQueries = true
				if op.Q.Order != "" {
					ordered = true
				}
			}
			// a limited query with room for every live key must still return every live key
			if n := len(model); n > 0 {
				lim := uint32(n + op.Times)
				resp, qerr := ps.Query(ctx, &propertyv1.QueryRequest{Groups: []string{p18Group}, Name: p18Name, Limit: lim})
				if qerr != nil {
					return fmt.Errorf("%s: query with limit %d failed: %v", what, lim, qerr)
				}
				if len(resp.GetProperties()) != n {
					return fmt.Errorf("%s: query with limit %d returns %d keys although %d keys are live (<= limit)", what, lim, len(resp.GetProperties()), n)
				}
			}
			// by id
			resp, qerr := ps.Query(ctx, &propertyv1.QueryRequest{Groups: []string{p18Group}, Name: p18Name, Ids: []string{p18ID(op.Key)}, Limit: 10})
			if qerr != nil {
				return fmt.Errorf("%s: query by id failed: %v", what, qerr)
			}
			e, live := model[op.Key]
			switch {
			case live && len(resp.GetProperties()) != 1:
				return fmt.Errorf("%s: query by id returns %d properties for a live key", what, len(resp.GetProperties()))
			case !live && len(resp.GetProperties()) != 0:
				return fmt.Errorf("%s: query by id returns [%s] for a key that is deleted or was never applied", what, p18Render(resp.GetProperties()[0].GetTags()))
			case live && p18Render(resp.GetProperties()[0].GetTags()) != p18RenderMap(e.tags):
				return fmt.Errorf("%s: query by id returns [%s], the map model holds [%s]", what, p18Render(resp.GetProperties()[0].GetTags()), p18RenderMap(e.tags))
			}
		}
		maxLive = max(maxLive, len(model))
		if cerr := checkAll(what); cerr != nil {
			return cerr
		}
	}
	x.LabelIf(merged, "merge onto a live key")
	x.LabelIf(replaced, "replace of a live key")
	x.LabelIf(deleted, "delete of a live key")
	x.LabelIf(reapplied, "apply after delete")
	x.LabelIf(tieSkipped > 0, "deletes skipped: same-revision live/tombstone tie")
	x.LabelIf(staleServed, "a replica missed a stretch of the history and serves again")
	x.LabelIf(userQueries, "query with criteria / order / projection")
	x.LabelIf(ordered, "ordered query")
	x.LabelIf(maxRevisions > 100, "> 100 revisions of one key")
	x.LabelIf(maxLive > 100, "> 100 live keys")
	x.LabelIf(c.Nodes > 1, ">= 2 data nodes")
	x.LabelIf(c.Replicas > 0, "replicated")
	if (merged || replaced) && deleted {
		x.NonTrivial()
	}
	return nil
}

// p18UserQuery runs one generated user query and compares it with the map model: the expected keys are the
// live keys whose current tags satisfy the criteria; with a limit below that number any subset of the right
// size is accepted. The order of the rows of an ordered query is not part of the property and is not asserted
// (ordered queries are generated because they take the liaison's other de-duplication path).
func p18UserQuery(ctx context.Context, ps *propertyServer, model map[int]*p18Entry, q *p18Query, what string) error {
	expect := map[string]map[string]string{}
	for k, e := range model {
		if q.Crit != nil && !q.Crit.eval(e.tags) {
			continue
		}
		expect[p18ID(k)] = e.tags
	}
	limit := max(1, len(expect)+q.LimitBy)
	req := &propertyv1.QueryRequest{Groups: []string{p18Group}, Name: p18Name, Limit: uint32(limit), TagProjection: q.Proj}
	if q.Crit != nil {
		req.Criteria = q.Crit.proto()
	}
	if q.Order != "" {
		req.OrderBy = &propertyv1.QueryOrder{TagName: q.Order, Sort: modelv1.Sort_SORT_ASC}
		if q.Desc {
			req.OrderBy.Sort = modelv1.Sort_SORT_DESC
		}
	}
	desc := fmt.Sprintf("%s: query %+v", what, *req)
	resp, err := ps.Query(ctx, req)
	if err != nil {
		return fmt.Errorf("%s failed: %v", desc, err)
	}
	want := min(limit, len(expect))
	if len(resp.GetProperties()) != want {
		return fmt.Errorf("%s returns %d properties, the map model selects %d (limit %d)", desc, len(resp.GetProperties()), len(expect), limit)
	}
	seen := map[string]bool{}
	for _, p := range resp.GetProperties() {
		tags, ok := expect[p.GetId()]
		if !ok {
			return fmt.Errorf("%s returns key %s [%s] which the map model does not select", desc, p.GetId(), p18Render(p.GetTags()))
		}
		if seen[p.GetId()] {
			return fmt.Errorf("%s returns key %s twice", desc, p.GetId())
		}
		seen[p.GetId()] = true
		wantTags := tags
		if len(q.Proj) > 0 {
			wantTags = map[string]string{}
			for _, name := range q.Proj {
				if v, ok := tags[name]; ok {
					wantTags[name] = v
				}
			}
		}
		if p18Render(p.GetTags()) != p18RenderMap(wantTags) {
			return fmt.Errorf("%s returns key %s with [%s], the map model holds [%s]", desc, p.GetId(), p18Render(p.GetTags()), p18RenderMap(wantTags))
		}
	}
	return nil
}

func TestVerifC18Map(t *testing.T) {
	verifkit.Run(t, verifkit.Spec[p18Case]{
		Property: "C18", Unit: "map", CrashReplay: true,
		Rule: "1..3 data nodes (real property databases behind the real data-node listeners), 0..1 extra copies, 2 shards; 1..25 operations over 4 keys: " +
			"Apply with the merge or the replace strategy and 1..4 of the tags t0..t3, Delete of a key, Delete of all keys, Query by id, with a limit >= the number of live keys and with generated positive criteria (eq / in / and / or), order by a tag, tag projection and a limit around the expected size, " +
			"a burst of 95..130 applies to one key, 95..330 applies to fresh keys; with two copies optionally stretches in which node 0 is unreachable (misses updates and deletes) and serves its stale state afterwards - all through the real liaison PropertyService " +
			"wired to the nodes by an in-process pipeline; after every operation a full query must return exactly the keys of a map model with their tags " +
			"(merge keeps earlier tags, replace discards them), a live key keeps its creation revision and its modification revision increases with every " +
			"apply, a deleted key is not returned; non-trivial = a merge or replace onto a live key and a delete of a live key",
		Gen: func(t *rapid.T, _ *verifkit.KnownSet) p18Case {
			c := p18Case{Nodes: rapid.SampledFrom([]int{1, 2, 2, 3, 3}).Draw(t, "nodes")}
			c.Replicas = min(rapid.SampledFrom([]int{0, 1, 1}).Draw(t, "replicas"), c.Nodes-1)
			c.Faulty = c.Replicas == 1 && rapid.IntRange(0, 3).Draw(t, "faulty") > 0
			kinds := []string{"apply", "apply", "apply", "apply", "apply", "apply", "delete", "delete", "query", "query", "deleteall"}
			maxKey := 3
			if c.Faulty {
				maxKey = 1 // dense histories per key: what a stale replica holds matters only for keys touched again
			}
			n := rapid.IntRange(1, 25).Draw(t, "nops")
			for i := 0; i < n; i++ {
				op := p18Op{Kind: rapid.SampledFrom(kinds).Draw(t, "kind"),
					Key: rapid.IntRange(0, maxKey).Draw(t, "key")}
				if op.Kind == "burst" {
					op.Times = rapid.IntRange(95, 130).Draw(t, "times")
				}
				if op.Kind == "query" {
					op.Times = rapid.IntRange(0, 3).Draw(t, "slack")
					if rapid.IntRange(0, 3).Draw(t, "userq") > 0 {
						q := &p18Query{LimitBy: rapid.IntRange(-2, 2).Draw(t, "limitby")}
						if rapid.Bool().Draw(t, "hascrit") {
							q.Crit = p18GenCrit(t, 2)
						}
						if rapid.Bool().Draw(t, "hasorder") {
							q.Order = rapid.SampledFrom([]string{"t0", "t1", "t2", "t3"}).Draw(t, "order")
							q.Desc = rapid.Bool().Draw(t, "desc")
						}
						if rapid.IntRange(0, 2).Draw(t, "hasproj") == 0 {
							q.Proj = rapid.SliceOfNDistinct(rapid.SampledFrom([]string{"t0", "t1", "t2", "t3"}), 1, 3, rapid.ID[string]).Draw(t, "proj")
						}
						op.Q = q
					}
				}
				if op.Kind == "many" {
					op.Times = rapid.IntRange(95, 330).Draw(t, "times")
				}
				if op.Kind == "apply" || op.Kind == "burst" || op.Kind == "many" {
					op.Replace = rapid.Bool().Draw(t, "replace")
					op.Tags = map[string]string{}
					k := rapid.IntRange(1, 4).Draw(t, "ntags")
					for _, name := range rapid.Permutation([]string{"t0", "t1", "t2", "t3"}).Draw(t, "tagnames")[:k] {
						op.Tags[name] = rapid.SampledFrom([]string{"a", "b", "c", ""}).Draw(t, "val")
					}
				}
				c.Ops = append(c.Ops, op)
			}
			if c.Faulty {
				// one or two stretches in which node 0 is unreachable
				for k := rapid.IntRange(1, 2).Draw(t, "stretches"); k > 0; k-- {
					i := rapid.IntRange(0, len(c.Ops)).Draw(t, "downat")
					j := rapid.IntRange(i, len(c.Ops)).Draw(t, "upat")
					c.Ops = append(c.Ops[:j], append([]p18Op{{Kind: "up"}}, c.Ops[j:]...)...)
					c.Ops = append(c.Ops[:i], append([]p18Op{{Kind: "down"}}, c.Ops[i:]...)...)
				}
			}
			// at most one burst on one key and one wave of fresh keys per case (they dominate the cost)
			heavy := rapid.SampledFrom([]string{"", "", "", "burst", "burst", "many", "both"}).Draw(t, "heavy")
			insert := func(op p18Op) {
				op.Replace = rapid.Bool().Draw(t, "hreplace")
				op.Tags = map[string]string{}
				k := rapid.IntRange(1, 4).Draw(t, "hntags")
				for _, name := range rapid.Permutation([]string{"t0", "t1", "t2", "t3"}).Draw(t, "htagnames")[:k] {
					op.Tags[name] = rapid.SampledFrom([]string{"a", "b", "c", ""}).Draw(t, "hval")
				}
				at := rapid.IntRange(0, len(c.Ops)).Draw(t, "hat")
				c.Ops = append(c.Ops[:at], append([]p18Op{op}, c.Ops[at:]...)...)
			}
			if heavy == "burst" || heavy == "both" {
				insert(p18Op{Kind: "burst", Key: rapid.IntRange(0, 3).Draw(t, "hkey"), Times: rapid.IntRange(95, 130).Draw(t, "htimes")})
			}
			if heavy == "many" || heavy == "both" {
				insert(p18Op{Kind: "many", Times: rapid.IntRange(95, 330).Draw(t, "hmany")})
			}
			return c
		},
		Check:        runP18,
		MinLabelFrac: map[string]float64{"merge onto a live key": 0.3, "replace of a live key": 0.3, "delete of a live key": 0.3, "> 100 revisions of one key": 0.05, "> 100 live keys": 0.05, "query with criteria / order / projection": 0.3, "ordered query": 0.08, "a replica missed a stretch of the history and serves again": 0.15},
	})
}
