package grpc

import (
	"fmt"
	"reflect"
	"testing"

	"pgregory.net/rapid"

	"github.com/apache/skywalking-banyandb/pkg/bydbql"
	"github.com/apache/skywalking-banyandb/verifkit"
)

// C20 (liaison statement cache): the liaison compiles a parameterized statement once and serves later executions from a
// cache. Whatever was executed before, the statement the cache hands out for a text must be the statement that text
// compiles to: literals - including the whitespace inside quoted strings - are data of that statement.

type pcCase struct {
	Size    int      `json:"size"`
	Queries []string `json:"queries"`
}

func TestVerifC20PreparedCache(t *testing.T) {
	lits := []string{"checkout v2", "checkout  v2", "checkout\tv2", " checkout v2", "checkout v2 ", "checkoutv2", "a", "a ", " a", "a  b", "a b", "x' OR 'y"}
	verifkit.Run(t, verifkit.Spec[pcCase]{
		Property: "C20", Unit: "prepared_cache",
		Rule: "2..8 parameterized stream/measure statements run through one liaison statement cache (1..8 entries): string literals drawn from a pool whose members differ only in " +
			"inner, leading or trailing whitespace, formatting outside literals fixed, statements repeated; oracle: the prepared statement the cache returns " +
			"for a text is structurally equal to a fresh compile of that very text (reflect.DeepEqual on the compiled template); non-trivial = two statements that differ only by " +
			"whitespace inside a literal",
		Gen: func(t *rapid.T, _ *verifkit.KnownSet) pcCase {
			c := pcCase{Size: rapid.IntRange(1, 8).Draw(t, "size")}
			// formatting outside literals is kept fixed: a cache that shares an entry between differently formatted copies of one
			// statement would be within its rights, and the oracle below compares compiled templates including token positions
			sp := func(string) string { return " " }
			quote := func(s string) string {
				out := "'"
				for _, r := range s {
					if r == '\'' {
						out += "''"
					} else {
						out += string(r)
					}
				}
				return out + "'"
			}
			for n := rapid.IntRange(2, 8).Draw(t, "n"); n > 0; n-- {
				if len(c.Queries) > 0 && rapid.IntRange(0, 3).Draw(t, "repeat") == 0 {
					c.Queries = append(c.Queries, rapid.SampledFrom(c.Queries).Draw(t, "again"))
					continue
				}
				lit := rapid.SampledFrom(lits).Draw(t, "lit")
				var q string
				switch rapid.IntRange(0, 2).Draw(t, "shape") {
				case 0:
					q = "SELECT *" + sp("s1") + "FROM STREAM sw IN default" + sp("s2") + "WHERE service_id = " + quote(lit) + sp("s3") + "AND instance = ?"
				case 1:
					q = "SELECT *" + sp("s1") + "FROM STREAM sw IN default WHERE instance = ? AND service_id IN (" + quote(lit) + "," + sp("s2") + "?)"
				default:
					q = "SELECT *" + sp("s1") + "FROM MEASURE cpm IN default WHERE entity_id = ? AND region != " + quote(lit) + sp("s2") + "LIMIT ?"
				}
				c.Queries = append(c.Queries, q)
			}
			return c
		},
		Check: func(x *verifkit.Ctx, c pcCase) error {
			if c.Size < 0 || c.Size > 64 || len(c.Queries) > 64 {
				return verifkit.Failf("bad case")
			}
			cache := newPreparedCache(c.Size, 0, nil)
			collapsed := map[string]string{}
			twins := false
			for i, q := range c.Queries {
				fresh, ferr := bydbql.Prepare(q)
				ps, how, err := cache.getOrPrepare(q)
				if (ferr == nil) != (err == nil) {
					return verifkit.Failf("statement %d %q: a fresh compile gives err=%v, the cache err=%v", i, q, ferr, err)
				}
				if err != nil {
					continue
				}
				if !reflect.DeepEqual(ps, fresh) {
					return verifkit.Failf("statement %d %q: the cache (%s) hands out a statement that differs from a fresh compile of this text:\ncache: %s\nfresh: %s", i, q, how, pcDump(ps), pcDump(fresh))
				}
				key := fmt.Sprint(fieldsOf(q))
				if prev, ok := collapsed[key]; ok && prev != q {
					twins = true
				}
				collapsed[key] = q
			}
			x.LabelIf(twins, "statements that differ only by whitespace")
			if twins {
				x.NonTrivial()
			}
			return nil
		},
		MinLabelFrac: map[string]float64{"statements that differ only by whitespace": 0.08},
	})
}

func fieldsOf(q string) []string {
	var out []string
	cur := ""
	for _, r := range q {
		if r == ' ' || r == '\t' || r == '\n' {
			if cur != "" {
				out = append(out, cur)
				cur = ""
			}
			continue
		}
		cur += string(r)
	}
	if cur != "" {
		out = append(out, cur)
	}
	return out
}

func pcDump(ps *bydbql.PreparedStatement) string {
	s := fmt.Sprintf("%+v", reflect.ValueOf(ps).Elem())
	if len(s) > 600 {
		s = s[:600] + "..."
	}
	return s
}
