package grpc

import (
	"sort"
	"testing"

	"pgregory.net/rapid"

	"github.com/apache/skywalking-banyandb/api/data"
	commonv1 "github.com/apache/skywalking-banyandb/api/proto/banyandb/common/v1"
	databasev1 "github.com/apache/skywalking-banyandb/api/proto/banyandb/database/v1"
	"github.com/apache/skywalking-banyandb/banyand/metadata/schema"
	"github.com/apache/skywalking-banyandb/banyand/queue"
	"github.com/apache/skywalking-banyandb/pkg/bus"
	"github.com/apache/skywalking-banyandb/pkg/node"
	"github.com/apache/skywalking-banyandb/verifkit"
)

// C16 (liaison node registry): the coordinator-side registry (clusterNodeService) sits between the queue
// publisher, which announces data nodes as they become active / inactive, and the node selector. Every
// coordinator has to end with the same shard->node assignment for the same set of groups and live data nodes,
// whatever order and repetition of announcements, removals and re-announcements it saw.

type r16Event struct {
	Kind     string `json:"kind"` // add-group | del-group | add-node | del-node | other-kind | unnamed-node
	Name     string `json:"name"`
	Shards   uint32 `json:"shards,omitempty"`
	Replicas uint32 `json:"replicas,omitempty"`
}

type r16Case struct {
	Selector string     `json:"selector"` // round-robin | pick-first
	Events   []r16Event `json:"events"`
	Perm     []int      `json:"perm"`
}

type r16Group struct{ shards, replicas uint32 }

// r16Pipeline records the handler the registry registers with the publisher.
type r16Pipeline struct {
	queue.Client
	handlers []schema.EventHandler
}

func (p *r16Pipeline) Register(_ bus.Topic, h schema.EventHandler) {
	p.handlers = append(p.handlers, h)
}

type r16Coordinator struct {
	reg NodeRegistry
	sel node.Selector
	pub *r16Pipeline
}

func newR16Coordinator(kind string) (*r16Coordinator, error) {
	var sel node.Selector
	if kind == "pick-first" {
		s, err := node.NewPickFirstSelector()
		if err != nil {
			return nil, err
		}
		sel = s
	} else {
		sel = node.NewRoundRobinSelector("verif", nil)
	}
	p := &r16Pipeline{}
	reg := NewClusterNodeRegistry(data.TopicMeasureWrite, p, sel)
	if len(p.handlers) != 1 {
		return nil, verifkit.Failf("the registry registered %d handlers with the publisher, want 1", len(p.handlers))
	}
	return &r16Coordinator{reg: reg, sel: sel, pub: p}, nil
}

func (c *r16Coordinator) apply(e r16Event) {
	h := c.pub.handlers[0] // node events reach the registry the way the publisher delivers them
	switch e.Kind {
	case "add-node":
		h.OnAddOrUpdate(schema.Metadata{TypeMeta: schema.TypeMeta{Kind: schema.KindNode, Name: e.Name}, Spec: &databasev1.Node{Metadata: &commonv1.Metadata{Name: e.Name}}})
	case "del-node":
		h.OnDelete(schema.Metadata{TypeMeta: schema.TypeMeta{Kind: schema.KindNode, Name: e.Name}, Spec: &databasev1.Node{Metadata: &commonv1.Metadata{Name: e.Name}}})
	case "unnamed-node": // ignored by the registry
		h.OnAddOrUpdate(schema.Metadata{TypeMeta: schema.TypeMeta{Kind: schema.KindNode}, Spec: &databasev1.Node{Metadata: &commonv1.Metadata{}}})
		h.OnDelete(schema.Metadata{TypeMeta: schema.TypeMeta{Kind: schema.KindNode}, Spec: &databasev1.Node{Metadata: &commonv1.Metadata{}}})
	case "other-kind": // events of other kinds are not the registry's business
		md := schema.Metadata{TypeMeta: schema.TypeMeta{Kind: schema.KindStream, Name: e.Name}, Spec: &databasev1.Stream{Metadata: &commonv1.Metadata{Name: e.Name, Group: "g1"}}}
		if rapidBool(e.Name) {
			h.OnAddOrUpdate(md)
		} else {
			h.OnDelete(md)
		}
	case "add-group", "del-group":
		gh, ok := c.sel.(schema.EventHandler) // groups reach the selector from the metadata repository
		if !ok {
			return
		}
		md := schema.Metadata{TypeMeta: schema.TypeMeta{Kind: schema.KindGroup, Name: e.Name}, Spec: &commonv1.Group{
			Metadata: &commonv1.Metadata{Name: e.Name}, Catalog: commonv1.Catalog_CATALOG_MEASURE,
			ResourceOpts: &commonv1.ResourceOpts{ShardNum: max(e.Shards, 1), Replicas: e.Replicas},
		}}
		if e.Kind == "add-group" {
			gh.OnAddOrUpdate(md)
		} else {
			gh.OnDelete(md)
		}
	}
}

func rapidBool(s string) bool { return len(s)%2 == 0 }

func (c r16Case) final() (map[string]r16Group, []string) {
	groups := map[string]r16Group{}
	nodes := map[string]bool{}
	for _, e := range c.Events {
		switch e.Kind {
		case "add-group":
			groups[e.Name] = r16Group{e.Shards, e.Replicas}
		case "del-group":
			delete(groups, e.Name)
		case "add-node":
			nodes[e.Name] = true
		case "del-node":
			delete(nodes, e.Name)
		}
	}
	var nl []string
	for n := range nodes {
		nl = append(nl, n)
	}
	sort.Strings(nl)
	return groups, nl
}

func TestVerifC16Registry(t *testing.T) {
	groupNames := []string{"g1", "g2", "metrics", "traces", "a"}
	nodeNames := []string{"n1", "n2", "n3", "n4", "node-a", "data-0"}
	verifkit.Run(t, verifkit.Spec[r16Case]{
		Property: "C16", Unit: "registry",
		Rule: "event histories of 0..24 events fed to the real liaison node registry (NewClusterNodeRegistry over the real round-robin or pick-first selector): node " +
			"announcements (incl. repeated ones = the publisher's re-announcement after a health probe), node removals (incl. of unknown nodes), re-announcements after a removal, " +
			"events without a node name and of other kinds through the handler the registry registers with the publisher, group add/update/remove (1..6 shards, 0..2 replicas) " +
			"through the selector; a second coordinator is fed only the final topology in a generated permutation; oracle: Locate agrees between both coordinators for every " +
			"(group, shard, replica) and names a live node, every shard of every final group is located when a node is live and none when no node is, LocateAll returns " +
			"min(copies, live nodes) distinct nodes (round-robin); non-trivial = >= 2 final nodes and a node was announced again after a removal",
		Gen: func(t *rapid.T, _ *verifkit.KnownSet) r16Case {
			c := r16Case{Selector: rapid.SampledFrom([]string{"round-robin", "round-robin", "pick-first"}).Draw(t, "selector")}
			live := map[string]bool{}
			var gone []string
			for i := rapid.IntRange(0, 24).Draw(t, "n"); i > 0; i-- {
				var e r16Event
				switch rapid.IntRange(0, 11).Draw(t, "kind") {
				case 0, 1, 2:
					e = r16Event{Kind: "add-group", Name: rapid.SampledFrom(groupNames).Draw(t, "g"), Shards: uint32(rapid.IntRange(1, 6).Draw(t, "sh")), Replicas: uint32(rapid.IntRange(0, 2).Draw(t, "rp"))}
				case 3:
					e = r16Event{Kind: "del-group", Name: rapid.SampledFrom(groupNames).Draw(t, "g")}
				case 4, 5, 6:
					e = r16Event{Kind: "add-node", Name: rapid.SampledFrom(nodeNames).Draw(t, "nd")}
					live[e.Name] = true
				case 7: // a node that went away comes back
					pool := nodeNames
					if len(gone) > 0 {
						pool = gone
					}
					e = r16Event{Kind: "add-node", Name: rapid.SampledFrom(pool).Draw(t, "back")}
					live[e.Name] = true
				case 8, 9:
					pool := nodeNames
					if rapid.IntRange(0, 3).Draw(t, "dellive") > 0 {
						pool = nil
						for _, n := range nodeNames {
							if live[n] {
								pool = append(pool, n)
							}
						}
						if len(pool) == 0 {
							pool = nodeNames
						}
					}
					e = r16Event{Kind: "del-node", Name: rapid.SampledFrom(pool).Draw(t, "nd")}
					if live[e.Name] {
						gone = append(gone, e.Name)
					}
					delete(live, e.Name)
				case 10:
					e = r16Event{Kind: "other-kind", Name: rapid.SampledFrom(nodeNames).Draw(t, "nd")}
				default:
					e = r16Event{Kind: "unnamed-node"}
				}
				c.Events = append(c.Events, e)
			}
			groups, nodes := c.final()
			perm := make([]int, len(groups)+len(nodes))
			for i := range perm {
				perm[i] = i
			}
			c.Perm = rapid.Permutation(perm).Draw(t, "perm")
			return c
		},
		Check: func(x *verifkit.Ctx, c r16Case) error {
			a, err := newR16Coordinator(c.Selector)
			if err != nil {
				return err
			}
			live := map[string]bool{}
			removed := map[string]bool{}
			readmitted, repeated := false, false
			for _, e := range c.Events {
				a.apply(e)
				switch e.Kind {
				case "add-node":
					if live[e.Name] {
						repeated = true
					} else if removed[e.Name] {
						readmitted = true
					}
					live[e.Name] = true
				case "del-node":
					if live[e.Name] {
						removed[e.Name] = true
					}
					delete(live, e.Name)
				}
			}
			groups, nodes := c.final()
			var gnames []string
			for g := range groups {
				gnames = append(gnames, g)
			}
			sort.Strings(gnames)
			var canon []r16Event
			for _, g := range gnames {
				canon = append(canon, r16Event{Kind: "add-group", Name: g, Shards: groups[g].shards, Replicas: groups[g].replicas})
			}
			for _, n := range nodes {
				canon = append(canon, r16Event{Kind: "add-node", Name: n})
			}
			b, err := newR16Coordinator(c.Selector)
			if err != nil {
				return err
			}
			if len(c.Perm) == len(canon) {
				for _, i := range c.Perm {
					if i < 0 || i >= len(canon) {
						return verifkit.Failf("bad case: perm %v", c.Perm)
					}
					b.apply(canon[i])
				}
			} else {
				for _, e := range canon {
					b.apply(e)
				}
			}
			isLive := func(n string) bool {
				for _, k := range nodes {
					if k == n {
						return true
					}
				}
				return false
			}
			if c.Selector == "pick-first" {
				// one node serves everything: the smallest live node on every coordinator
				na, ea := a.reg.Locate("g1", "", 0, 0)
				nb, eb := b.reg.Locate("g1", "", 0, 0)
				if len(nodes) == 0 {
					if ea == nil || eb == nil {
						return verifkit.Failf("Locate succeeded (%q / %q) with no live node", na, nb)
					}
				} else {
					if ea != nil {
						return verifkit.Failf("nothing is located after the event history although %v are live: %v", nodes, ea)
					}
					if eb != nil {
						return verifkit.Failf("nothing is located on the coordinator fed the final topology %v: %v", nodes, eb)
					}
					if na != nb || na != nodes[0] {
						return verifkit.Failf("coordinators disagree: %q after the event history, %q after the final topology %v alone", na, nb, nodes)
					}
				}
			} else {
				for _, g := range gnames {
					gr := groups[g]
					for s := uint32(0); s < gr.shards; s++ {
						seen := map[string]bool{}
						for r := uint32(0); r <= gr.replicas; r++ {
							na, ea := a.reg.Locate(g, "", s, r)
							nb, eb := b.reg.Locate(g, "", s, r)
							if len(nodes) == 0 {
								if ea == nil || eb == nil {
									return verifkit.Failf("Locate(%s,%d,%d) succeeded with no live node", g, s, r)
								}
								continue
							}
							if ea != nil {
								return verifkit.Failf("shard %s-%d (replica %d) of a known group is not located after the event history: %v (live nodes %v)", g, s, r, ea, nodes)
							}
							if eb != nil {
								return verifkit.Failf("shard %s-%d (replica %d) is not located on the coordinator fed the final topology: %v", g, s, r, eb)
							}
							if na != nb {
								return verifkit.Failf("coordinators disagree on %s-%d replica %d: %q after the event history, %q after the final topology alone (groups %v nodes %v)",
									g, s, r, na, nb, gnames, nodes)
							}
							if !isLive(na) {
								return verifkit.Failf("%s-%d replica %d located on %q which is not a live node %v", g, s, r, na, nodes)
							}
							seen[na] = true
						}
						if len(nodes) == 0 {
							continue
						}
						copies := int(gr.replicas) + 1
						all, err := a.reg.LocateAll(g, s, copies)
						if err != nil {
							return verifkit.Failf("LocateAll(%s,%d,%d): %v", g, s, copies, err)
						}
						want := copies
						if len(nodes) < want {
							want = len(nodes)
						}
						if len(all) != want || len(seen) != want {
							return verifkit.Failf("the %d copies of shard %s-%d sit on %d distinct nodes %v although %d nodes are live %v", copies, g, s, len(all), all, len(nodes), nodes)
						}
					}
				}
			}
			x.LabelIf(readmitted, "node announced again after a removal")
			x.LabelIf(repeated, "repeated announcement of a live node")
			x.LabelIf(len(nodes) >= 2, ">=2 final nodes")
			x.LabelIf(c.Selector == "pick-first", "pick-first selector")
			if readmitted && len(nodes) >= 2 {
				x.NonTrivial()
			}
			return nil
		},
		MinLabelFrac: map[string]float64{"node announced again after a removal": 0.1, "repeated announcement of a live node": 0.2, ">=2 final nodes": 0.3},
	})
}
