package test

import (
	"bytes"
	"context"
	"fmt"
	"io"
	"net"
	"os"
	"path/filepath"
	"sync"
	"testing"
	"time"

	"github.com/spf13/cobra"
	"google.golang.org/grpc"
	"google.golang.org/grpc/credentials/insecure"
	"google.golang.org/grpc/encoding"
	"google.golang.org/grpc/metadata"
	"google.golang.org/protobuf/proto"
	"pgregory.net/rapid"

	"github.com/apache/skywalking-banyandb/api/data"
	clusterv1 "github.com/apache/skywalking-banyandb/api/proto/banyandb/cluster/v1"
	commonv1 "github.com/apache/skywalking-banyandb/api/proto/banyandb/common/v1"
	databasev1 "github.com/apache/skywalking-banyandb/api/proto/banyandb/database/v1"
	"github.com/apache/skywalking-banyandb/banyand/metadata/schema"
	"github.com/apache/skywalking-banyandb/banyand/observability"
	"github.com/apache/skywalking-banyandb/banyand/queue"
	"github.com/apache/skywalking-banyandb/banyand/queue/pub"
	"github.com/apache/skywalking-banyandb/banyand/queue/sub"
	pkgbytes "github.com/apache/skywalking-banyandb/pkg/bytes"
	"github.com/apache/skywalking-banyandb/pkg/fs"
	"github.com/apache/skywalking-banyandb/pkg/logger"
	"github.com/apache/skywalking-banyandb/pkg/run"
	"github.com/apache/skywalking-banyandb/pkg/test"
	"github.com/apache/skywalking-banyandb/pkg/test/helpers"
	"github.com/apache/skywalking-banyandb/verifkit"
)

// C17 (part transfer): the REAL chunked-sync client (banyand/queue/pub) ships generated parts to the
// REAL SyncPart server (banyand/queue/sub) over loopback gRPC through a transparent proxy that
// applies a generated fault schedule to the client->server chunk stream.
// Oracle: whatever the receiver installs (FinishSync) is byte-identical per file to what the sender
// holds; with no fault the transfer succeeds and installs every part.

// ---------------------------------------------------------------- receiver

type c17Part struct {
	id        uint64
	files     map[string][]byte
	installed map[string][]byte
	finished  bool
	closed    bool
}

type c17Handler struct {
	mu    sync.Mutex
	parts []*c17Part
}

func (p *c17Part) NewPartType(*queue.ChunkedSyncPartContext) error { return nil }
func (p *c17Part) FinishSync() error {
	p.finished = true
	p.installed = map[string][]byte{}
	for k, v := range p.files {
		p.installed[k] = append([]byte(nil), v...)
	}
	return nil
}
func (p *c17Part) Close() error { p.closed = true; return nil }

func (h *c17Handler) HandleFileChunk(ctx *queue.ChunkedSyncPartContext, chunk []byte) error {
	p := ctx.Handler.(*c17Part)
	p.files[ctx.FileName] = append(p.files[ctx.FileName], chunk...)
	return nil
}

func (h *c17Handler) CreatePartHandler(ctx *queue.ChunkedSyncPartContext) (queue.PartHandler, error) {
	p := &c17Part{id: ctx.ID, files: map[string][]byte{}}
	h.mu.Lock()
	h.parts = append(h.parts, p)
	h.mu.Unlock()
	return p, nil
}

func (h *c17Handler) byID(id uint64) []*c17Part {
	h.mu.Lock()
	defer h.mu.Unlock()
	var out []*c17Part
	for _, p := range h.parts {
		if p.id == id {
			out = append(out, p)
		}
	}
	return out
}

// ---------------------------------------------------------------- transparent gRPC proxy with fault injection

type rawCodec struct{}

func (rawCodec) Marshal(v any) ([]byte, error) {
	if b, ok := v.(*[]byte); ok {
		return *b, nil
	}
	if m, ok := v.(proto.Message); ok {
		return proto.Marshal(m)
	}
	return nil, fmt.Errorf("rawCodec: unexpected %T", v)
}

func (rawCodec) Unmarshal(data []byte, v any) error {
	if b, ok := v.(*[]byte); ok {
		*b = append([]byte(nil), data...)
		return nil
	}
	if m, ok := v.(proto.Message); ok {
		return proto.Unmarshal(data, m)
	}
	return fmt.Errorf("rawCodec: unexpected %T", v)
}

func (rawCodec) Name() string { return "proto" }

var _ encoding.Codec = rawCodec{}

type c17Fault struct {
	Kind string `json:"kind"` // flip | dup | replay | truncate | dupfirst
	At   int    `json:"at"`   // index of the data chunk (0-based, in order of first transmission) after/at which the fault applies
	Of   int    `json:"of"`   // replay: which earlier chunk is sent again
}

type c17Proxy struct {
	upstream *grpc.ClientConn
	mu       sync.Mutex
	faults   []c17Fault
	applied  map[string]int
}

func (p *c17Proxy) setFaults(f []c17Fault) {
	p.mu.Lock()
	p.faults = f
	p.applied = map[string]int{}
	p.mu.Unlock()
}

func (p *c17Proxy) handler(_ any, ss grpc.ServerStream) error {
	method, _ := grpc.MethodFromServerStream(ss)
	ctx, cancel := context.WithCancel(ss.Context())
	defer cancel()
	if md, ok := metadata.FromIncomingContext(ss.Context()); ok {
		ctx = metadata.NewOutgoingContext(ctx, md.Copy())
	}
	cs, err := grpc.NewClientStream(ctx, &grpc.StreamDesc{ServerStreams: true, ClientStreams: true}, p.upstream, method, grpc.ForceCodec(rawCodec{}))
	if err != nil {
		return err
	}
	isSync := method == "/banyandb.cluster.v1.ChunkedSyncService/SyncPart"
	// The server answers every request in order: the FIFO remembers which forwarded requests were
	// injected by the proxy, so that exactly their answers are withheld from the client.
	var omu sync.Mutex
	var origin []bool // true = injected
	push := func(injected bool) {
		omu.Lock()
		origin = append(origin, injected)
		omu.Unlock()
	}
	errCh := make(chan error, 2)
	go func() { // upstream -> client
		for {
			var frame []byte
			if rerr := cs.RecvMsg(&frame); rerr != nil {
				errCh <- rerr
				return
			}
			injected := false
			if isSync {
				omu.Lock()
				if len(origin) > 0 {
					injected = origin[0]
					origin = origin[1:]
				}
				omu.Unlock()
			}
			if injected {
				continue
			}
			if serr := ss.SendMsg(&frame); serr != nil {
				errCh <- serr
				return
			}
		}
	}()
	go func() { // client -> upstream
		p.mu.Lock()
		faults := append([]c17Fault(nil), p.faults...)
		p.mu.Unlock()
		var sent [][]byte // data chunk frames in order of first transmission
		for {
			var frame []byte
			if rerr := ss.RecvMsg(&frame); rerr != nil {
				if rerr == io.EOF {
					_ = cs.CloseSend()
					return
				}
				errCh <- rerr
				return
			}
			if !isSync {
				if serr := cs.SendMsg(&frame); serr != nil {
					errCh <- serr
					return
				}
				continue
			}
			req := &clusterv1.SyncPartRequest{}
			if uerr := proto.Unmarshal(frame, req); uerr != nil || req.GetCompletion() != nil || len(req.GetChunkData()) == 0 {
				push(false)
				if serr := cs.SendMsg(&frame); serr != nil {
					errCh <- serr
					return
				}
				continue
			}
			// a data chunk: is it a first transmission or a client retry of the previous index?
			idx := len(sent)
			retry := false
			if n := len(sent); n > 0 {
				prev := &clusterv1.SyncPartRequest{}
				_ = proto.Unmarshal(sent[n-1], prev)
				if prev.GetChunkIndex() == req.GetChunkIndex() {
					retry = true
					idx = n - 1
				}
			}
			if !retry {
				sent = append(sent, frame)
			}
			out := frame
			for _, f := range faults {
				if f.At != idx || retry {
					continue
				}
				switch f.Kind {
				case "flip":
					bad := proto.Clone(req).(*clusterv1.SyncPartRequest)
					bad.ChunkData = append([]byte(nil), bad.ChunkData...)
					bad.ChunkData[len(bad.ChunkData)/2] ^= 0x20
					out, _ = proto.Marshal(bad)
				case "truncate":
					p.note("truncate")
					_ = cs.CloseSend()
					cancel()
					errCh <- fmt.Errorf("injected: connection lost after chunk %d", idx)
					return
				}
			}
			push(false)
			if serr := cs.SendMsg(&out); serr != nil {
				errCh <- serr
				return
			}
			for _, f := range faults {
				if f.At != idx || retry {
					continue
				}
				switch f.Kind {
				case "flip":
					p.note("flip")
				case "dup":
					p.note("dup")
					push(true)
					if serr := cs.SendMsg(&frame); serr != nil {
						errCh <- serr
						return
					}
				case "replay", "dupfirst":
					of := f.Of
					if f.Kind == "dupfirst" {
						of = 0
					}
					if of >= 0 && of < idx {
						p.note(f.Kind)
						push(true)
						old := sent[of]
						if serr := cs.SendMsg(&old); serr != nil {
							errCh <- serr
							return
						}
					}
				}
			}
		}
	}()
	err = <-errCh
	if err == io.EOF {
		ss.SetTrailer(cs.Trailer())
		return nil
	}
	return err
}

func (p *c17Proxy) note(k string) {
	p.mu.Lock()
	p.applied[k]++
	p.mu.Unlock()
}

// ---------------------------------------------------------------- environment (one per process)

type c17Env struct {
	handler *c17Handler
	proxy   *c17Proxy
	client  queue.Client
	node    string
	dir     string
	lfs     fs.FileSystem
	nextID  uint64
}

var (
	c17Once sync.Once
	c17E    *c17Env
	c17Err  error
)

func c17Setup(reorder bool) (*c17Env, error) {
	c17Once.Do(func() {
		_ = logger.Init(logger.Logging{Env: "dev", Level: "error"})
		ports, err := test.AllocateFreePorts(2)
		if err != nil {
			c17Err = err
			return
		}
		name := "verif-c17"
		server := sub.NewServerWithPorts(observability.BypassRegistry, name, uint32(ports[0]), uint32(ports[1]))
		h := &c17Handler{}
		server.RegisterChunkedSyncHandler(data.TopicStreamPartSync, h)
		g := run.NewGroup(name)
		closer, _ := run.NewTester(name + "-closer")
		g.Register(closer, server)
		cmd := &cobra.Command{Use: name, FParseErrWhitelist: cobra.FParseErrWhitelist{UnknownFlags: true}, Run: func(_ *cobra.Command, _ []string) {
			_ = g.Run(context.Background())
		}}
		cmd.Flags().AddFlagSet(g.RegisterFlags().FlagSet)
		args := []string{}
		if !reorder {
			args = append(args, "--"+name+"-enable-chunk-reordering=false")
		}
		cmd.SetArgs(args)
		go func() { _ = cmd.Execute() }()
		addr := fmt.Sprintf("localhost:%d", ports[0])
		ok := false
		for i := 0; i < 100; i++ {
			if helpers.HealthCheck(addr, 2*time.Second, 2*time.Second, grpc.WithTransportCredentials(insecure.NewCredentials()))() == nil {
				ok = true
				break
			}
			time.Sleep(100 * time.Millisecond)
		}
		if !ok {
			c17Err = fmt.Errorf("sync server did not come up")
			return
		}
		up, err := grpc.NewClient(addr, grpc.WithTransportCredentials(insecure.NewCredentials()))
		if err != nil {
			c17Err = err
			return
		}
		px := &c17Proxy{upstream: up, applied: map[string]int{}}
		lis, err := net.Listen("tcp", "127.0.0.1:0")
		if err != nil {
			c17Err = err
			return
		}
		gs := grpc.NewServer(grpc.ForceServerCodec(rawCodec{}), grpc.UnknownServiceHandler(px.handler))
		go func() { _ = gs.Serve(lis) }()
		client := pub.NewWithoutMetadata(nil)
		node := name + "-node"
		client.OnAddOrUpdate(schema.Metadata{TypeMeta: schema.TypeMeta{Name: node, Kind: schema.KindNode}, Spec: &databasev1.Node{
			Metadata: &commonv1.Metadata{Name: node}, Roles: []databasev1.Role{databasev1.Role_ROLE_DATA}, GrpcAddress: lis.Addr().String()}})
		ready := false
		for i := 0; i < 100; i++ {
			if cc, cerr := client.NewChunkedSyncClient(node, 1024); cerr == nil {
				_ = cc.Close()
				ready = true
				break
			}
			time.Sleep(100 * time.Millisecond)
		}
		if !ready {
			c17Err = fmt.Errorf("pub client never connected through the proxy")
			return
		}
		dir, _ := os.MkdirTemp("", "verif-c17-")
		c17E = &c17Env{handler: h, proxy: px, client: client, node: node, dir: dir, nextID: uint64(time.Now().UnixNano() % 1_000_000_000),
			lfs: fs.NewLocalFileSystemWithLoggerAndLimit(logger.GetLogger("verif-c17"), 1)}
	})
	return c17E, c17Err
}

// ---------------------------------------------------------------- cases

type c17File struct {
	Name string `json:"name"`
	Size int    `json:"size"`
	Seed byte   `json:"seed"`
}

type c17Case struct {
	Parts     [][]c17File `json:"parts"` // 1..3 parts
	ChunkSize uint32      `json:"chunk_size"`
	OnDisk    bool        `json:"on_disk"` // readers over files on disk (bufio short reads) or in-memory buffers
	Faults    []c17Fault  `json:"faults,omitempty"`
}

func pattern(seed byte, n int) []byte {
	out := make([]byte, n)
	for i := range out {
		out[i] = byte((i*131)>>3) ^ byte(i) ^ seed
	}
	return out
}

func runC17(x *verifkit.Ctx, c c17Case, reorder bool) error {
	e, err := c17Setup(reorder)
	if err != nil {
		return fmt.Errorf("setup: %v", err)
	}
	e.proxy.setFaults(c.Faults)
	cc, err := e.client.NewChunkedSyncClient(e.node, c.ChunkSize)
	if err != nil {
		return fmt.Errorf("client: %v", err)
	}
	defer cc.Close()
	var parts []queue.StreamingPartData
	want := map[uint64]map[string][]byte{}
	var closers []func()
	defer func() {
		for _, f := range closers {
			f()
		}
	}()
	total := 0
	for _, files := range c.Parts {
		e.nextID++
		id := e.nextID
		want[id] = map[string][]byte{}
		var infos []queue.FileInfo
		var sz uint64
		for fi, f := range files {
			content := pattern(f.Seed+byte(fi), f.Size)
			want[id][f.Name] = content
			sz += uint64(len(content))
			total += len(content)
			if c.OnDisk {
				p := filepath.Join(e.dir, fmt.Sprintf("%016x-%s", id, f.Name))
				if _, werr := e.lfs.Write(content, p, 0o600); werr != nil {
					return werr
				}
				fl, oerr := e.lfs.OpenFile(p)
				if oerr != nil {
					return oerr
				}
				closers = append(closers, func() { _ = fl.Close(); _ = os.Remove(p) })
				infos = append(infos, queue.FileInfo{Name: f.Name, Reader: fl.SequentialRead()})
			} else {
				var buf pkgbytes.Buffer
				_, _ = buf.Write(content)
				infos = append(infos, queue.FileInfo{Name: f.Name, Reader: buf.SequentialRead()})
			}
		}
		now := time.Now().UnixMilli()
		parts = append(parts, queue.StreamingPartData{ID: id, Files: infos, Group: "verif", ShardID: 0, Topic: data.TopicStreamPartSync.String(),
			CompressedSizeBytes: sz, UncompressedSizeBytes: sz, TotalCount: 1, BlocksCount: 1, MinTimestamp: now, MaxTimestamp: now})
	}
	ctx, cancel := context.WithTimeout(context.Background(), 20*time.Second)
	defer cancel()
	res, serr := cc.SyncStreamingParts(ctx, parts)
	success := serr == nil && res != nil && res.Success && len(res.FailedParts) == 0
	// the receiver installs asynchronously with respect to the client's return: bounded wait
	deadline := time.Now().Add(3 * time.Second)
	for success && time.Now().Before(deadline) {
		all := true
		for id := range want {
			fin := false
			for _, p := range e.handler.byID(id) {
				if p.finished {
					fin = true
				}
			}
			if !fin {
				all = false
			}
		}
		if all {
			break
		}
		time.Sleep(5 * time.Millisecond)
	}
	if !success {
		time.Sleep(20 * time.Millisecond)
	}
	e.proxy.mu.Lock()
	applied := map[string]int{}
	for k, v := range e.proxy.applied {
		applied[k] = v
	}
	e.proxy.mu.Unlock()
	for k := range applied {
		x.Label("fault applied:" + k)
	}
	installedAll := true
	for id, files := range want {
		inst := 0
		for _, p := range e.handler.byID(id) {
			if !p.finished {
				continue
			}
			inst++
			for name, content := range files {
				got, ok := p.installed[name]
				if !ok && len(content) > 0 {
					return fmt.Errorf("part %d was installed without file %s (%d bytes at the sender); client success=%v err=%v; faults applied %v", id, name, len(content), success, serr, applied)
				}
				if !bytes.Equal(got, content) {
					return fmt.Errorf("part %d was installed with file %s of %d bytes differing from the sender's %d bytes (first difference at %d); chunk size %d, on disk=%v; client success=%v err=%v; faults applied %v",
						id, name, len(got), len(content), firstDiff(got, content), c.ChunkSize, c.OnDisk, success, serr, applied)
				}
			}
			for name := range p.installed {
				if _, ok := files[name]; !ok {
					return fmt.Errorf("part %d was installed with an unknown file %s", id, name)
				}
			}
		}
		if inst > 1 {
			return fmt.Errorf("part %d was installed %d times in one transfer", id, inst)
		}
		if inst == 0 {
			installedAll = false
		}
	}
	if len(applied) == 0 {
		if !success {
			return fmt.Errorf("fault-free transfer failed: err=%v result=%+v", serr, res)
		}
		if !installedAll {
			return fmt.Errorf("fault-free transfer reported success but not every part was installed")
		}
	} else if success && !installedAll {
		return fmt.Errorf("the sender was told the transfer succeeded (it will drop the parts) but the receiver did not install every part; faults applied %v", applied)
	}
	x.LabelIf(success, "client success")
	x.LabelIf(!success, "client failure")
	x.LabelIf(c.OnDisk, "on-disk readers")
	x.LabelIf(total > int(c.ChunkSize)*3, ">3 chunks")
	if total > int(c.ChunkSize)*3 && (len(applied) > 0 || c.OnDisk) {
		x.NonTrivial()
	}
	return nil
}

func firstDiff(a, b []byte) int {
	n := min(len(a), len(b))
	for i := 0; i < n; i++ {
		if a[i] != b[i] {
			return i
		}
	}
	return n
}

func genC17(t *rapid.T, withFaults bool) c17Case {
	c := c17Case{ChunkSize: uint32(rapid.SampledFrom([]int{512, 1024, 4096, 16384, 65536}).Draw(t, "chunk")), OnDisk: rapid.Bool().Draw(t, "disk")}
	np := rapid.IntRange(1, 3).Draw(t, "parts")
	total := 0
	for p := 0; p < np; p++ {
		var files []c17File
		for f := 0; f < rapid.IntRange(1, 5).Draw(t, "files"); f++ {
			size := 0
			switch rapid.IntRange(0, 5).Draw(t, "sizeclass") {
			case 0:
				size = rapid.IntRange(0, 64).Draw(t, "tiny")
			case 1: // around the chunk size
				size = int(c.ChunkSize) + rapid.IntRange(-2, 2).Draw(t, "d")
			case 2: // around the 4 KiB sequential-read buffer
				size = 4096*rapid.IntRange(1, 3).Draw(t, "k") + rapid.IntRange(-1, 1).Draw(t, "d4")
			default:
				size = rapid.IntRange(1, 60000).Draw(t, "size")
			}
			if size < 0 {
				size = 0
			}
			total += size
			files = append(files, c17File{Name: fmt.Sprintf("p%d-f%d.bin", p, f), Size: size, Seed: byte(rapid.IntRange(0, 255).Draw(t, "seed"))})
		}
		// a real part always carries data: guarantee one non-empty file per part
		nonEmpty := false
		for _, f := range files {
			if f.Size > 0 {
				nonEmpty = true
			}
		}
		if !nonEmpty {
			files[0].Size = 1 + rapid.IntRange(0, 100).Draw(t, "fill")
			total += files[0].Size
		}
		c.Parts = append(c.Parts, files)
	}
	if withFaults {
		chunks := total/int(c.ChunkSize) + 1
		for i := 0; i < rapid.IntRange(1, 2).Draw(t, "nfaults"); i++ {
			f := c17Fault{Kind: rapid.SampledFrom([]string{"flip", "flip", "dup", "replay", "truncate", "dupfirst"}).Draw(t, "fault"), At: rapid.IntRange(0, max(chunks-1, 0)).Draw(t, "at")}
			if f.Kind == "replay" || f.Kind == "dupfirst" {
				f.At = rapid.IntRange(1, max(chunks-1, 1)).Draw(t, "at2")
				f.Of = rapid.IntRange(0, f.At-1).Draw(t, "of")
			}
			c.Faults = append(c.Faults, f)
		}
	}
	return c
}

const c17Rule = "1..3 parts of 1..5 files (sizes: tiny, around the chunk size, around the 4 KiB sequential-read buffer, random up to 60 KB), chunk size in " +
	"{512..65536}, readers in memory or over files on disk (short reads), shipped by the real pub chunked-sync client to the real sub SyncPart server " +
	"through a transparent gRPC proxy; "

func TestVerifC17Transfer(t *testing.T) {
	verifkit.Run(t, verifkit.Spec[c17Case]{
		Property: "C17", Unit: "transfer",
		Rule: c17Rule + "no fault; oracle: the transfer succeeds, every part is installed exactly once and every installed file is byte-identical to the " +
			"sender's; non-trivial = more than 3 chunks with on-disk readers",
		Gen:   func(t *rapid.T, _ *verifkit.KnownSet) c17Case { return genC17(t, false) },
		Check: func(x *verifkit.Ctx, c c17Case) error { return runC17(x, c, true) },
	})
}

func TestVerifC17Faults(t *testing.T) {
	verifkit.Run(t, verifkit.Spec[c17Case]{
		Property: "C17", Unit: "transfer_faults",
		Rule: c17Rule + "the proxy applies 1..2 generated faults to the chunk stream: bit flip in chunk i (checksum unchanged), chunk i delivered twice, an earlier " +
			"chunk (or the metadata-bearing first chunk) delivered again after chunk i, connection lost after chunk i; server in its default configuration (chunk " +
			"reordering enabled); oracle: whatever the receiver installs is byte-identical per file to the sender's content and installed at most once, and when " +
			"the sender is told 'success' every part is installed; non-trivial = a fault was applied to a transfer of more than 3 chunks",
		Known: []verifkit.Known[c17Case]{
			{Key: "sync-checksum-mismatch-skips-chunk", Match: func(c c17Case) bool { return hasFault(c, "flip") }},
			{Key: "sync-duplicate-first-chunk-installs-partial", Match: func(c c17Case) bool { return hasFault(c, "dupfirst") || hasFaultOf0(c) }},
		},
		Gen: func(t *rapid.T, ks *verifkit.KnownSet) c17Case {
			c := genC17(t, true)
			var kept []c17Fault
			for _, f := range c.Faults {
				if f.Kind == "flip" && ks.Active("sync-checksum-mismatch-skips-chunk") {
					ks.Excluded("sync-checksum-mismatch-skips-chunk")
					f.Kind = "dup"
				}
				if (f.Kind == "dupfirst" || (f.Kind == "replay" && f.Of == 0)) && ks.Active("sync-duplicate-first-chunk-installs-partial") {
					ks.Excluded("sync-duplicate-first-chunk-installs-partial")
					f.Kind, f.Of = "replay", min(1, f.At-1)
					if f.Of == 0 {
						f.Kind = "dup"
					}
				}
				kept = append(kept, f)
			}
			c.Faults = kept
			return c
		},
		Check: func(x *verifkit.Ctx, c c17Case) error { return runC17(x, c, true) },
	})
}

func hasFault(c c17Case, k string) bool {
	for _, f := range c.Faults {
		if f.Kind == k {
			return true
		}
	}
	return false
}

func hasFaultOf0(c c17Case) bool {
	for _, f := range c.Faults {
		if f.Kind == "replay" && f.Of == 0 {
			return true
		}
	}
	return false
}
