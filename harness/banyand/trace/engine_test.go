package trace

import (
	"context"
	"fmt"
	"io"
	"math"
	"os"
	"path/filepath"
	"runtime/debug"
	"sort"
	"strings"
	"sync"
	"sync/atomic"
	"testing"
	"time"

	"google.golang.org/protobuf/types/known/timestamppb"
	"pgregory.net/rapid"

	"github.com/apache/skywalking-banyandb/api/common"
	commonv1 "github.com/apache/skywalking-banyandb/api/proto/banyandb/common/v1"
	databasev1 "github.com/apache/skywalking-banyandb/api/proto/banyandb/database/v1"
	modelv1 "github.com/apache/skywalking-banyandb/api/proto/banyandb/model/v1"
	tracev1 "github.com/apache/skywalking-banyandb/api/proto/banyandb/trace/v1"
	"github.com/apache/skywalking-banyandb/banyand/internal/sidx"
	"github.com/apache/skywalking-banyandb/banyand/internal/storage"
	"github.com/apache/skywalking-banyandb/banyand/protector"
	"github.com/apache/skywalking-banyandb/pkg/bus"
	"github.com/apache/skywalking-banyandb/pkg/fs"
	"github.com/apache/skywalking-banyandb/pkg/logger"
	"github.com/apache/skywalking-banyandb/pkg/query/executor"
	"github.com/apache/skywalking-banyandb/pkg/query/logical"
	logicaltrace "github.com/apache/skywalking-banyandb/pkg/query/logical/trace"
	vtrace "github.com/apache/skywalking-banyandb/pkg/query/vectorized/trace"
	"github.com/apache/skywalking-banyandb/pkg/run"
	resourceSchema "github.com/apache/skywalking-banyandb/pkg/schema"
	"github.com/apache/skywalking-banyandb/pkg/timestamp"
	"github.com/apache/skywalking-banyandb/pkg/watcher"
	"github.com/apache/skywalking-banyandb/verifkit"
)

// Trace engine kit: the real trace engine below gRPC. Spans are written through the real write
// callback (series index, secondary sidx entries for the TREE index rule, span blocks keyed by trace
// id), storage is a real TSDB whose trace tables run without flusher/merger loops (flush and merges
// of chosen parts are harness steps, sidx included), queries go through the real planner
// (logical/trace.Analyze + Execute) with the trace as execution context, row pipeline or the
// columnar one (the engine's own vectorized switch).

var teLogOnce sync.Once

const (
	teGroup      = "verif-tg"
	teName       = "verif-tt"
	teBaseMillis = int64(1_700_000_000_000)
)

func teTS(offMs int64) int64 { return (teBaseMillis + offMs) * int64(time.Millisecond) }

type teSpan struct {
	Wide  string `json:"wide,omitempty"` // explicit trace id (wide / boundary ops)
	Big   int    `json:"big,omitempty"`  // body size in KiB
	Trace int    `json:"trace"`
	ID    int    `json:"id"`
	Svc   int    `json:"svc"`
	Dur   int64  `json:"dur"`
	T     int64  `json:"t"` // ms offset
	State int64  `json:"state"`
	// Labels: a string-array tag (nil = null); values may contain the array codec's separator and escape bytes
	Labels []string `json:"labels,omitempty"`
}

func teTraceID(n int) string { return fmt.Sprintf("trace-%03d", n) }
func teSvc(n int) string     { return fmt.Sprintf("svc-%d", n) }

func (s teSpan) traceID() string {
	if s.Wide != "" {
		return s.Wide
	}
	return teTraceID(s.Trace)
}

func (s teSpan) body() []byte {
	b := []byte(fmt.Sprintf("span-body-%d-of-%s", s.ID, s.traceID()))
	if s.Big > 0 {
		big := make([]byte, s.Big<<10)
		for i := range big {
			big[i] = byte('a' + (i+s.ID)%23)
		}
		copy(big, b)
		return big
	}
	return b
}

func teRenderBody(b []byte) string {
	if len(b) > 64 {
		return fmt.Sprintf("%s...(%d bytes)", b[:40], len(b))
	}
	return string(b)
}

func teSchema() *databasev1.Trace {
	return &databasev1.Trace{
		Metadata: &commonv1.Metadata{Name: teName, Group: teGroup},
		Tags: []*databasev1.TraceTagSpec{
			{Name: "trace_id", Type: databasev1.TagType_TAG_TYPE_STRING}, {Name: "state", Type: databasev1.TagType_TAG_TYPE_INT},
			{Name: "service_id", Type: databasev1.TagType_TAG_TYPE_STRING}, {Name: "duration", Type: databasev1.TagType_TAG_TYPE_INT},
			{Name: "span_id", Type: databasev1.TagType_TAG_TYPE_STRING}, {Name: "timestamp", Type: databasev1.TagType_TAG_TYPE_TIMESTAMP},
			{Name: "labels", Type: databasev1.TagType_TAG_TYPE_STRING_ARRAY},
		},
		TraceIdTagName: "trace_id", SpanIdTagName: "span_id", TimestampTagName: "timestamp",
	}
}

func teRules() []*databasev1.IndexRule {
	return []*databasev1.IndexRule{
		{Metadata: &commonv1.Metadata{Name: "duration", Group: teGroup, Id: 1}, Tags: []string{"service_id", "duration"}, Type: databasev1.IndexRule_TYPE_TREE},
	}
}

type teFakeRepo struct {
	resourceSchema.Repository
	t  *trace
	db io.Closer
}

type teFakeResource struct{ t *trace }

func (r teFakeResource) Schema() resourceSchema.ResourceSchema   { return r.t.schema }
func (r teFakeResource) Delegated() resourceSchema.IndexListener { return r.t }

type teFakeGroup struct{ db io.Closer }

func (g teFakeGroup) GetSchema() *commonv1.Group {
	return &commonv1.Group{Metadata: &commonv1.Metadata{Name: teGroup}}
}
func (g teFakeGroup) SupplyTSDB() io.Closer { return g.db }

func (f *teFakeRepo) LoadResource(md *commonv1.Metadata) (resourceSchema.Resource, bool) {
	if md.GetName() != teName || md.GetGroup() != teGroup {
		return nil, false
	}
	return teFakeResource{f.t}, true
}

func (f *teFakeRepo) LoadGroup(name string) (resourceSchema.Group, bool) {
	if name != teGroup {
		return nil, false
	}
	return teFakeGroup{f.db}, true
}

// teParkSIDX wraps a table's secondary index: while the environment's gate is armed, an index query parks until the gate is
// released (an ordered query that is in flight while the introducer publishes a merge).
type teParkSIDX struct {
	sidx.SIDX
	env *teEnv
}

type teGate struct {
	entered chan struct{}
	release chan struct{}
	once    sync.Once
}

func (p *teParkSIDX) park() {
	if g := p.env.gate.Load(); g != nil {
		g.once.Do(func() { close(g.entered) })
		<-g.release
	}
}

func (p *teParkSIDX) QuerySync(ctx context.Context, req sidx.QueryRequest) ([]*sidx.QueryResponse, error) {
	p.park()
	return p.SIDX.QuerySync(ctx, req)
}

func (p *teParkSIDX) StreamingQuery(ctx context.Context, req sidx.QueryRequest) (<-chan *sidx.QueryResponse, <-chan error) {
	p.park()
	return p.SIDX.StreamingQuery(ctx, req)
}

// wrapSidx replaces the tables' secondary indexes by parking wrappers (idempotent).
func (e *teEnv) wrapSidx() {
	for _, tb := range e.tablesCopy() {
		tb.tst.Lock()
		for name, s := range tb.tst.sidxMap {
			if _, ok := s.(*teParkSIDX); !ok {
				tb.tst.sidxMap[name] = &teParkSIDX{SIDX: s, env: e}
			}
		}
		tb.tst.Unlock()
	}
}

type teTable struct {
	tst     *tsTable
	flushCh chan *flusherIntroduction
	mergeCh chan *mergerIntroduction
}

type teEnv struct {
	gate   atomic.Pointer[teGate]
	dir    string
	db     storage.TSDB[*tsTable, option]
	t      *trace
	repo   *schemaRepo
	wcb    *writeCallback
	tables []*teTable
	mu     sync.Mutex
	msgID  uint64
}

func newTeEnv() (*teEnv, error) {
	teLogOnce.Do(func() { _ = logger.Init(logger.Logging{Env: "dev", Level: "error"}) })
	dir, err := os.MkdirTemp("", "verif-trace-")
	if err != nil {
		return nil, err
	}
	e := &teEnv{dir: dir}
	creator := func(fileSystem fs.FileSystem, root string, p common.Position, l *logger.Logger, _ timestamp.TimeRange, opt option, m any) (*tsTable, error) {
		tst, epoch := initTSTable(fileSystem, root, p, l, opt, m)
		tst.loopCloser = run.NewCloser(2)
		tst.mergeControl = newMergeLoopControl()
		tst.introductions = make(chan *introduction)
		tb := &teTable{tst: tst, flushCh: make(chan *flusherIntroduction), mergeCh: make(chan *mergerIntroduction)}
		tst.mergeCh = tb.mergeCh
		w := make(watcher.Channel, 1)
		go tst.introducerLoop(tb.flushCh, tb.mergeCh, w, epoch+1)
		e.mu.Lock()
		e.tables = append(e.tables, tb)
		e.mu.Unlock()
		return tst, nil
	}
	opts := storage.TSDBOpts[*tsTable, option]{
		ShardNum: 1, Location: filepath.Join(dir, "db"), TSTableCreator: creator,
		SegmentInterval: storage.IntervalRule{Unit: storage.DAY, Num: 1}, TTL: storage.IntervalRule{Unit: storage.DAY, Num: 3650},
		DisableRetention: true, DisableRotation: true, SeriesIndexFlushTimeoutSeconds: 1,
		Option: option{mergePolicy: newDefaultMergePolicyForTesting(), protector: protector.Nop{}},
	}
	db, err := storage.OpenTSDB(common.SetPosition(context.Background(), func(p common.Position) common.Position {
		p.Module, p.Database = "trace", teGroup
		return p
	}), opts, nil, teGroup)
	if err != nil {
		os.RemoveAll(dir)
		return nil, err
	}
	e.db = db
	l := logger.GetLogger("verif-trace")
	e.repo = &schemaRepo{l: l, path: dir}
	e.t = openTrace(teSchema(), l, protector.Nop{}, e.repo, vtrace.VectorizedConfig{})
	e.t.OnIndexUpdate(teRules())
	e.t.tsdb.Store(db)
	e.repo.Repository = &teFakeRepo{t: e.t, db: db}
	e.wcb = &writeCallback{l: l, schemaRepo: e.repo, maxDiskUsagePercent: 100}
	return e, nil
}

func (e *teEnv) close() {
	if e.db != nil {
		_ = e.db.Close()
	}
	os.RemoveAll(e.dir)
}

func teStrTV(s string) *modelv1.TagValue {
	return &modelv1.TagValue{Value: &modelv1.TagValue_Str{Str: &modelv1.Str{Value: s}}}
}

func teLabelsTV(l []string) *modelv1.TagValue {
	if l == nil {
		return &modelv1.TagValue{Value: &modelv1.TagValue_Null{}}
	}
	return &modelv1.TagValue{Value: &modelv1.TagValue_StrArray{StrArray: &modelv1.StrArray{Value: l}}}
}

func teIntTV(i int64) *modelv1.TagValue {
	return &modelv1.TagValue{Value: &modelv1.TagValue_Int{Int: &modelv1.Int{Value: i}}}
}

func (e *teEnv) write(batch []teSpan) {
	if len(batch) == 0 {
		return
	}
	events := make([]any, 0, len(batch))
	for i, s := range batch {
		e.msgID++
		req := &tracev1.WriteRequest{
			Tags: []*modelv1.TagValue{
				teStrTV(s.traceID()), teIntTV(s.State), teStrTV(teSvc(s.Svc)), teIntTV(s.Dur), teStrTV(fmt.Sprintf("span-%d", s.ID)),
				{Value: &modelv1.TagValue_Timestamp{Timestamp: timestamppb.New(time.Unix(0, teTS(s.T)))}},
				teLabelsTV(s.Labels),
			},
			Span: s.body(), Version: e.msgID,
		}
		if i == 0 {
			req.Metadata = &commonv1.Metadata{Name: teName, Group: teGroup}
		}
		events = append(events, &tracev1.InternalWriteRequest{ShardId: 0, Request: req})
	}
	e.wcb.Rev(context.Background(), bus.NewMessage(bus.MessageID(e.msgID), events))
}

func (e *teEnv) tablesCopy() []*teTable {
	e.mu.Lock()
	defer e.mu.Unlock()
	return append([]*teTable(nil), e.tables...)
}

func (e *teEnv) flushAll() int {
	n := 0
	for _, tb := range e.tablesCopy() {
		s := tb.tst.currentSnapshot()
		if s == nil {
			continue
		}
		k := 0
		for _, pw := range s.parts {
			if pw.mp != nil {
				k++
			}
		}
		if k > 0 {
			tb.tst.flush(s, tb.flushCh)
			n += k
		}
		s.decRef()
	}
	return n
}

func (e *teEnv) mergeFiles(pick []int) (int, error) {
	merges := 0
	for _, tb := range e.tablesCopy() {
		s := tb.tst.currentSnapshot()
		if s == nil {
			continue
		}
		var files []*partWrapper
		for _, pw := range s.parts {
			if pw.mp == nil {
				files = append(files, pw)
			}
		}
		chosen := map[uint64]*partWrapper{}
		for _, p := range pick {
			if len(files) > 0 {
				pw := files[p%len(files)]
				chosen[pw.ID()] = pw
			}
		}
		if len(chosen) < 2 {
			s.decRef()
			continue
		}
		var pws []*partWrapper
		ids := map[uint64]struct{}{}
		for id, pw := range chosen {
			pws = append(pws, pw)
			ids[id] = struct{}{}
		}
		sort.Slice(pws, func(i, j int) bool { return pws[i].ID() < pws[j].ID() })
		closeCh := make(chan struct{})
		_, err := tb.tst.mergePartsThenSendIntroduction(snapshotCreatorMerger, pws, ids, tb.mergeCh, closeCh, mergeTypeFile, mergeLaneFast, nil)
		close(closeCh)
		s.decRef()
		if err != nil {
			return merges, err
		}
		merges++
	}
	return merges, nil
}

// boundaryTrace returns the last trace id of the first primary-index granule of the part with the most
// granules ("" if no part has two). Wide trace ids are w-%05d, so the predecessor is computable.
func (e *teEnv) boundaryTrace() string {
	best, id := 0, ""
	for _, tb := range e.tablesCopy() {
		s := tb.tst.currentSnapshot()
		if s == nil {
			continue
		}
		for _, pw := range s.parts {
			if n := len(pw.p.primaryBlockMetadata); n >= 2 && n > best {
				var k int
				if _, err := fmt.Sscanf(pw.p.primaryBlockMetadata[1].traceID, "w-%05d", &k); err == nil && k > 0 {
					best, id = n, fmt.Sprintf("w-%05d", k-1)
				}
			}
		}
		s.decRef()
	}
	return id
}

// ---- queries ----

type teQuery struct {
	WideIDs  []string `json:"wide_ids,omitempty"` // explicit trace ids
	Boundary bool     `json:"boundary,omitempty"` // ask for the boundary trace of the history (resolved at run time)
	AllWide  bool     `json:"all_wide,omitempty"` // ask for every trace of the wide batches by id (resolved at run time)
	Traces   []int    `json:"traces,omitempty"`   // by trace id (eq / in)
	Svc      int      `json:"svc"`                // ordered query: entity service_id = svc-N
	Order    string   `json:"order,omitempty"`    // "" (by trace id) | duration
	Desc     bool     `json:"desc,omitempty"`
	Limit    int      `json:"limit"`
	Offset   int      `json:"offset"`
	Vec      bool     `json:"vec,omitempty"` // answer through the engine's columnar pipeline
	// Tight: a query by trace id asks for exactly the time span of the stored spans of the requested traces (resolved at run time)
	// instead of the whole history: parts that hold nothing of it may lie before and after the range, in any introduction order
	Tight    bool `json:"tight,omitempty"`
	ranged   bool
	from, to int64 // ms offsets, to exclusive
}

func (q teQuery) request() *tracev1.QueryRequest {
	req := &tracev1.QueryRequest{
		Groups: []string{teGroup}, Name: teName,
		TimeRange: &modelv1.TimeRange{Begin: timestamppb.New(time.Unix(0, teTS(0))), End: timestamppb.New(time.Unix(0, teTS(3*3600*1000)))},
		Offset:    uint32(q.Offset), Limit: uint32(q.Limit),
		TagProjection: []string{"trace_id", "span_id", "service_id", "duration", "state", "labels"},
	}
	if q.ranged {
		req.TimeRange = &modelv1.TimeRange{Begin: timestamppb.New(time.Unix(0, teTS(q.from))), End: timestamppb.New(time.Unix(0, teTS(q.to)))}
	}
	if q.Order == "duration" {
		srt := modelv1.Sort_SORT_ASC
		if q.Desc {
			srt = modelv1.Sort_SORT_DESC
		}
		req.OrderBy = &modelv1.QueryOrder{IndexRuleName: "duration", Sort: srt}
		req.Criteria = &modelv1.Criteria{Exp: &modelv1.Criteria_Condition{Condition: &modelv1.Condition{Name: "service_id", Op: modelv1.Condition_BINARY_OP_EQ, Value: teStrTV(teSvc(q.Svc))}}}
		return req
	}
	if len(q.WideIDs) > 0 {
		req.Criteria = &modelv1.Criteria{Exp: &modelv1.Criteria_Condition{Condition: &modelv1.Condition{Name: "trace_id", Op: modelv1.Condition_BINARY_OP_IN,
			Value: &modelv1.TagValue{Value: &modelv1.TagValue_StrArray{StrArray: &modelv1.StrArray{Value: q.WideIDs}}}}}}
		return req
	}
	if len(q.Traces) == 1 {
		req.Criteria = &modelv1.Criteria{Exp: &modelv1.Criteria_Condition{Condition: &modelv1.Condition{Name: "trace_id", Op: modelv1.Condition_BINARY_OP_EQ, Value: teStrTV(teTraceID(q.Traces[0]))}}}
	} else {
		var ids []string
		for _, t := range q.Traces {
			ids = append(ids, teTraceID(t))
		}
		req.Criteria = &modelv1.Criteria{Exp: &modelv1.Criteria_Condition{Condition: &modelv1.Condition{Name: "trace_id", Op: modelv1.Condition_BINARY_OP_IN,
			Value: &modelv1.TagValue{Value: &modelv1.TagValue_StrArray{StrArray: &modelv1.StrArray{Value: ids}}}}}}
	}
	return req
}

type teOutTrace struct {
	id    string
	key   int64
	spans []string // rendered spans, sorted
}

func teStack() string {
	var keep []string
	for _, l := range strings.Split(string(debug.Stack()), "\n") {
		if strings.Contains(l, "skywalking-banyandb/") && !strings.Contains(l, "zz_verif") {
			keep = append(keep, strings.TrimSpace(l))
		}
		if len(keep) >= 12 {
			break
		}
	}
	return strings.Join(keep, "\n")
}

func (e *teEnv) query(q teQuery) (out []teOutTrace, err error) {
	defer func() {
		if r := recover(); r != nil {
			err = fmt.Errorf("panic: %v\n%s", r, teStack())
		}
	}()
	if q.Vec {
		e.t.vectorized = vtrace.DefaultConfig()
	} else {
		e.t.vectorized = vtrace.VectorizedConfig{}
	}
	defer func() { e.t.vectorized = vtrace.VectorizedConfig{} }()
	md := &commonv1.Metadata{Name: teName, Group: teGroup}
	sch, err := logicaltrace.BuildSchema(e.t.GetSchema(), e.t.GetIndexRules())
	if err != nil {
		return nil, err
	}
	plan, err := logicaltrace.Analyze(q.request(), []*commonv1.Metadata{md}, []logical.Schema{sch}, []executor.TraceExecutionContext{e.t},
		[]string{"trace_id"}, []string{"span_id"}, []string{"timestamp"})
	if err != nil {
		return nil, fmt.Errorf("analyze: %w", err)
	}
	te := plan.(executor.TraceExecutable)
	defer te.Close()
	it, err := te.Execute(context.Background())
	if err != nil {
		return nil, fmt.Errorf("execute: %w", err)
	}
	for {
		r, ok := it.Next()
		if !ok {
			break
		}
		if r.Error != nil {
			return nil, fmt.Errorf("result: %w", r.Error)
		}
		if r.TID == "" {
			continue
		}
		o := teOutTrace{id: r.TID, key: r.Key}
		for i, body := range r.Spans {
			var tags []string
			for _, tg := range r.Tags {
				if i < len(tg.Values) {
					switch v := tg.Values[i].GetValue().(type) {
					case *modelv1.TagValue_Str:
						tags = append(tags, tg.Name+"="+v.Str.GetValue())
					case *modelv1.TagValue_Int:
						tags = append(tags, fmt.Sprintf("%s=%d", tg.Name, v.Int.GetValue()))
					case *modelv1.TagValue_StrArray:
						tags = append(tags, fmt.Sprintf("%s=%q", tg.Name, v.StrArray.GetValue()))
					default:
						tags = append(tags, tg.Name+"=null")
					}
				}
			}
			sort.Strings(tags)
			o.spans = append(o.spans, fmt.Sprintf("%s|%s|%s", r.SpanIDs[i], teRenderBody(body), strings.Join(tags, ",")))
		}
		sort.Strings(o.spans)
		out = append(out, o)
	}
	return out, nil
}

func (s teSpan) rendered() string {
	labels := "labels=null"
	if s.Labels != nil {
		labels = fmt.Sprintf("labels=%q", s.Labels)
	}
	return fmt.Sprintf("span-%d|%s|duration=%d,%s,service_id=%s,state=%d", s.ID, teRenderBody(s.body()), s.Dur, labels, teSvc(s.Svc), s.State)
}

// ---- case and check ----

type teOp struct {
	Kind   string   `json:"kind"` // write | wide | boundarybig | flush | merge | query | racequery (query in flight while Pick is merged)
	WideN  int      `json:"wide_n,omitempty"`
	BigKiB int      `json:"big_kib,omitempty"`
	Spans  []teSpan `json:"spans,omitempty"`
	Pick   []int    `json:"pick,omitempty"`
	Query  *teQuery `json:"query,omitempty"`
}

type teCase struct {
	Ops []teOp `json:"ops"`
}

type teStats struct {
	flushes, merges    int
	byID, ordered      int
	multiPart, vecUsed bool
	boundary           bool
	allWide            bool
	raced, raceBlocked bool
	cut                bool
	tight              bool
	pruned             bool // a part selection by time bounds left out a part that matches by trace id
}

func runTraceEngine(x *verifkit.Ctx, c teCase) (teStats, error) {
	var st teStats
	e, err := newTeEnv()
	if err != nil {
		return st, err
	}
	defer e.close()
	boundary := ""
	written := map[string][]teSpan{} // trace id -> spans
	batchesOf := map[string]map[int]bool{}
	for i, op := range c.Ops {
		what := fmt.Sprintf("op %d (%s)", i, op.Kind)
		if op.Kind == "boundarybig" {
			// a trace larger than one block placed on a primary-index granule boundary of a wide part: the last
			// trace of the first granule of the widest part receives three spans of > 1 MiB (two blocks: a block is cut
			// once it holds >= 2 MiB), the parts are merged
			target := e.boundaryTrace()
			if target == "" {
				continue
			}
			boundary = target
			op = teOp{Kind: "write"}
			for k := 0; k < 3; k++ {
				op.Spans = append(op.Spans, teSpan{Wide: target, ID: 9000000 + i*10 + k, Svc: 0, Dur: 1, T: int64(k), Big: c.Ops[i].BigKiB})
			}
			st.boundary = true
		}
		if op.Kind == "wide" {
			op = teOp{Kind: "write"}
			for k := 0; k < c.Ops[i].WideN; k++ {
				op.Spans = append(op.Spans, teSpan{Wide: fmt.Sprintf("w-%05d", k), ID: 5000000 + k, Svc: 0, Dur: 1, T: int64(k % 100)})
			}
		}
		if op.Query != nil && op.Query.AllWide {
			q := *op.Query
			for id := range written {
				if strings.HasPrefix(id, "w-") {
					q.WideIDs = append(q.WideIDs, id)
				}
			}
			if len(q.WideIDs) == 0 {
				continue
			}
			sort.Strings(q.WideIDs)
			q.Limit = len(q.WideIDs)
			op.Query = &q
			st.allWide = true
		}
		if op.Query != nil && op.Query.Boundary {
			if boundary == "" {
				continue
			}
			q := *op.Query
			q.WideIDs = []string{boundary}
			op.Query = &q
		}
		switch op.Kind {
		case "write":
			e.write(op.Spans)
			for _, s := range op.Spans {
				id := s.traceID()
				written[id] = append(written[id], s)
				if batchesOf[id] == nil {
					batchesOf[id] = map[int]bool{}
				}
				batchesOf[id][i] = true
			}
		case "flush":
			if e.flushAll() > 0 {
				st.flushes++
			}
		case "merge":
			n, merr := e.mergeFiles(op.Pick)
			if merr != nil {
				return st, fmt.Errorf("%s: merge failed: %v", what, merr)
			}
			if n > 0 {
				st.merges++
			}
		case "racequery", "query":
			q := *op.Query
			if q.Tight && q.Order == "" {
				first := true
				note := func(id string) {
					for _, sp := range written[id] {
						if first || sp.T < q.from {
							q.from = sp.T
						}
						if first || sp.T+1 > q.to {
							q.to = sp.T + 1
						}
						first = false
					}
				}
				for _, tr := range q.Traces {
					note(teTraceID(tr))
				}
				for _, id := range q.WideIDs {
					note(id)
				}
				q.ranged = !first
				st.tight = st.tight || q.ranged
				if q.ranged {
					// part selection by time bounds and trace-id filter (snapshot.getParts, the selection of the native per-trace read path):
					// what it selects for the range must be what it selects for all time, restricted to the parts whose bounds overlap the range
					var ids []string
					for _, tr := range q.Traces {
						ids = append(ids, teTraceID(tr))
					}
					ids = append(ids, q.WideIDs...)
					lo, hi := teTS(q.from), teTS(q.to)-1
					for _, tb := range e.tablesCopy() {
						snp := tb.tst.currentSnapshot()
						if snp == nil {
							continue
						}
						got, _ := snp.getParts(nil, lo, hi, ids)
						all, _ := snp.getParts(nil, math.MinInt64, math.MaxInt64, ids)
						sel := map[uint64]bool{}
						for _, p := range got {
							sel[p.partMetadata.ID] = true
						}
						var perr error
						for _, p := range all {
							overlaps := !(hi < p.partMetadata.MinTimestamp || lo > p.partMetadata.MaxTimestamp)
							if overlaps && !sel[p.partMetadata.ID] {
								perr = fmt.Errorf("%s: part selection for traces %v in [%d,%d] leaves out part %d with time bounds [%d,%d], which it selects for the same traces over all time (%d of %d parts selected; parts are kept in introduction order, not in time order)",
									what, ids, lo, hi, p.partMetadata.ID, p.partMetadata.MinTimestamp, p.partMetadata.MaxTimestamp, len(got), len(all))
							}
							if !overlaps && sel[p.partMetadata.ID] {
								perr = fmt.Errorf("%s: part selection for [%d,%d] includes part %d with bounds [%d,%d]", what, lo, hi, p.partMetadata.ID, p.partMetadata.MinTimestamp, p.partMetadata.MaxTimestamp)
							}
						}
						snp.decRef()
						if perr != nil {
							return st, perr
						}
						if len(all) >= 2 && len(got) < len(all) {
							st.pruned = true
						}
					}
				}
			}
			var res []teOutTrace
			var qerr error
			if op.Kind == "racequery" {
				// the query is in flight (parked inside its secondary-index lookup) while a merge of the picked parts is computed and
				// handed to the introducer; then it resumes
				e.wrapSidx()
				g := &teGate{entered: make(chan struct{}), release: make(chan struct{})}
				e.gate.Store(g)
				type qres struct {
					out []teOutTrace
					err error
				}
				qch := make(chan qres, 1)
				go func() {
					out, err := e.query(q)
					qch <- qres{out, err}
				}()
				var early *qres
				select {
				case <-g.entered:
				case r := <-qch:
					early = &r // the query needed no index lookup
				case <-time.After(10 * time.Second):
				}
				mch := make(chan error, 1)
				go func() {
					_, merr := e.mergeFiles(op.Pick)
					mch <- merr
				}()
				select {
				case merr := <-mch:
					mch <- merr
				case <-time.After(40 * time.Millisecond):
					st.raceBlocked = true // the publication waits for the query in flight
				}
				e.gate.Store(nil)
				close(g.release)
				if early != nil {
					res, qerr = early.out, early.err
				} else {
					select {
					case r := <-qch:
						res, qerr = r.out, r.err
					case <-time.After(30 * time.Second):
						return st, fmt.Errorf("%s: the query in flight did not finish within 30 s after it was released", what)
					}
				}
				select {
				case merr := <-mch:
					if merr != nil {
						return st, fmt.Errorf("%s: merge failed: %v", what, merr)
					}
				case <-time.After(30 * time.Second):
					return st, fmt.Errorf("%s: the merge publication did not finish within 30 s after the query was released", what)
				}
				st.merges++
				st.raced = true
			} else {
				res, qerr = e.query(q)
			}
			if qerr != nil {
				return st, fmt.Errorf("%s: query %+v failed: %v", what, q, qerr)
			}
			st.vecUsed = st.vecUsed || q.Vec
			check := func(o teOutTrace) error {
				spans, ok := written[o.id]
				if !ok {
					return fmt.Errorf("%s: returned trace %s was never written", what, o.id)
				}
				var want []string
				for _, s := range spans {
					want = append(want, s.rendered())
				}
				sort.Strings(want)
				if strings.Join(want, "\n") != strings.Join(o.spans, "\n") {
					return fmt.Errorf("%s: trace %s: %d spans were written, %d returned (query %+v)\nwritten:  %v\nreturned: %v", what, o.id, len(want), len(o.spans), q, want, o.spans)
				}
				return nil
			}
			seen := map[string]bool{}
			for _, o := range res {
				if seen[o.id] {
					return st, fmt.Errorf("%s: trace %s returned twice (query %+v)", what, o.id, q)
				}
				seen[o.id] = true
				if cerr := check(o); cerr != nil {
					return st, cerr
				}
				if len(batchesOf[o.id]) >= 2 {
					st.multiPart = true
				}
			}
			if q.Order == "" {
				st.byID++
				want := map[string]bool{}
				for _, t := range q.Traces {
					if _, ok := written[teTraceID(t)]; ok {
						want[teTraceID(t)] = true
					}
				}
				for _, id := range q.WideIDs {
					if _, ok := written[id]; ok {
						want[id] = true
					}
				}
				wantN := len(want)
				if q.Limit < wantN {
					wantN = q.Limit
					st.cut = true
				}
				if len(res) != wantN {
					return st, fmt.Errorf("%s: query by trace id %v limit %d: %d stored traces match, %d returned", what, q.Traces, q.Limit, len(want), len(res))
				}
				for _, o := range res {
					if !want[o.id] {
						return st, fmt.Errorf("%s: query by trace id %v returned trace %s", what, q.Traces, o.id)
					}
				}
			} else {
				st.ordered++
				// the traces of the service, keyed by the index: every (trace, duration) entry of the service is an
				// element of the ordered index; a trace appears once, at its first position in the order
				type ent struct {
					id  string
					dur int64
				}
				var ents []ent
				for id, spans := range written {
					for _, s := range spans {
						if s.Svc == q.Svc {
							ents = append(ents, ent{id, s.Dur})
						}
					}
				}
				sort.SliceStable(ents, func(a, b int) bool {
					if q.Desc {
						return ents[a].dur > ents[b].dur
					}
					return ents[a].dur < ents[b].dur
				})
				first := map[string]int64{}
				var distinct []string
				for _, en := range ents {
					if _, ok := first[en.id]; !ok {
						first[en.id] = en.dur
						distinct = append(distinct, en.id)
					}
				}
				wantN := len(distinct) - q.Offset
				if wantN < 0 {
					wantN = 0
				}
				if wantN > q.Limit {
					wantN = q.Limit
					st.cut = true
				}
				if len(res) != wantN {
					return st, fmt.Errorf("%s: ordered query %+v: %d traces of the service, offset %d limit %d must return %d, got %d", what, q, len(distinct), q.Offset, q.Limit, wantN, len(res))
				}
				// The order of the window is C09's subject and, for the secondary index with a batch budget, a listed
				// finding there (sidx-sync-topn-not-prefix): here only membership is required.
				for _, o := range res {
					if _, ok := first[o.id]; !ok {
						return st, fmt.Errorf("%s: ordered query %+v returned trace %s which has no span of the service", what, q, o.id)
					}
				}
			}
		}
	}
	return st, nil
}

func genTeCase(t *rapid.T, _ *verifkit.KnownSet) teCase {
	var c teCase
	id := 0
	// the sort key of a trace inside a service is one value (all its spans of that service carry the same
	// duration): with different keys per span the position of a trace in an ordered result is not defined
	durOf := map[[2]int]int64{}
	nb := rapid.IntRange(1, 5).Draw(t, "batches")
	for b := 0; b < nb; b++ {
		n := rapid.IntRange(1, 15).Draw(t, "n")
		var spans []teSpan
		for i := 0; i < n; i++ {
			id++
			tr := rapid.IntRange(0, 7).Draw(t, "trace")
			svc := rapid.IntRange(0, 2).Draw(t, "svc")
			if _, ok := durOf[[2]int{tr, svc}]; !ok {
				durOf[[2]int{tr, svc}] = int64(rapid.IntRange(0, 50).Draw(t, "dur"))
			}
			sp := teSpan{Trace: tr, ID: id, Svc: svc, Dur: durOf[[2]int{tr, svc}],
				T: int64(rapid.IntRange(0, 5000).Draw(t, "t")), State: int64(rapid.IntRange(0, 1).Draw(t, "state"))}
			// few distinct arrays, repeated inside a trace (a dictionary-encoded column), elements with the codec's special bytes
			sp.Labels = rapid.SampledFrom([][]string{nil, {"a"}, {"a|b", "c"}, {"a|b", "c"}, {"x\\y"}, {"p", "q", "r"}}).Draw(t, "labels")
			spans = append(spans, sp)
		}
		c.Ops = append(c.Ops, teOp{Kind: "write", Spans: spans})
		switch rapid.IntRange(0, 4).Draw(t, "maint") {
		case 0, 1:
			c.Ops = append(c.Ops, teOp{Kind: "flush"})
		case 2:
			c.Ops = append(c.Ops, teOp{Kind: "flush"}, teOp{Kind: "merge", Pick: rapid.SliceOfN(rapid.IntRange(0, 5), 2, 4).Draw(t, "pick")})
		}
		if rapid.IntRange(0, 2).Draw(t, "q") == 0 {
			c.Ops = append(c.Ops, teOp{Kind: "query", Query: genTeQuery(t)})
		}
	}
	if rapid.IntRange(0, 14).Draw(t, "boundary") == 0 {
		// everything flushed so far and the wide batch are merged into one part first, so that the granule
		// boundary read from it is the one the final merge reproduces
		// every trace of the wide batch is looked up by id while the batch is a memory part, after the flush and after the merge
		// (a part with several primary-index granules: every granule boundary is crossed)
		allWide := teOp{Kind: "query", Query: &teQuery{AllWide: true}}
		c.Ops = append(c.Ops, teOp{Kind: "wide", WideN: rapid.IntRange(5500, 7000).Draw(t, "widen")}, allWide, teOp{Kind: "flush"}, allWide,
			teOp{Kind: "merge", Pick: []int{0, 1, 2, 3, 4, 5, 6, 7}}, allWide,
			teOp{Kind: "boundarybig", BigKiB: rapid.IntRange(1050, 1200).Draw(t, "bigkib")}, teOp{Kind: "flush"},
			teOp{Kind: "merge", Pick: []int{0, 1, 2, 3, 4, 5, 6, 7}},
			teOp{Kind: "query", Query: &teQuery{Boundary: true, Limit: 5, Vec: rapid.Bool().Draw(t, "bvec")}})
	}
	if rapid.IntRange(0, 2).Draw(t, "race") == 0 {
		// at least two file parts, then a query that is in flight while they are merged
		c.Ops = append(c.Ops, teOp{Kind: "flush"})
		id++
		rtr := rapid.IntRange(0, 7).Draw(t, "rtrace")
		if _, ok := durOf[[2]int{rtr, 0}]; !ok {
			durOf[[2]int{rtr, 0}] = int64(rapid.IntRange(0, 50).Draw(t, "rdur"))
		}
		c.Ops = append(c.Ops, teOp{Kind: "write", Spans: []teSpan{{Trace: rtr, ID: 800000 + id, Svc: 0, Dur: durOf[[2]int{rtr, 0}], T: 1}}}, teOp{Kind: "flush"})
		rq := genTeQuery(t)
		rq.Vec = rapid.IntRange(0, 3).Draw(t, "rvec") > 0
		c.Ops = append(c.Ops, teOp{Kind: "racequery", Query: rq, Pick: []int{0, 1, 2, 3, 4, 5, 6, 7}})
	}
	nq := rapid.IntRange(1, 4).Draw(t, "queries")
	for i := 0; i < nq; i++ {
		c.Ops = append(c.Ops, teOp{Kind: "query", Query: genTeQuery(t)})
	}
	return c
}

func genTeQuery(t *rapid.T) *teQuery {
	q := &teQuery{Limit: rapid.SampledFrom([]int{1, 2, 5, 20, 100}).Draw(t, "limit"), Vec: rapid.IntRange(0, 2).Draw(t, "vec") == 0}
	if rapid.IntRange(0, 2).Draw(t, "ordered") == 0 {
		q.Order = "duration"
		q.Svc = rapid.IntRange(0, 3).Draw(t, "qsvc")
		q.Desc = rapid.Bool().Draw(t, "desc")
		q.Offset = rapid.SampledFrom([]int{0, 0, 1, 3}).Draw(t, "offset")
		return q
	}
	n := rapid.IntRange(1, 4).Draw(t, "ntr")
	seen := map[int]bool{}
	for i := 0; i < n; i++ {
		tr := rapid.IntRange(0, 9).Draw(t, "qtrace")
		if !seen[tr] {
			seen[tr] = true
			q.Traces = append(q.Traces, tr)
		}
	}
	q.Tight = rapid.Bool().Draw(t, "tight")
	if q.Limit < len(q.Traces) {
		// the engine cuts the list of requested ids to the limit before it looks them up, so an id that is
		// not stored uses up a slot; the property does not say how a limit applies to an id list
		q.Limit = len(q.Traces)
	}
	return q
}

const teRule = "(in a third of the histories additionally a query in flight while a merge is published) 1..5 write batches of 1..15 spans (8 traces, 3 services, unique span ids, one duration 0..50 per trace and service, arbitrary arrival order, spans of a trace " +
	"spread over batches) through the real trace write callback into a real TSDB (series index, sidx entries of the TREE rule [service_id, duration], " +
	"span blocks), flush and merges of chosen parts (sidx included) in between; queries through the real planner by trace id (eq / in, limit; over the whole history or - half of them - over exactly the time span of the requested traces' stored spans) or " +
	"ordered by the index rule for one service (asc/desc, limit/offset), through the row pipeline or the engine's columnar pipeline"

func teLabels(x *verifkit.Ctx, st teStats) {
	x.LabelIf(st.tight, "query by id over exactly the time span of the requested traces")
	x.LabelIf(st.pruned, "time bounds pruned a part that the trace-id filter admits")
	x.LabelIf(st.allWide, "every trace of a part with several primary-index granules looked up")
	x.LabelIf(st.raced, "query in flight during a merge publication")
	x.LabelIf(st.raceBlocked, "publication waited for the query in flight")
	x.LabelIf(st.flushes > 0, "flush")
	x.LabelIf(st.merges > 0, "merge")
	x.LabelIf(st.byID > 0, "query by trace id")
	x.LabelIf(st.ordered > 0, "query ordered by the index rule")
	x.LabelIf(st.multiPart, "returned trace spread over several batches")
	x.LabelIf(st.vecUsed, "columnar pipeline")
	x.LabelIf(st.cut, "limit/offset cuts the result")
	x.LabelIf(st.boundary, "large trace on a primary-index granule boundary")
}

func traceEngineSpec(pid, unit, extra string, nontrivial func(teStats) bool, minFrac map[string]float64) verifkit.Spec[teCase] {
	return verifkit.Spec[teCase]{
		Property: pid, Unit: unit, CrashReplay: true,
		Rule: teRule + "; oracle: every returned trace carries exactly the spans written for it (ids, bodies, projected tags), no trace twice, a query " +
			"by id returns exactly the stored traces asked for (up to the limit), an ordered query returns min(limit, traces of the service - offset) " +
			"distinct traces of the service (their order is C09's subject); " + extra,
		Gen: genTeCase,
		Check: func(x *verifkit.Ctx, c teCase) error {
			st, err := runTraceEngine(x, c)
			if err != nil {
				return err
			}
			teLabels(x, st)
			if nontrivial(st) {
				x.NonTrivial()
			}
			return nil
		},
		MinLabelFrac: minFrac,
	}
}

func TestVerifTraceEngineC13(t *testing.T) {
	verifkit.Run(t, traceEngineSpec("C13", "trace_engine", "non-trivial = a trace whose spans arrived in >= 2 batches was returned after a flush",
		func(st teStats) bool { return st.multiPart && st.flushes > 0 },
		map[string]float64{"returned trace spread over several batches": 0.4, "flush": 0.5, "query by trace id": 0.5}))
}

// C08 (trace pruning): part selection by time bounds and by the trace-id filter must never discard a part that holds a span of a requested trace.
func TestVerifTraceEngineC08(t *testing.T) {
	verifkit.Run(t, traceEngineSpec("C08", "trace_pruning", "the part-level pruning (time bounds, trace-id filter) and the primary-index lookup are what decides which parts a query by id reads; "+
		"non-trivial = a query by id over exactly the time span of the requested traces after a flush",
		func(st teStats) bool { return st.tight && st.flushes > 0 },
		map[string]float64{"query by id over exactly the time span of the requested traces": 0.3, "flush": 0.5}))
}

func TestVerifTraceEngineC15(t *testing.T) {
	verifkit.Run(t, traceEngineSpec("C15", "trace_engine_vec", "both pipelines are held to the same absolute oracle, so a difference between them is a violation of one of them; "+
		"non-trivial = a query answered by the columnar pipeline after a flush",
		func(st teStats) bool { return st.vecUsed && st.flushes > 0 },
		map[string]float64{"columnar pipeline": 0.5, "flush": 0.5}))
}

func TestVerifTraceEngineC01(t *testing.T) {
	verifkit.Run(t, traceEngineSpec("C01", "trace_l1", "non-trivial = a trace returned after a flush",
		func(st teStats) bool { return st.flushes > 0 && st.byID > 0 }, map[string]float64{"flush": 0.5, "query by trace id": 0.5}))
}

func TestVerifTraceEngineC03(t *testing.T) {
	verifkit.Run(t, traceEngineSpec("C03", "trace_l1", "non-trivial = a trace returned after a merge",
		func(st teStats) bool { return st.merges > 0 && st.byID > 0 }, map[string]float64{"merge": 0.1, "flush": 0.5}))
}

func TestVerifTraceEngineC05(t *testing.T) {
	verifkit.Run(t, traceEngineSpec("C05", "trace_engine_race", "in a third of the histories a query (ordered or by id, row or columnar pipeline) is parked inside its "+
		"secondary-index lookup while the file parts are merged and the merge is handed to the introducer, then resumes: it must still return exactly what the "+
		"absolute oracle says (neither the merged part and its inputs, nor neither of them); non-trivial = such a query in flight",
		func(st teStats) bool { return st.raced },
		map[string]float64{"query in flight during a merge publication": 0.2}))
}
