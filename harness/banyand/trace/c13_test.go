package trace

import (
	"context"
	"fmt"
	"os"
	"sort"
	"strings"
	"testing"
	"time"

	"pgregory.net/rapid"

	"github.com/apache/skywalking-banyandb/banyand/internal/sidx"
	"github.com/apache/skywalking-banyandb/banyand/protector"
	"github.com/apache/skywalking-banyandb/pkg/convert"
	"github.com/apache/skywalking-banyandb/pkg/fs"
	"github.com/apache/skywalking-banyandb/pkg/logger"
	pbv1 "github.com/apache/skywalking-banyandb/pkg/pb/v1"
	"github.com/apache/skywalking-banyandb/pkg/pipeline/sdk"
	"github.com/apache/skywalking-banyandb/pkg/run"
	"github.com/apache/skywalking-banyandb/pkg/timestamp"
	"github.com/apache/skywalking-banyandb/verifkit"
)

// C13 (merge half): a real trace merge (mergePartsThenSendIntroduction -> mergeParts -> mergeBlocks,
// real fragment guard over the table's snapshot) of any subset of the parts of a table, with or
// without a merge-time sampler:
//   - without an active sampler, or when the sampler errors / panics / answers with the wrong size,
//     the output part holds exactly the spans of the merged parts;
//   - with a sampler, every trace is in the output with all of its spans of the merged parts or with
//     none of them, only traces the sampler voted to drop are removed, and a trace with a fragment in
//     a part outside the merge is never removed;
//   - the keep predicate handed to the secondary-index merge accepts exactly the trace ids of the output.

type tSpan struct {
	Trace int   `json:"trace"`
	ID    int   `json:"id"`
	T     int64 `json:"t"`
	Err   bool  `json:"err,omitempty"`
	Big   int   `json:"big,omitempty"` // body size in KiB (0: a few bytes)
}

type tCase struct {
	Parts      [][]tSpan `json:"parts"`
	Merge      []int     `json:"merge"`
	Sampler    string    `json:"sampler"` // none | ids | no-error-tail | short | error | panic | wrongsize
	Drop       []int     `json:"drop"`
	MinSpans   int       `json:"min_spans"`
	Proj       int       `json:"proj"` // 0 none, 1 tags, 2 span ids, 3 spans
	ForceSlow  bool      `json:"force_slow"`
	MaxTraces  int       `json:"max_traces"`  // Decide batch trace-count cap (0: production default)
	BatchLimit int       `json:"batch_limit"` // Decide batch byte budget in KiB (0: production plan)
	// Late: a part that enters the table's snapshot WHILE the merge runs (a part shipped by a liaison whose id was
	// reserved when the transfer was opened): it is introduced during the first Decide call. LateLow: its id is lower
	// than the ids of the base snapshot's parts (reserved before them), otherwise higher.
	Late    []tSpan `json:"late,omitempty"`
	LateLow bool    `json:"late_low,omitempty"`
}

// c13Grace is the enforced maximum gap between fragments of one trace (merge grace): the guard may
// assume that a part whose time bounds are farther away holds no fragment of the trace, so the
// generator keeps all spans of a trace inside one window of that width.
const c13Grace = 100 * time.Nanosecond

func traceName(n int) string { return fmt.Sprintf("trace-%03d", n) }

func (s tSpan) body() []byte {
	b := []byte(fmt.Sprintf("body-%d-of-%s", s.ID, traceName(s.Trace)))
	if s.Big > 0 {
		big := make([]byte, s.Big<<10)
		for i := range big {
			big[i] = byte('a' + (i+s.ID)%23)
		}
		copy(big, b)
		return big
	}
	return b
}

func (s tSpan) key() string {
	st := "ok"
	if s.Err {
		st = "err"
	}
	return fmt.Sprintf("%s/span-%d/%d/%s/%dKiB", traceName(s.Trace), s.ID, s.T, st, s.Big)
}

// c13Sampler decides from what it is shown, like a content-based tail sampler.
type c13Sampler struct {
	c       tCase
	shown   map[string]int // trace id -> number of Decide calls that contained it
	proj    sdk.Projection
	onFirst func() // runs once, inside the first Decide call (= while the merge runs)
}

func (f *c13Sampler) Kind() sdk.Kind          { return sdk.KindSampler }
func (f *c13Sampler) Project() sdk.Projection { return f.proj }
func (f *c13Sampler) Close() error            { return nil }

func (f *c13Sampler) Decide(batch *sdk.TraceBatch) (sdk.Verdict, error) {
	if f.onFirst != nil {
		f.onFirst()
		f.onFirst = nil
	}
	switch f.c.Sampler {
	case "panic":
		panic("sampler panics")
	case "error":
		return sdk.Verdict{}, fmt.Errorf("sampler error")
	case "wrongsize":
		return sdk.Verdict{Keep: make([]bool, len(batch.Traces)+1)}, nil
	}
	keep := make([]bool, len(batch.Traces))
	for i := range batch.Traces {
		tb := &batch.Traces[i]
		f.shown[tb.TraceID]++
		keep[i] = true
		switch f.c.Sampler {
		case "ids":
			for _, d := range f.c.Drop {
				if traceName(d) == tb.TraceID {
					keep[i] = false
				}
			}
		case "no-error-tail": // drop unless some span carries status=err
			keep[i] = false
			for _, col := range tb.Tags {
				if col.Name != "status" {
					continue
				}
				for r := range col.Values {
					if string(col.Values[r]) == "err" {
						keep[i] = true
					}
				}
			}
		case "short": // drop traces shorter than MinSpans rows
			keep[i] = tb.Len() >= f.c.MinSpans
		}
	}
	return sdk.Verdict{Keep: keep}, nil
}

// wouldDrop is the sampler's verdict on a whole trace restricted to the merged parts.
func (c tCase) wouldDrop(spans []tSpan) bool {
	switch c.Sampler {
	case "ids":
		for _, d := range c.Drop {
			if d == spans[0].Trace {
				return true
			}
		}
		return false
	case "no-error-tail":
		for _, s := range spans {
			if s.Err {
				return false
			}
		}
		return true
	case "short":
		return len(spans) < c.MinSpans
	}
	return false
}

type c13SIDX struct {
	sidx.SIDX
	elements []string
	accepted map[string]bool
	called   bool
}

func (f *c13SIDX) Merge(_ <-chan struct{}, _ map[uint64]struct{}, _ uint64, keepFn func([]byte) bool) (*sidx.MergerIntroduction, error) {
	f.called = true
	f.accepted = map[string]bool{}
	for _, elem := range f.elements {
		encoded := append([]byte{byte(idFormatV1)}, elem...)
		f.accepted[elem] = keepFn == nil || keepFn(encoded)
	}
	return nil, nil
}

func readPartSpans(pw *partWrapper) (map[string][]string, error) {
	iter := generatePartMergeIter()
	iter.mustInitFromPart(pw.p)
	reader := generateBlockReader()
	reader.init([]*partMergeIter{iter})
	decoder := generateColumnValuesDecoder()
	defer releaseColumnValuesDecoder(decoder)
	out := map[string][]string{}
	for reader.nextBlockMetadata() {
		reader.loadBlockData(decoder)
		b := &reader.block.block
		id := reader.block.bm.traceID
		for r := range b.spans {
			status := "?"
			for ti := range b.tags {
				if b.tags[ti].name == "status" && r < len(b.tags[ti].values) {
					status = string(b.tags[ti].values[r])
				}
			}
			big := 0
			if len(b.spans[r]) >= 1024 {
				big = len(b.spans[r]) >> 10
			}
			body := string(b.spans[r])
			if big > 0 {
				body = body[:strings.IndexByte(body, 'e')+1] // not used for identity below
			}
			_ = body
			var n int
			_, _ = fmt.Sscanf(b.spanIDs[r], "span-%d", &n)
			want := tSpan{ID: n}
			_ = want
			out[id] = append(out[id], fmt.Sprintf("%s/%s/%s/%dKiB/%s", id, b.spanIDs[r], status, big, bodyHead(b.spans[r])))
		}
	}
	err := reader.error()
	releaseBlockReader(reader)
	releasePartMergeIter(iter)
	return out, err
}

func bodyHead(b []byte) string {
	if len(b) > 40 {
		b = b[:40]
	}
	if i := strings.IndexByte(string(b), 0); i >= 0 {
		b = b[:i]
	}
	return string(b)
}

func (s tSpan) rendered() string {
	st := "ok"
	if s.Err {
		st = "err"
	}
	return fmt.Sprintf("%s/span-%d/%s/%dKiB/%s", traceName(s.Trace), s.ID, st, s.Big, bodyHead(s.body()))
}

func c13Run(x *verifkit.Ctx, c tCase) error {
	root, err := os.MkdirTemp("", "verif-c13-")
	if err != nil {
		return err
	}
	defer os.RemoveAll(root)
	fileSystem := fs.NewLocalFileSystem()
	const partIDBase = uint64(100)
	var all []*partWrapper
	for i, spans := range c.Parts {
		tr := &traces{}
		for _, s := range spans {
			st := "ok"
			if s.Err {
				st = "err"
			}
			tr.traceIDs = append(tr.traceIDs, traceName(s.Trace))
			tr.timestamps = append(tr.timestamps, s.T)
			tr.tags = append(tr.tags, []*tagValue{{tag: "status", valueType: pbv1.ValueTypeStr, value: convert.StringToBytes(st)}})
			tr.spans = append(tr.spans, s.body())
			tr.spanIDs = append(tr.spanIDs, fmt.Sprintf("span-%d", s.ID))
		}
		partID := partIDBase + uint64(i)
		mp := generateMemPart()
		mp.mustInitFromTraces(tr)
		mp.mustFlush(fileSystem, partPath(root, partID))
		p := mustOpenFilePart(partID, root, fileSystem)
		all = append(all, newPartWrapper(nil, p))
		releaseMemPart(mp)
	}
	var late *partWrapper
	if len(c.Late) > 0 {
		tr := &traces{}
		for _, s := range c.Late {
			st := "ok"
			if s.Err {
				st = "err"
			}
			tr.traceIDs = append(tr.traceIDs, traceName(s.Trace))
			tr.timestamps = append(tr.timestamps, s.T)
			tr.tags = append(tr.tags, []*tagValue{{tag: "status", valueType: pbv1.ValueTypeStr, value: convert.StringToBytes(st)}})
			tr.spans = append(tr.spans, s.body())
			tr.spanIDs = append(tr.spanIDs, fmt.Sprintf("span-%d", s.ID))
		}
		lateID := partIDBase + 50
		if c.LateLow {
			lateID = partIDBase - 50
		}
		mp := generateMemPart()
		mp.mustInitFromTraces(tr)
		mp.mustFlush(fileSystem, partPath(root, lateID))
		late = newPartWrapper(nil, mustOpenFilePart(lateID, root, fileSystem))
		releaseMemPart(mp)
		defer late.decRef()
	}
	defer func() {
		for _, pw := range all {
			pw.decRef()
		}
	}()
	selected := make([]*partWrapper, 0, len(c.Merge))
	inMerge := map[int]bool{}
	for _, i := range c.Merge {
		selected = append(selected, all[i])
		inMerge[i] = true
	}
	// the model: spans of the merged parts per trace, and traces with a fragment outside the merge
	mergedSpans := map[string][]tSpan{}
	outside := map[string]bool{}
	for i, spans := range c.Parts {
		for _, s := range spans {
			if inMerge[i] {
				mergedSpans[traceName(s.Trace)] = append(mergedSpans[traceName(s.Trace)], s)
			} else {
				outside[traceName(s.Trace)] = true
			}
		}
	}
	var ids []string
	for id := range mergedSpans {
		ids = append(ids, id)
	}
	sort.Strings(ids)

	closer := run.NewCloser(1)
	defer closer.Done()
	sx := &c13SIDX{elements: ids}
	tst := &tsTable{
		pm: protector.Nop{}, fileSystem: fileSystem, root: root, loopCloser: closer,
		l: logger.GetLogger("verif-c13"), sidxMap: map[string]sidx.SIDX{"latency": sx},
	}
	for _, pw := range all {
		pw.incRef()
	}
	tst.segmentTimeRange = timestamp.NewSectionTimeRange(time.Unix(0, 0), time.Unix(3600, 0))
	tst.snapshot = &snapshot{parts: append([]*partWrapper(nil), all...), epoch: 1, ref: 1}
	defer func() { tst.snapshot.decRef() }()
	lateIntroduced := false
	introduceLate := func() {
		if late == nil || lateIntroduced {
			return
		}
		lateIntroduced = true
		tst.Lock()
		old := tst.snapshot
		ns := &snapshot{epoch: old.epoch + 1, ref: 1}
		for _, pw := range old.parts {
			pw.incRef()
			ns.parts = append(ns.parts, pw)
		}
		late.incRef()
		ns.parts = append(ns.parts, late)
		tst.snapshot = ns
		tst.Unlock()
		old.decRef()
	}

	var filter *mergeFilter
	var sampler *c13Sampler
	if c.Sampler != "none" {
		sampler = &c13Sampler{c: c, shown: map[string]int{}, onFirst: introduceLate}
		switch c.Proj {
		case 1:
			sampler.proj = sdk.Projection{Tags: []string{"status"}}
		case 2:
			sampler.proj = sdk.Projection{Tags: []string{"status"}, SpanIDs: true}
		case 3:
			sampler.proj = sdk.Projection{Tags: []string{"status"}, SpanIDs: true, Spans: true}
		default:
			if c.Sampler == "no-error-tail" || c.Sampler == "short" { // both read rows, so they project a row-indexed column
				sampler.proj = sdk.Projection{Tags: []string{"status"}}
			}
		}
		stagingHardLimit := resolveStageBudget(tst.option)
		plan := planAdaptiveDecisionBatch(selected, stagingHardLimit)
		guard := tst.newTraceFragmentGuardSession(selected, c13Grace, stagingHardLimit)
		if guard == nil {
			return verifkit.Failf("harness: no fragment guard session")
		}
		filter = &mergeFilter{
			chain: newMergeChain("g", "s", []sdk.Sampler{sampler}, 0), guard: guard, ctx: context.Background(), owner: tst,
			timeout: 5 * time.Second, stagingHardLimit: stagingHardLimit, decisionBatchLimit: plan.BatchLimit,
			estimatedStagingBytes: plan.EstimatedBytes, plannedStagingBatches: plan.PlannedBatches,
			traceBudget: resolveTraceBudget(tst.option), maxTraceCount: maxStagedTraceCountFromBudget(plan.BatchLimit),
			budget: resolveDropSetBudget(tst.option), forceSlow: c.ForceSlow,
		}
		if c.MaxTraces > 0 {
			filter.maxTraceCount = c.MaxTraces
		}
		if c.BatchLimit > 0 {
			filter.decisionBatchLimit = uint64(c.BatchLimit) << 10
		}
		defer filter.chain.close()
	}

	merged := make(map[uint64]struct{}, len(selected))
	for _, pw := range selected {
		merged[pw.ID()] = struct{}{}
	}
	merges := make(chan *mergerIntroduction, 1)
	introducerDone := make(chan struct{})
	go func() {
		defer close(introducerDone)
		for mi := range merges {
			close(mi.applied)
		}
	}()
	closeCh := make(chan struct{})
	newPart, mergeErr := tst.mergePartsThenSendIntroduction(snapshotCreatorMerger, selected, merged, merges, closeCh,
		mergeTypeFile, mergeLaneFast, &mergeOverrides{filter: filter})
	close(merges)
	<-introducerDone
	if mergeErr != nil {
		return verifkit.Failf("merge failed: %v", mergeErr)
	}
	got := map[string][]string{}
	if newPart != nil {
		defer newPart.decRef()
		got, err = readPartSpans(newPart)
		if err != nil {
			return verifkit.Failf("reading the merged part: %v", err)
		}
	}
	if lateIntroduced {
		// the late part was in the table when the merge published its result
		for _, s := range c.Late {
			outside[traceName(s.Trace)] = true
		}
	}
	failOpen := c.Sampler == "none" || c.Sampler == "error" || c.Sampler == "panic" || c.Sampler == "wrongsize"
	dropped, multiBlock := 0, false
	for _, id := range ids {
		var want []string
		size := 0
		for _, s := range mergedSpans[id] {
			want = append(want, s.rendered())
			size += s.Big
		}
		if size >= 2048 {
			multiBlock = true
		}
		sort.Strings(want)
		have := append([]string(nil), got[id]...)
		sort.Strings(have)
		switch {
		case len(have) == 0:
			dropped++
			if failOpen {
				return verifkit.Failf("trace %s (%d spans in the merged parts) is missing from the merged part although no sampler verdict exists (sampler=%s)", id, len(want), c.Sampler)
			}
			if outside[id] {
				return verifkit.Failf("trace %s was removed by the merge although a fragment of it lives in a part outside the merge", id)
			}
			if !c.wouldDrop(mergedSpans[id]) {
				return verifkit.Failf("trace %s was removed although the sampler keeps the whole trace (shown %d times)", id, sampler.shown[id])
			}
		case strings.Join(have, "\n") != strings.Join(want, "\n"):
			return verifkit.Failf("trace %s is partially present after the merge: have %d of %d spans\nhave: %v\nwant: %v", id, len(have), len(want), have, want)
		}
		if sx.called {
			if acc, present := sx.accepted[id], len(have) > 0; acc != present {
				return verifkit.Failf("secondary-index keep predicate says %v for trace %s, the merged part says present=%v", acc, id, present)
			}
		}
	}
	for id := range got {
		if _, ok := mergedSpans[id]; !ok {
			return verifkit.Failf("merged part contains trace %s that was in no merged part", id)
		}
	}
	x.Label("sampler:" + c.Sampler)
	x.LabelIf(dropped > 0, "a trace was dropped")
	x.LabelIf(len(outside) > 0, "fragments outside the merge")
	x.LabelIf(multiBlock, "trace larger than one block")
	x.LabelIf(c.ForceSlow, "slow staging")
	x.LabelIf(lateIntroduced, "a part entered the snapshot while the merge ran")
	x.LabelIf(lateIntroduced && c.LateLow, "late part with an id below the base snapshot's")
	multiPart := false
	for _, id := range ids {
		seen := map[int]bool{}
		for i, spans := range c.Parts {
			for _, s := range spans {
				if traceName(s.Trace) == id && inMerge[i] {
					seen[i] = true
				}
			}
		}
		if len(seen) >= 2 {
			multiPart = true
		}
	}
	x.LabelIf(multiPart, "trace spread over merged parts")
	if multiPart && (dropped > 0 || failOpen) {
		x.NonTrivial()
	}
	return nil
}

func TestVerifC13Merge(t *testing.T) {
	verifkit.Run(t, verifkit.Spec[tCase]{
		Property: "C13", Unit: "merge_sampling", CrashReplay: true,
		Rule: "2..5 parts of 1..8 spans over traces trace-000..005 (unique span ids, status tag ok/err, timestamps out of order; either all spans of a trace within one window of the enforced fragment gap (merge grace) with traces 1000/50/0 ns apart, or - in a third of the cases - chains in which every fragment lies within the gap of the previous fragment of its trace; in a quarter of the cases one trace is re-timed so that its block in a part outside the merge widens both ends of the range of the blocks before it and its other fragments lie within the gap of the late end only; in 1 of 6 cases one trace " +
			"carries 3..5 spans of 600..900 KiB in different parts so that the merged trace crosses the 2 MiB block limit), any subset of >= 1 parts merged and the rest left in the " +
			"table's snapshot, sampler in {none, drop-by-id, drop-unless-error-span, drop-if-short, error, panic, wrong verdict size} with every " +
			"projection, raw or decoded staging, Decide batch caps {default,1,2,3 traces} x {plan, 64 KiB, 1 MiB, 3 MiB}; oracle: per trace all-or-nothing " +
			"against the spans written, removal only on a whole-trace drop verdict and never with a fragment outside the merge - including, in 1 of 3 cases, a part that enters " +
			"the snapshot while the merge runs (introduced inside the first Decide call) with an id above or below the base snapshot's ids -, fail-open, sidx keep " +
			"predicate == presence in the output; non-trivial = a trace spread over >= 2 merged parts and (a drop happened or the merge had to keep everything)",
		Gen: func(t *rapid.T, _ *verifkit.KnownSet) tCase {
			c := tCase{Sampler: rapid.SampledFrom([]string{"none", "ids", "ids", "no-error-tail", "no-error-tail", "short", "error", "panic", "wrongsize"}).Draw(t, "sampler")}
			np := rapid.IntRange(2, 5).Draw(t, "parts")
			id := 0
			for p := 0; p < np; p++ {
				n := rapid.IntRange(1, 8).Draw(t, "spans")
				var spans []tSpan
				for i := 0; i < n; i++ {
					id++
					spans = append(spans, tSpan{Trace: rapid.IntRange(0, 5).Draw(t, "trace"), ID: id, T: 0,
						Err: rapid.IntRange(0, 4).Draw(t, "err") == 0})
				}
				c.Parts = append(c.Parts, spans)
			}
			huge := rapid.IntRange(0, 5).Draw(t, "huge") == 0
			if huge {
				// one trace of 3..5 large spans, one per part where possible, so that the merged trace crosses the
				// 2 MiB block limit on a block that is not its last one
				tr := rapid.IntRange(0, 5).Draw(t, "hugetrace")
				k := rapid.IntRange(3, 5).Draw(t, "hugespans")
				for len(c.Parts) < k && len(c.Parts) < 5 {
					c.Parts = append(c.Parts, nil)
				}
				np = len(c.Parts)
				first := rapid.IntRange(0, np-1).Draw(t, "hugefirst")
				for i := 0; i < k; i++ {
					id++
					c.Parts[(first+i)%np] = append(c.Parts[(first+i)%np], tSpan{Trace: tr, ID: id, Big: rapid.IntRange(600, 900).Draw(t, "kib"),
						Err: rapid.IntRange(0, 2).Draw(t, "hugeerr") == 0})
				}
				for p := range c.Parts {
					if len(c.Parts[p]) == 0 {
						id++
						c.Parts[p] = append(c.Parts[p], tSpan{Trace: rapid.IntRange(0, 5).Draw(t, "trace"), ID: id})
					}
				}
			}
			spacing := rapid.SampledFrom([]int{1000, 50, 0}).Draw(t, "spacing")
			if rapid.IntRange(0, 2).Draw(t, "chain") == 0 {
				// chain layout: every fragment of a trace lies within the grace of the previously generated fragment of that trace, so a
				// trace may stretch over several grace widths (the guard's assumption is about the gap between fragments, not the length)
				last := map[int]int64{}
				jitter := rapid.SampledFrom([]int{400, 40, 0}).Draw(t, "chainjitter")
				for p := range c.Parts {
					for i := range c.Parts[p] {
						tr := c.Parts[p][i].Trace
						prev, ok := last[tr]
						if !ok {
							prev = int64(10000 + rapid.IntRange(0, jitter).Draw(t, "chainbase"))
						}
						next := prev + int64(rapid.IntRange(-int(c13Grace), int(c13Grace)).Draw(t, "chainstep"))
						c.Parts[p][i].T = next
						last[tr] = next
					}
				}
			} else {
				for p := range c.Parts {
					for i := range c.Parts[p] {
						c.Parts[p][i].T = int64(10000 + c.Parts[p][i].Trace*spacing + rapid.IntRange(0, int(c13Grace)).Draw(t, "t"))
					}
				}
			}
			perm := rapid.Permutation(seq(np)).Draw(t, "perm")
			nmerge := rapid.IntRange(1, np).Draw(t, "nmerge")
			if huge && rapid.Bool().Draw(t, "mergeall") {
				nmerge = np
			}
			c.Merge = append([]int(nil), perm[:nmerge]...)
			sort.Ints(c.Merge)
			if rapid.IntRange(0, 3).Draw(t, "enclose") == 0 {
				c13Enclose(t, &c, &id)
			}
			nd := rapid.IntRange(0, 4).Draw(t, "ndrop")
			for i := 0; i < nd; i++ {
				c.Drop = append(c.Drop, rapid.IntRange(0, 5).Draw(t, "drop"))
			}
			c.MinSpans = rapid.IntRange(1, 5).Draw(t, "minspans")
			c.Proj = rapid.IntRange(0, 3).Draw(t, "proj")
			c.ForceSlow = rapid.Bool().Draw(t, "slow")
			c.MaxTraces = rapid.SampledFrom([]int{0, 0, 1, 2, 3}).Draw(t, "maxtraces")
			c.BatchLimit = rapid.SampledFrom([]int{0, 0, 64, 1024, 3072}).Draw(t, "batchlimit")
			if rapid.IntRange(0, 2).Draw(t, "late") == 0 {
				// a late fragment of 1..2 traces that live in the merged parts, at the timestamp of one of their spans
				c.LateLow = rapid.Bool().Draw(t, "latelow")
				var pool []tSpan
				for _, i := range c.Merge {
					pool = append(pool, c.Parts[i]...)
				}
				for k := rapid.IntRange(1, 2).Draw(t, "nlate"); k > 0 && len(pool) > 0; k-- {
					src := rapid.SampledFrom(pool).Draw(t, "latesrc")
					id++
					c.Late = append(c.Late, tSpan{Trace: src.Trace, ID: id, T: src.T, Err: false})
				}
			}
			return c
		},
		Check:        c13Run,
		MinLabelFrac: map[string]float64{"a trace was dropped": 0.1, "fragments outside the merge": 0.2, "trace spread over merged parts": 0.3, "late part with an id below the base snapshot's": 0.05},
	})
}

// c13Enclose rewrites the timestamps of one trace so that, in a part left outside the merge, its block widens BOTH ends of the time range
// accumulated by the blocks written before it (blocks are written in trace-id order), while the fragments of that trace in the merged
// parts lie within the grace of the late end only. Every fragment stays within the grace of another fragment of its trace.
func c13Enclose(t *rapid.T, c *tCase, id *int) {
	inMerge := map[int]bool{}
	for _, i := range c.Merge {
		inMerge[i] = true
	}
	type cand struct{ part, trace int }
	var cands []cand
	for p := range c.Parts {
		if inMerge[p] {
			continue
		}
		lowest := 1 << 30
		for _, s := range c.Parts[p] {
			lowest = min(lowest, s.Trace)
		}
		seen := map[int]bool{}
		for _, s := range c.Parts[p] {
			if s.Trace == lowest || seen[s.Trace] || s.Big > 0 {
				continue
			}
			seen[s.Trace] = true
			merged := false
			for _, m := range c.Merge {
				for _, ms := range c.Parts[m] {
					if ms.Trace == s.Trace {
						merged = true
					}
				}
			}
			if merged {
				cands = append(cands, cand{p, s.Trace})
			}
		}
	}
	if len(cands) == 0 {
		return
	}
	pick := rapid.SampledFrom(cands).Draw(t, "enclosepick")
	lo, hi := int64(1<<62), int64(-1<<62)
	for _, s := range c.Parts[pick.part] {
		if s.Trace != pick.trace {
			lo, hi = min(lo, s.T), max(hi, s.T)
		}
	}
	if hi-lo+2 > int64(c13Grace) {
		return
	}
	slack := int(int64(c13Grace) - (hi - lo + 2))
	below := rapid.IntRange(0, slack).Draw(t, "enclosebelow")
	above := rapid.IntRange(0, slack-below).Draw(t, "encloseabove")
	bmin, bmax := lo-1-int64(below), hi+1+int64(above)
	var own []int
	for i, s := range c.Parts[pick.part] {
		if s.Trace == pick.trace {
			own = append(own, i)
		}
	}
	if len(own) == 1 {
		*id++
		c.Parts[pick.part] = append(c.Parts[pick.part], tSpan{Trace: pick.trace, ID: *id})
		own = append(own, len(c.Parts[pick.part])-1)
	}
	for k, i := range own {
		switch k {
		case 0:
			c.Parts[pick.part][i].T = bmin
		case 1:
			c.Parts[pick.part][i].T = bmax
		default:
			c.Parts[pick.part][i].T = bmin + int64(rapid.IntRange(0, int(bmax-bmin)).Draw(t, "enclosemid"))
		}
	}
	// every other fragment of the trace: within the grace of the late end, in [hi+grace+1-back, bmax+grace]
	back := rapid.SampledFrom([]int{0, 0, 5, 60}).Draw(t, "encloseback")
	for p := range c.Parts {
		if p == pick.part {
			continue
		}
		for i := range c.Parts[p] {
			if c.Parts[p][i].Trace == pick.trace {
				from := hi + int64(c13Grace) + 1 - int64(back)
				c.Parts[p][i].T = from + int64(rapid.IntRange(0, int(bmax+int64(c13Grace)-from)).Draw(t, "enclosefar"))
			}
		}
	}
}

func seq(n int) []int {
	out := make([]int, n)
	for i := range out {
		out[i] = i
	}
	return out
}
