package trace

import (
	"fmt"
	"os"
	"path/filepath"
	"testing"

	"pgregory.net/rapid"

	"github.com/apache/skywalking-banyandb/verifkit"
)

// C13 / C17 (trace write queue): the coordinator's write-queue table keeps memory parts of several time segments in one
// table; the flusher's memory-part merge round merges the parts of ONE segment with each other and leaves a part that is
// alone in its segment in place. Whatever the arrival order of the segments, every acknowledged span - and its trace's
// secondary-index entry - stays in the table until it is shipped: a trace with a late span in an older segment and more
// spans in the current one must come back whole.

type twOp struct {
	Kind  string   `json:"kind"` // write | mergemem | flush | merge
	Spans []ttSpan `json:"spans,omitempty"`
	Seg   int64    `json:"seg,omitempty"`
	Pick  []int    `json:"pick,omitempty"`
}

type twCase struct {
	Ops []twOp `json:"ops"`
}

func runTW(c twCase) (rounds int, lone, mixed bool, err error) {
	dir, derr := os.MkdirTemp("", "verif-tw-")
	if derr != nil {
		return 0, false, false, derr
	}
	defer os.RemoveAll(dir)
	tb := openTT(filepath.Join(dir, "tab"), nil)
	defer tb.close()
	var batches [][]ttSpan
	seq := 0
	for i, op := range c.Ops {
		what := fmt.Sprintf("op %d (%s)", i, op.Kind)
		switch op.Kind {
		case "write":
			if len(op.Spans) == 0 {
				continue
			}
			seq++
			if werr := tb.writeSeg(op.Spans, seq, op.Seg); werr != nil {
				return rounds, lone, mixed, fmt.Errorf("%s: %v", what, werr)
			}
			batches = append(batches, op.Spans)
		case "mergemem":
			// what does the round meet: runs of memory parts by segment, in snapshot order
			if s := tb.tst.currentSnapshot(); s != nil {
				var runs []int
				var last int64 = -1
				segs := map[int64]bool{}
				for _, pw := range s.parts {
					if pw.mp == nil {
						continue
					}
					if pw.mp.segmentID != last {
						runs = append(runs, 0)
						last = pw.mp.segmentID
					}
					runs[len(runs)-1]++
					segs[pw.mp.segmentID] = true
				}
				s.decRef()
				for k, n := range runs {
					if n == 1 && len(runs) > 1 {
						lone = true
						if k+1 < len(runs) && runs[k+1] >= 2 {
							mixed = true
						}
					}
				}
			}
			if _, merr := tb.mergeMem(); merr != nil {
				return rounds, lone, mixed, fmt.Errorf("%s: %v", what, merr)
			}
			rounds++
		case "flush":
			tb.flushAll()
		case "merge":
			if _, merr := tb.mergeFiles(op.Pick); merr != nil {
				return rounds, lone, mixed, fmt.Errorf("%s: %v", what, merr)
			}
		}
		got, serr := tb.state()
		if serr != nil {
			return rounds, lone, mixed, fmt.Errorf("after %s: %v", what, serr)
		}
		want := ttExpected(batches)
		if d := ttDiff(got.core, want.core); d != "" {
			return rounds, lone, mixed, verifkit.Failf("after %s: the table's parts do not hold exactly the acknowledged spans: %s (parts %v)", what, d, got.parts)
		}
		if d := ttSetDiff(got.index, want.index); d != "" {
			return rounds, lone, mixed, verifkit.Failf("after %s: the secondary index does not serve exactly the acknowledged traces: %s", what, d)
		}
	}
	return rounds, lone, mixed, nil
}

func twSpec(pid string) verifkit.Spec[twCase] {
	return verifkit.Spec[twCase]{
		Property: pid, Unit: "trace_wqueue_segments", CrashReplay: true,
		Rule: "a trace shard table used as the coordinator's write queue: 2..8 write batches of 1..5 spans (6 traces, spans of a trace spread over batches) that arrive as memory parts of " +
			"time segments 1..3 in any order (runs of one segment, alternations, a lone part of an older segment before several of the current one), memory-part merge rounds of the flusher, " +
			"flushes and merges of file parts in between; oracle: after every step the table's parts hold exactly the acknowledged spans, each once, and the secondary index serves exactly " +
			"the acknowledged traces; non-trivial = a merge round that meets a memory part alone in its segment next to other segments' parts",
		Gen: func(t *rapid.T, _ *verifkit.KnownSet) twCase {
			var c twCase
			id := 0
			for b := rapid.IntRange(2, 8).Draw(t, "batches"); b > 0; b-- {
				op := twOp{Kind: "write", Seg: int64(rapid.IntRange(1, 3).Draw(t, "seg"))}
				durs := map[int]int64{}
				for i := rapid.IntRange(1, 5).Draw(t, "n"); i > 0; i-- {
					id++
					tr := rapid.IntRange(0, 5).Draw(t, "trace")
					if _, ok := durs[tr]; !ok {
						durs[tr] = int64(rapid.IntRange(0, 50).Draw(t, "dur"))
					}
					op.Spans = append(op.Spans, ttSpan{Trace: tr, ID: id, Dur: durs[tr]})
				}
				c.Ops = append(c.Ops, op)
				switch rapid.IntRange(0, 5).Draw(t, "maint") {
				case 0, 1:
					c.Ops = append(c.Ops, twOp{Kind: "mergemem"})
				case 2:
					c.Ops = append(c.Ops, twOp{Kind: "flush"})
				case 3:
					c.Ops = append(c.Ops, twOp{Kind: "merge", Pick: rapid.SliceOfN(rapid.IntRange(0, 5), 2, 3).Draw(t, "pick")})
				}
			}
			c.Ops = append(c.Ops, twOp{Kind: "mergemem"}, twOp{Kind: "flush"})
			return c
		},
		Check: func(x *verifkit.Ctx, c twCase) error {
			rounds, lone, mixed, err := runTW(c)
			if err != nil {
				return err
			}
			x.LabelIf(rounds > 0, "memory-part merge round")
			x.LabelIf(lone, "memory part alone in its segment at a merge round")
			x.LabelIf(mixed, "lone memory part followed by a group of another segment")
			if lone {
				x.NonTrivial()
			}
			return nil
		},
		MinLabelFrac: map[string]float64{"memory-part merge round": 0.5, "memory part alone in its segment at a merge round": 0.2, "lone memory part followed by a group of another segment": 0.05},
	}
}

func TestVerifC13TraceWqueue(t *testing.T) { verifkit.Run(t, twSpec("C13")) }

func TestVerifC17TraceWqueue(t *testing.T) { verifkit.Run(t, twSpec("C17")) }
