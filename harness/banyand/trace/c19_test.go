package trace

import (
	"fmt"
	"os"
	"path/filepath"
	"strings"
	"testing"

	"pgregory.net/rapid"

	"github.com/apache/skywalking-banyandb/banyand/internal/sidx"
	"github.com/apache/skywalking-banyandb/pkg/fs"
	"github.com/apache/skywalking-banyandb/verifkit"
)

// C19 (trace shard): a file snapshot of a trace shard - core parts plus the secondary index - taken
// at any position of a write / flush / merge history opens as a shard that serves exactly the batches
// flushed before the request, spans and index entries alike.

type tsnCase struct {
	Ops []ttOp `json:"ops"` // write | flush | merge | snapshot
}

// tsnHookSIDX runs a callback right after the real secondary index linked its parts into a snapshot directory.
type tsnHookSIDX struct {
	sidx.SIDX
	after func()
}

func (h *tsnHookSIDX) TakeFileSnapshot(dst string) error {
	err := h.SIDX.TakeFileSnapshot(dst)
	if h.after != nil {
		f := h.after
		h.after = nil
		f()
	}
	return err
}

func runTraceSnapshot(x *verifkit.Ctx, c tsnCase) (snaps int, withMem, afterMerge bool, err error) {
	dir, derr := os.MkdirTemp("", "verif-tsn-")
	if derr != nil {
		return 0, false, false, derr
	}
	defer os.RemoveAll(dir)
	tb := openTT(filepath.Join(dir, "shard"), nil)
	defer tb.close()
	var batches [][]ttSpan
	flushed, merges := 0, 0
	midFlush := false
	defer func() {
		if midFlush && x != nil {
			x.Label("flush landing inside a snapshot call")
		}
	}()
	for i, op := range c.Ops {
		switch op.Kind {
		case "write":
			if len(op.Spans) == 0 {
				continue
			}
			if werr := tb.write(op.Spans, len(batches)+1); werr != nil {
				return snaps, withMem, afterMerge, fmt.Errorf("op %d write: %v", i, werr)
			}
			batches = append(batches, op.Spans)
		case "flush":
			if tb.flushAll() > 0 {
				flushed = len(batches)
			}
		case "merge":
			ok, merr := tb.mergeFiles(op.Pick)
			if merr != nil {
				return snaps, withMem, afterMerge, fmt.Errorf("op %d merge: %v", i, merr)
			}
			if ok {
				merges++
			}
		case "snapshot":
			dst := filepath.Join(dir, fmt.Sprintf("snap-%d", i))
			before := flushed
			if len(op.Spans) > 0 && len(batches) > 0 {
				// a flush lands in the middle of the call: right after the secondary index was linked, a batch is written and flushed
				tb.tst.Lock()
				real, okSidx := tb.tst.sidxMap[ttSidx]
				if okSidx {
					tb.tst.sidxMap[ttSidx] = &tsnHookSIDX{SIDX: real, after: func() {
						tb.tst.Lock()
						tb.tst.sidxMap[ttSidx] = real
						tb.tst.Unlock()
						if werr := tb.write(op.Spans, len(batches)+1); werr == nil {
							batches = append(batches, op.Spans)
							if tb.flushAll() > 0 {
								flushed = len(batches)
							}
							midFlush = true
						}
					}}
				}
				tb.tst.Unlock()
			}
			ok, serr := tb.tst.TakeFileSnapshot(dst)
			tb.tst.Lock()
			if h, isHook := tb.tst.sidxMap[ttSidx].(*tsnHookSIDX); isHook {
				tb.tst.sidxMap[ttSidx] = h.SIDX
			}
			tb.tst.Unlock()
			if serr != nil {
				if len(batches) == 0 {
					continue // no snapshot exists before the first write
				}
				return snaps, withMem, afterMerge, fmt.Errorf("op %d snapshot: %v", i, serr)
			}
			if !ok && before == 0 {
				continue // nothing was flushed when the request arrived
			}
			if !ok {
				return snaps, withMem, afterMerge, fmt.Errorf("op %d snapshot: nothing reported although %d batches are flushed", i, before)
			}
			snaps++
			if flushed < len(batches) {
				withMem = true
			}
			if merges > 0 {
				afterMerge = true
			}
			// one manifest; every part directory next to it is listed in it
			manifests := 0
			for _, e := range fs.NewLocalFileSystem().ReadDir(dst) {
				if !e.IsDir() && strings.HasSuffix(e.Name(), snapshotSuffix) {
					manifests++
				}
			}
			if (before > 0 && manifests != 1) || manifests > 1 {
				return snaps, withMem, afterMerge, fmt.Errorf("op %d snapshot: the copy holds %d manifests", i, manifests)
			}
			rt := openTT(dst, nil)
			got, gerr := rt.state()
			if gerr == nil {
				listed := map[string]bool{}
				for _, id := range got.parts {
					listed[partName(id)] = true
				}
				for _, e := range fs.NewLocalFileSystem().ReadDir(dst) {
					if e.IsDir() && e.Name() != sidxDirName && !listed[e.Name()] {
						gerr = fmt.Errorf("the copy held the part directory %s which its manifest does not list", e.Name())
					}
				}
			}
			rt.close()
			if gerr != nil {
				return snaps, withMem, afterMerge, fmt.Errorf("op %d snapshot: restored copy: %v", i, gerr)
			}
			if flushed != before {
				// a flush completed during the call: the copy is the state before it or after it - spans and index of the same state
				var firstErr string
				matched := false
				for _, j := range []int{before, flushed} {
					want := ttExpected(batches[:j])
					dc, di := ttDiff(got.core, want.core), ttSetDiff(got.index, want.index)
					if dc == "" && di == "" {
						matched = true
						break
					}
					if firstErr == "" {
						firstErr = fmt.Sprintf("against the %d batches flushed before the request: spans %q index %q", j, dc, di)
					} else {
						firstErr += fmt.Sprintf("; against the %d batches flushed when it returned: spans %q index %q", j, dc, di)
					}
				}
				if !matched {
					return snaps, withMem, afterMerge, fmt.Errorf("op %d snapshot with a flush landing during the call: the restored copy is neither the state before nor the state after that flush - %s", i, firstErr)
				}
				os.RemoveAll(dst)
				continue
			}
			want := ttExpected(batches[:flushed])
			if d := ttDiff(got.core, want.core); d != "" {
				return snaps, withMem, afterMerge, fmt.Errorf("op %d snapshot: the restored copy's spans differ from the %d batches flushed before the request (%d acknowledged): %s", i, flushed, len(batches), d)
			}
			if d := ttSetDiff(got.index, want.index); d != "" {
				return snaps, withMem, afterMerge, fmt.Errorf("op %d snapshot: the restored copy's secondary index differs from the %d batches flushed before the request (%d acknowledged): %s", i, flushed, len(batches), d)
			}
			os.RemoveAll(dst)
		}
	}
	return snaps, withMem, afterMerge, nil
}

func TestVerifC19Trace(t *testing.T) {
	verifkit.Run(t, verifkit.Spec[tsnCase]{
		Property: "C19", Unit: "trace_snapshot", CrashReplay: true,
		Rule: "a trace shard (core parts plus the ordered secondary index): 2..6 write batches over 6 traces with generated flushes, merges of arbitrary subsets of file " +
			"parts and TakeFileSnapshot requests in between - in particular while memory parts are pending, right after merges and, for a third of the requests, with a write + flush that the harness lands inside the call right after the secondary index was linked (then the copy is the state before or after that flush, spans and index of the same one); oracle: the copy holds one " +
			"manifest and no part directory outside it, opens with the real start-up code and serves exactly the batches flushed before the request, spans and " +
			"secondary-index entries alike (a prefix of the acknowledged batches, never a mixture); non-trivial = a snapshot while memory parts exist or after a merge",
		Gen: func(t *rapid.T, _ *verifkit.KnownSet) tsnCase {
			var c tsnCase
			id := 0
			for b := rapid.IntRange(2, 6).Draw(t, "batches"); b > 0; b-- {
				op := ttOp{Kind: "write"}
				for i := rapid.IntRange(1, 6).Draw(t, "spans"); i > 0; i-- {
					id++
					op.Spans = append(op.Spans, ttSpan{Trace: rapid.IntRange(0, 5).Draw(t, "trace"), ID: id, Dur: int64(rapid.IntRange(1, 50).Draw(t, "dur"))})
				}
				c.Ops = append(c.Ops, op)
				for k := rapid.IntRange(0, 3).Draw(t, "nmaint"); k > 0; k-- {
					switch rapid.SampledFrom([]string{"flush", "flush", "merge", "snapshot", "snapshot"}).Draw(t, "kind") {
					case "merge":
						c.Ops = append(c.Ops, ttOp{Kind: "merge", Pick: rapid.SliceOfN(rapid.IntRange(0, 5), 2, 4).Draw(t, "pick")})
					case "snapshot":
						sop := ttOp{Kind: "snapshot"}
						if rapid.IntRange(0, 2).Draw(t, "midflush") == 0 {
							for i := rapid.IntRange(1, 3).Draw(t, "midspans"); i > 0; i-- {
								id++
								sop.Spans = append(sop.Spans, ttSpan{Trace: rapid.IntRange(0, 5).Draw(t, "trace"), ID: id, Dur: int64(rapid.IntRange(1, 50).Draw(t, "dur"))})
							}
						}
						c.Ops = append(c.Ops, sop)
					default:
						c.Ops = append(c.Ops, ttOp{Kind: "flush"})
					}
				}
			}
			c.Ops = append(c.Ops, ttOp{Kind: "snapshot"})
			return c
		},
		Check: func(x *verifkit.Ctx, c tsnCase) error {
			snaps, withMem, afterMerge, err := runTraceSnapshot(x, c)
			if err != nil {
				return err
			}
			x.LabelIf(snaps > 0, "snapshot taken")
			x.LabelIf(withMem, "snapshot while memory parts exist")
			x.LabelIf(afterMerge, "snapshot after a merge")
			if withMem || afterMerge {
				x.NonTrivial()
			}
			return nil
		},
		MinLabelFrac: map[string]float64{"snapshot taken": 0.5, "snapshot while memory parts exist": 0.2},
	})
}
