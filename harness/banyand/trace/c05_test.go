package trace

import (
	"fmt"
	"os"
	"path/filepath"
	"strings"
	"testing"
	"time"

	"pgregory.net/rapid"

	"github.com/apache/skywalking-banyandb/verifkit"
)

// C05 (trace shard): a reader that pinned a snapshot keeps evaluating exactly that snapshot while
// batches are written, flushed and parts are merged (and the replaced parts' files are deleted only
// after the last reader of a snapshot containing them has finished).

type tpCase struct {
	Ops []ttOp `json:"ops"` // write | flush | merge | pin | unpin (Pick[0] = slot)
}

type tpPin struct {
	snap *snapshot
	want ttState
	dirs map[uint64]string
	pubs int
}

func runTracePins(x *verifkit.Ctx, c tpCase) (pinned int, acrossMerge bool, err error) {
	dir, derr := os.MkdirTemp("", "verif-tp-")
	if derr != nil {
		return 0, false, derr
	}
	defer os.RemoveAll(dir)
	tb := openTT(filepath.Join(dir, "shard"), nil)
	defer tb.close()
	var batches [][]ttSpan
	pins := map[int]*tpPin{}
	defer func() {
		for _, p := range pins {
			p.snap.decRef()
		}
	}()
	merges := 0
	replaced := map[string]bool{} // directories of parts replaced by a merge
	unpin := func(slot int, what string) error {
		p := pins[slot]
		if p == nil {
			return nil
		}
		delete(pins, slot)
		defer p.snap.decRef()
		got := ttState{core: map[string]int{}}
		for _, pw := range p.snap.parts {
			if d := p.dirs[pw.ID()]; d != "" {
				if _, serr := os.Stat(d); serr != nil {
					return fmt.Errorf("%s: the directory of part %d of the pinned snapshot was deleted while the snapshot is still held: %v", what, pw.ID(), serr)
				}
			}
			spans, rerr := readPartSpans(pw)
			if rerr != nil {
				return fmt.Errorf("%s: reading part %d of the pinned snapshot failed: %v", what, pw.ID(), rerr)
			}
			for id, list := range spans {
				for _, r := range list {
					got.core[id+"/"+strings.Split(r, "/")[1]]++
				}
			}
		}
		if d := ttDiff(got.core, p.want.core); d != "" {
			return fmt.Errorf("%s: the pinned snapshot no longer serves the state at its pin: %s", what, d)
		}
		pinned++
		if merges > p.pubs {
			acrossMerge = true
		}
		return nil
	}
	for i, op := range c.Ops {
		what := fmt.Sprintf("op %d (%s)", i, op.Kind)
		switch op.Kind {
		case "write":
			if len(op.Spans) == 0 {
				continue
			}
			if werr := tb.write(op.Spans, len(batches)+1); werr != nil {
				return pinned, acrossMerge, fmt.Errorf("%s: %v", what, werr)
			}
			batches = append(batches, op.Spans)
		case "flush":
			tb.flushAll()
		case "merge":
			before := map[uint64]string{}
			if s := tb.tst.currentSnapshot(); s != nil {
				for _, pw := range s.parts {
					if pw.mp == nil {
						before[pw.ID()] = pw.p.path
					}
				}
				s.decRef()
			}
			ok, merr := tb.mergeFiles(op.Pick)
			if merr != nil {
				return pinned, acrossMerge, fmt.Errorf("%s: %v", what, merr)
			}
			if ok {
				merges++
				if s := tb.tst.currentSnapshot(); s != nil {
					for _, pw := range s.parts {
						delete(before, pw.ID())
					}
					s.decRef()
				}
				for _, d := range before {
					replaced[d] = true
				}
			}
		case "pin":
			slot := op.Pick[0]
			if pins[slot] != nil {
				continue
			}
			s := tb.tst.currentSnapshot()
			if s == nil {
				continue
			}
			p := &tpPin{snap: s, want: ttExpected(batches), dirs: map[uint64]string{}, pubs: merges}
			for _, pw := range s.parts {
				if pw.mp == nil {
					p.dirs[pw.ID()] = pw.p.path
				}
			}
			pins[slot] = p
			continue
		case "unpin":
			if uerr := unpin(op.Pick[0], what); uerr != nil {
				return pinned, acrossMerge, uerr
			}
			continue
		}
		// unpinned readers see the current state
		got, serr := tb.state()
		if serr != nil {
			return pinned, acrossMerge, fmt.Errorf("%s: %v", what, serr)
		}
		want := ttExpected(batches)
		if d := ttDiff(got.core, want.core); d != "" {
			return pinned, acrossMerge, fmt.Errorf("%s: the shard's spans differ from the acknowledged batches: %s", what, d)
		}
		if d := ttSetDiff(got.index, want.index); d != "" {
			return pinned, acrossMerge, fmt.Errorf("%s: the secondary index differs from the acknowledged batches: %s", what, d)
		}
	}
	for slot := range pins {
		if uerr := unpin(slot, "final release"); uerr != nil {
			return pinned, acrossMerge, uerr
		}
	}
	// once every reader is gone the replaced parts' directories disappear (asynchronously)
	deadline := time.Now().Add(5 * time.Second)
	for d := range replaced {
		for {
			if _, serr := os.Stat(d); serr != nil {
				break
			}
			if time.Now().After(deadline) {
				return pinned, acrossMerge, fmt.Errorf("the directory %s of a part replaced by a merge is still on disk 5 s after the last reader released its snapshot", d)
			}
			// a later publication triggers the collector; give it one
			time.Sleep(20 * time.Millisecond)
			tb.tst.gc.clean()
		}
	}
	return pinned, acrossMerge, nil
}

func TestVerifC05Trace(t *testing.T) {
	verifkit.Run(t, verifkit.Spec[tpCase]{
		Property: "C05", Unit: "trace_pins", CrashReplay: true,
		Rule: "a trace shard (real tsTable with the real introducer, secondary index attached): 2..6 write batches over 6 traces with generated flushes and merges of " +
			"arbitrary subsets of file parts, while up to 3 readers pin the current snapshot and read all of its parts any number of steps later; oracle: a pinned " +
			"reader reads exactly the spans acknowledged at its pin, never fails and never finds a part directory of its snapshot deleted; unpinned reads of " +
			"spans and secondary index equal the acknowledged batches after every step; once every reader is released the directories of merged-away parts " +
			"disappear; non-trivial = a reader pinned across a merge",
		Gen: func(t *rapid.T, _ *verifkit.KnownSet) tpCase {
			var c tpCase
			id := 0
			for b := rapid.IntRange(2, 6).Draw(t, "batches"); b > 0; b-- {
				op := ttOp{Kind: "write"}
				for i := rapid.IntRange(1, 6).Draw(t, "spans"); i > 0; i-- {
					id++
					op.Spans = append(op.Spans, ttSpan{Trace: rapid.IntRange(0, 5).Draw(t, "trace"), ID: id, Dur: int64(rapid.IntRange(1, 50).Draw(t, "dur"))})
				}
				c.Ops = append(c.Ops, op)
				for k := rapid.IntRange(0, 4).Draw(t, "nsteps"); k > 0; k-- {
					switch rapid.SampledFrom([]string{"flush", "flush", "merge", "merge", "pin", "pin", "unpin"}).Draw(t, "kind") {
					case "merge":
						c.Ops = append(c.Ops, ttOp{Kind: "merge", Pick: rapid.SliceOfN(rapid.IntRange(0, 5), 2, 4).Draw(t, "pick")})
					case "pin":
						c.Ops = append(c.Ops, ttOp{Kind: "pin", Pick: []int{rapid.IntRange(1, 3).Draw(t, "slot")}})
					case "unpin":
						c.Ops = append(c.Ops, ttOp{Kind: "unpin", Pick: []int{rapid.IntRange(1, 3).Draw(t, "uslot")}})
					default:
						c.Ops = append(c.Ops, ttOp{Kind: "flush"})
					}
				}
			}
			c.Ops = append(c.Ops, ttOp{Kind: "flush"}, ttOp{Kind: "merge", Pick: []int{0, 1, 2}})
			return c
		},
		Check: func(x *verifkit.Ctx, c tpCase) error {
			pinned, across, err := runTracePins(x, c)
			if err != nil {
				return err
			}
			x.LabelIf(pinned > 0, "pinned reader")
			x.LabelIf(across, "reader pinned across a merge")
			if across {
				x.NonTrivial()
			}
			return nil
		},
		MinLabelFrac: map[string]float64{"pinned reader": 0.5, "reader pinned across a merge": 0.2},
	})
}
