package trace

import (
	"context"
	"fmt"
	"os"
	"path/filepath"
	"runtime"
	"sort"
	"strings"
	"sync"
	"testing"
	"time"

	"pgregory.net/rapid"

	"github.com/apache/skywalking-banyandb/api/common"
	"github.com/apache/skywalking-banyandb/banyand/internal/sidx"
	"github.com/apache/skywalking-banyandb/banyand/protector"
	"github.com/apache/skywalking-banyandb/pkg/convert"
	"github.com/apache/skywalking-banyandb/pkg/fs"
	"github.com/apache/skywalking-banyandb/pkg/logger"
	pbv1 "github.com/apache/skywalking-banyandb/pkg/pb/v1"
	"github.com/apache/skywalking-banyandb/pkg/run"
	"github.com/apache/skywalking-banyandb/pkg/watcher"
	"github.com/apache/skywalking-banyandb/verifkit"
	"github.com/apache/skywalking-banyandb/verifkit/crashfs"
)

// C04 — a crash at any point recovers to a consistent durable prefix (trace shard: core parts and
// the ordered secondary index published by one manifest).
// The history (write batches with secondary-index entries, flushes, merges of file parts) runs once
// on a crash-logging file system; for crash points k the Kill9 image and the PowerLoss image of the
// log prefix are materialised and the REAL start-up code (initTSTable, which also loads the
// secondary index) runs on them.

const ttSidx = "duration"

var ttLogOnce sync.Once

type ttSpan struct {
	Trace int   `json:"trace"`
	ID    int   `json:"id"`
	Dur   int64 `json:"dur"` // secondary-index key of the trace in this batch
}

type ttOp struct {
	Kind  string   `json:"kind"` // write | flush | merge
	Spans []ttSpan `json:"spans,omitempty"`
	Pick  []int    `json:"pick,omitempty"`
}

type ttCase struct {
	Ops   []ttOp `json:"ops"`
	Seed  int    `json:"seed"`
	Every bool   `json:"every"`
}

// ttYieldFS lets goroutines that are already runnable (asynchronous directory removals) reach the file
// system before a manifest is written: a kill -9 may land after them as well as before them.
type ttYieldFS struct {
	*crashfs.FS
	root string
}

func (y ttYieldFS) WriteAtomic(buffer []byte, name string, perm fs.Mode) (int, error) {
	if strings.HasSuffix(name, snapshotSuffix) && filepath.Dir(name) == y.root {
		for i := 0; i < 3; i++ {
			runtime.Gosched()
			time.Sleep(300 * time.Microsecond)
		}
	}
	return y.FS.WriteAtomic(buffer, name, perm)
}

type ttTable struct {
	tst     *tsTable
	flushCh chan *flusherIntroduction
	mergeCh chan *mergerIntroduction
}

func openTT(root string, fsys fs.FileSystem) *ttTable {
	ttLogOnce.Do(func() { _ = logger.Init(logger.Logging{Env: "dev", Level: "error"}) })
	if fsys == nil {
		fsys = fs.NewLocalFileSystem()
	}
	fsys.MkdirIfNotExist(root, 0o755)
	tst, epoch := initTSTable(fsys, root, common.Position{}, logger.GetLogger("verif-tt"),
		option{mergePolicy: newDefaultMergePolicyForTesting(), protector: protector.Nop{}}, nil)
	tst.loopCloser = run.NewCloser(2)
	tst.mergeControl = newMergeLoopControl()
	tst.introductions = make(chan *introduction)
	tb := &ttTable{tst: tst, flushCh: make(chan *flusherIntroduction), mergeCh: make(chan *mergerIntroduction)}
	tst.mergeCh = tb.mergeCh
	go tst.introducerLoop(tb.flushCh, tb.mergeCh, make(watcher.Channel, 1), epoch+1)
	return tb
}

func (tb *ttTable) close() {
	if tb.tst != nil {
		_ = tb.tst.Close()
		tb.tst = nil
	}
}

func ttTraceID(n int) string { return fmt.Sprintf("t-%03d", n) }

func (tb *ttTable) write(batch []ttSpan, seq int) error { return tb.writeSeg(batch, seq, 0) }

// writeSeg adds the batch as a memory part of the given time segment (the coordinator's write queue keeps memory parts of
// several segments in one table; standalone and data-node tables use segment 0).
func (tb *ttTable) writeSeg(batch []ttSpan, seq int, seg int64) error {
	ts := &traces{}
	durOf := map[int]int64{}
	var order []int
	for i, s := range batch {
		ts.traceIDs = append(ts.traceIDs, ttTraceID(s.Trace))
		ts.timestamps = append(ts.timestamps, int64(1000*seq+i+1))
		ts.tags = append(ts.tags, []*tagValue{{tag: "status", valueType: pbv1.ValueTypeStr, value: convert.StringToBytes("ok")}})
		ts.spans = append(ts.spans, []byte(fmt.Sprintf("body-%d-%d", s.Trace, s.ID)))
		ts.spanIDs = append(ts.spanIDs, fmt.Sprintf("span-%d", s.ID))
		if _, ok := durOf[s.Trace]; !ok {
			durOf[s.Trace] = s.Dur
			order = append(order, s.Trace)
		}
	}
	var reqs []sidx.WriteRequest
	for _, tr := range order {
		reqs = append(reqs, sidx.WriteRequest{SeriesID: common.SeriesID(1), Key: durOf[tr], Data: []byte(ttTraceID(tr))})
	}
	si, err := tb.tst.getOrCreateSidx(ttSidx)
	if err != nil {
		return err
	}
	minTS, maxTS := ts.timestamps[0], ts.timestamps[len(ts.timestamps)-1]
	smp, err := si.ConvertToMemPart(reqs, 0, &minTS, &maxTS)
	if err != nil {
		return err
	}
	tb.tst.mustAddTracesWithSegmentID(ts, seg, map[string]*sidx.MemPart{ttSidx: smp}, nil)
	return nil
}

// mergeMem runs one memory-part merge round of the flusher.
func (tb *ttTable) mergeMem() (bool, error) {
	s := tb.tst.currentSnapshot()
	if s == nil {
		return false, nil
	}
	defer s.decRef()
	return tb.tst.mergeMemParts(s, tb.mergeCh)
}

func (tb *ttTable) flushAll() int {
	s := tb.tst.currentSnapshot()
	if s == nil {
		return 0
	}
	defer s.decRef()
	n := 0
	for _, pw := range s.parts {
		if pw.mp != nil {
			n++
		}
	}
	if n > 0 {
		tb.tst.flush(s, tb.flushCh)
	}
	return n
}

func (tb *ttTable) mergeFiles(pick []int) (bool, error) {
	s := tb.tst.currentSnapshot()
	if s == nil {
		return false, nil
	}
	defer s.decRef()
	var files []*partWrapper
	for _, pw := range s.parts {
		if pw.mp == nil {
			files = append(files, pw)
		}
	}
	chosen := map[uint64]*partWrapper{}
	for _, p := range pick {
		if len(files) > 0 {
			pw := files[p%len(files)]
			chosen[pw.ID()] = pw
		}
	}
	if len(chosen) < 2 {
		return false, nil
	}
	var pws []*partWrapper
	ids := map[uint64]struct{}{}
	for id, pw := range chosen {
		pws = append(pws, pw)
		ids[id] = struct{}{}
	}
	sort.Slice(pws, func(i, j int) bool { return pws[i].ID() < pws[j].ID() })
	closeCh := make(chan struct{})
	_, err := tb.tst.mergePartsThenSendIntroduction(snapshotCreatorMerger, pws, ids, tb.mergeCh, closeCh, mergeTypeFile, mergeLaneFast, nil)
	close(closeCh)
	return err == nil, err
}

// ttState is what a shard serves: the spans of the core parts and the entries of the secondary index.
type ttState struct {
	core  map[string]int // "trace/span" -> count
	index map[string]int // trace id -> entries served
	parts []uint64
}

func (tb *ttTable) state() (ttState, error) {
	st := ttState{core: map[string]int{}, index: map[string]int{}}
	s := tb.tst.currentSnapshot()
	if s != nil {
		defer s.decRef()
		for _, pw := range s.parts {
			st.parts = append(st.parts, pw.ID())
			spans, err := readPartSpans(pw)
			if err != nil {
				return st, fmt.Errorf("reading part %d: %v", pw.ID(), err)
			}
			for id, list := range spans {
				for _, r := range list {
					st.core[id+"/"+strings.Split(r, "/")[1]]++
				}
			}
		}
	}
	if si, ok := tb.tst.getSidx(ttSidx); ok {
		resps, err := si.ScanQuery(context.Background(), sidx.ScanQueryRequest{})
		if err != nil {
			return st, fmt.Errorf("scanning the secondary index: %v", err)
		}
		for _, r := range resps {
			for i := range r.Keys {
				// the index serves distinct trace ids (entries of one trace are collapsed per block): presence per trace is compared
				st.index[string(r.Data[i])]++
			}
		}
	}
	return st, nil
}

func ttExpected(batches [][]ttSpan) ttState {
	st := ttState{core: map[string]int{}, index: map[string]int{}}
	for _, b := range batches {
		seen := map[int]bool{}
		for _, s := range b {
			st.core[fmt.Sprintf("%s/span-%d", ttTraceID(s.Trace), s.ID)]++
			if !seen[s.Trace] {
				seen[s.Trace] = true
				st.index[ttTraceID(s.Trace)]++
			}
		}
	}
	return st
}

// ttSetDiff compares presence only: the secondary index may collapse identical entries when it merges parts.
func ttSetDiff(got, want map[string]int) string {
	g, w := map[string]int{}, map[string]int{}
	for k := range got {
		g[k] = 1
	}
	for k := range want {
		w[k] = 1
	}
	return ttDiff(g, w)
}

func ttDiff(got, want map[string]int) string {
	var miss, extra []string
	for k, n := range want {
		if got[k] < n {
			miss = append(miss, k)
		}
	}
	for k, n := range got {
		if want[k] < n {
			extra = append(extra, k)
		}
	}
	sort.Strings(miss)
	sort.Strings(extra)
	if len(miss)+len(extra) == 0 {
		return ""
	}
	if len(miss) > 6 {
		miss = append(miss[:6], "...")
	}
	if len(extra) > 6 {
		extra = append(extra[:6], "...")
	}
	return fmt.Sprintf("missing %v, unexpected %v", miss, extra)
}

func runTT(x *verifkit.Ctx, c ttCase) (images int, inside, insideMerge bool, err error) {
	dir, derr := os.MkdirTemp("", "verif-tt-")
	if derr != nil {
		return 0, false, false, derr
	}
	defer os.RemoveAll(dir)
	root := filepath.Join(dir, "shard")
	cfs := crashfs.New(fs.NewLocalFileSystem(), root)
	tb := openTT(root, ttYieldFS{FS: cfs, root: root})
	var batches [][]ttSpan
	var writtenAt []int
	type mark struct{ logLen, batches int }
	var marks []mark
	type span struct {
		from, to int
		merge    bool
	}
	var maint []span
	for i, op := range c.Ops {
		before := cfs.Len()
		switch op.Kind {
		case "write":
			if len(op.Spans) == 0 {
				continue
			}
			if werr := tb.write(op.Spans, len(batches)+1); werr != nil {
				tb.close()
				return 0, false, false, fmt.Errorf("op %d write: %v", i, werr)
			}
			batches = append(batches, op.Spans)
			writtenAt = append(writtenAt, cfs.Len())
		case "flush":
			if tb.flushAll() > 0 {
				marks = append(marks, mark{cfs.Len(), len(batches)})
				maint = append(maint, span{before, cfs.Len(), false})
			}
		case "merge":
			ok, merr := tb.mergeFiles(op.Pick)
			if merr != nil {
				tb.close()
				return 0, false, false, fmt.Errorf("op %d merge: %v", i, merr)
			}
			if ok {
				maint = append(maint, span{before, cfs.Len(), true})
			}
		}
		// the live table serves exactly what was acknowledged
		got, serr := tb.state()
		if serr != nil {
			tb.close()
			return 0, false, false, fmt.Errorf("after op %d (%s): %v", i, op.Kind, serr)
		}
		want := ttExpected(batches)
		if d := ttDiff(got.core, want.core); d != "" {
			tb.close()
			return 0, false, false, fmt.Errorf("after op %d (%s): the live shard's spans differ from the acknowledged batches: %s", i, op.Kind, d)
		}
		if d := ttSetDiff(got.index, want.index); d != "" {
			tb.close()
			return 0, false, false, fmt.Errorf("after op %d (%s): the live secondary index differs from the acknowledged batches: %s", i, op.Kind, d)
		}
	}
	tb.close()
	// asynchronous removals of replaced parts finish shortly after close; the log is read afterwards
	time.Sleep(5 * time.Millisecond)
	log := cfs.Log()
	if len(batches) == 0 {
		return 0, false, false, nil
	}
	var points []int
	if c.Every || len(log) <= 200 {
		for k := 0; k <= len(log); k++ {
			points = append(points, k)
		}
	} else {
		step := len(log)/70 + 1
		for k := c.Seed % step; k <= len(log); k += step {
			points = append(points, k)
		}
		for _, m := range maint {
			points = append(points, m.from+1, (m.from+m.to)/2, m.to-1, m.to)
			if m.merge { // the publication of a merge: every point of its second half
				for k := (m.from + m.to) / 2; k <= m.to; k++ {
					points = append(points, k)
				}
			}
		}
	}
	// resume: the recovered shard keeps working - a fresh batch is written and flushed, the shard then serves the recovered prefix
	// plus that batch (no entry of an unpublished part comes back, no directory of one is in the way), and no part directory
	// of the core or of the secondary index exists outside the snapshot
	resume := func(imgDir, what string, k int, prefix [][]ttSpan) error {
		rt := openTT(imgDir, nil)
		defer rt.close()
		fresh := []ttSpan{{Trace: 7, ID: 9001, Dur: 77}, {Trace: 0, ID: 9002, Dur: 3}}
		if werr := rt.write(fresh, 900); werr != nil {
			return fmt.Errorf("%s at op %d/%d (%s): write after recovery failed: %v", what, k, len(log), ttDescribe(log, k), werr)
		}
		rt.flushAll()
		got, serr := rt.state()
		if serr != nil {
			return fmt.Errorf("%s at op %d/%d (%s): after recovery, a write and a flush: %v", what, k, len(log), ttDescribe(log, k), serr)
		}
		want := ttExpected(append(append([][]ttSpan(nil), prefix...), fresh))
		if d := ttDiff(got.core, want.core); d != "" {
			return fmt.Errorf("%s at op %d/%d (%s): after recovery, a write and a flush the spans differ from the recovered prefix plus the new batch: %s", what, k, len(log), ttDescribe(log, k), d)
		}
		if d := ttSetDiff(got.index, want.index); d != "" {
			return fmt.Errorf("%s at op %d/%d (%s): after recovery, a write and a flush the secondary index differs from the recovered prefix plus the new batch: %s", what, k, len(log), ttDescribe(log, k), d)
		}
		listed := map[string]bool{}
		for _, id := range got.parts {
			listed[partName(id)] = true
		}
		for _, sub := range []string{"", filepath.Join(sidxDirName, ttSidx)} {
			for _, e := range fs.NewLocalFileSystem().ReadDir(filepath.Join(imgDir, sub)) {
				if e.IsDir() && e.Name() != sidxDirName && !listed[e.Name()] {
					return fmt.Errorf("%s at op %d/%d (%s): after recovery, a write and a flush the part directory %s is still on disk but the snapshot lists %v",
						what, k, len(log), ttDescribe(log, k), filepath.Join(sub, e.Name()), got.parts)
				}
			}
		}
		return nil
	}
	check := func(imgDir, what string, k int) error {
		jmin, jmax := 0, 0
		for _, m := range marks {
			if m.logLen <= k && m.batches > jmin {
				jmin = m.batches
			}
		}
		for i, w := range writtenAt {
			if w <= k {
				jmax = i + 1
			}
		}
		var first ttState
		for round := 0; round < 2; round++ {
			rt := openTT(imgDir, nil)
			got, serr := rt.state()
			if serr != nil {
				rt.close()
				return fmt.Errorf("%s at op %d/%d (%s): %v", what, k, len(log), ttDescribe(log, k), serr)
			}
			listed := map[string]bool{}
			for _, id := range got.parts {
				listed[partName(id)] = true
			}
			for _, e := range fs.NewLocalFileSystem().ReadDir(imgDir) {
				if e.IsDir() && e.Name() != sidxDirName && !listed[e.Name()] {
					rt.close()
					return fmt.Errorf("%s at op %d/%d (%s): directory %s survived start-up but is not part of the recovered snapshot %v", what, k, len(log), ttDescribe(log, k), e.Name(), got.parts)
				}
			}
			rt.close()
			if round == 0 {
				first = got
				continue
			}
			if d := ttDiff(got.core, first.core) + ttDiff(first.core, got.core) + ttSetDiff(got.index, first.index) + ttSetDiff(first.index, got.index); d != "" {
				return fmt.Errorf("%s at op %d/%d (%s): a second clean restart serves something else than the first (recovery is not idempotent): %s", what, k, len(log), ttDescribe(log, k), d)
			}
		}
		var last string
		for j := jmax; j >= jmin; j-- {
			want := ttExpected(batches[:j])
			dc := ttDiff(first.core, want.core)
			di := ttSetDiff(first.index, want.index)
			if dc == "" && di == "" {
				return resume(imgDir, what, k, batches[:j])
			}
			if dc == "" {
				// the spans are exactly those of j batches: the secondary index must describe the same prefix
				return fmt.Errorf("%s at op %d/%d (%s): the recovered shard serves the spans of exactly %d acknowledged batches but its secondary index does not describe them: %s%s",
					what, k, len(log), ttDescribe(log, k), j, di, ttListing(imgDir))
			}
			last = dc
		}
		return fmt.Errorf("%s at op %d/%d (%s): the recovered spans equal no prefix of the acknowledged batches between %d (last durable manifest) and %d (acknowledged): %s",
			what, k, len(log), ttDescribe(log, k), jmin, jmax, last)
	}
	seenPoint := map[int]bool{}
	for _, k := range points {
		if k < 0 || k > len(log) || seenPoint[k] {
			continue
		}
		seenPoint[k] = true
		for _, m := range maint {
			if k > m.from && k < m.to {
				inside = true
				if m.merge {
					insideMerge = true
				}
			}
		}
		kf, pf, kd, pd := crashfs.Image(log, k)
		for _, img := range []struct {
			name  string
			files map[string][]byte
			dirs  []string
		}{{"kill -9", kf, kd}, {"power loss", pf, pd}} {
			imgDir := filepath.Join(dir, fmt.Sprintf("img-%d-%s", k, strings.ReplaceAll(img.name, " ", "")))
			if merr := crashfs.Materialise(imgDir, img.files, img.dirs); merr != nil {
				return images, inside, insideMerge, merr
			}
			rerr := func() (e error) {
				defer func() {
					if r := recover(); r != nil {
						e = fmt.Errorf("%s at op %d/%d (%s): start-up panicked: %v", img.name, k, len(log), ttDescribe(log, k), r)
					}
				}()
				return check(imgDir, img.name, k)
			}()
			os.RemoveAll(imgDir)
			images++
			if rerr != nil {
				return images, inside, insideMerge, rerr
			}
		}
	}
	return images, inside, insideMerge, nil
}

// ttListing lists the image directory when VERIF_TT_DEBUG is set.
func ttListing(dir string) string {
	if os.Getenv("VERIF_TT_DEBUG") == "" {
		return ""
	}
	var out []string
	_ = filepath.Walk(dir, func(p string, info os.FileInfo, err error) error {
		if err == nil {
			rel, _ := filepath.Rel(dir, p)
			out = append(out, fmt.Sprintf("%s(%d)", rel, info.Size()))
		}
		return nil
	})
	return "\n  image: " + strings.Join(out, " ")
}

func ttDescribe(log []crashfs.Op, k int) string {
	if k <= 0 {
		return "before the first operation"
	}
	op := log[k-1]
	s := fmt.Sprintf("last completed: %s %s", op.Kind, op.Path)
	if op.To != "" {
		s += " -> " + op.To
	}
	if k < len(log) {
		s += fmt.Sprintf("; next: %s %s", log[k].Kind, log[k].Path)
	}
	return s
}

func TestVerifC04Trace(t *testing.T) {
	verifkit.Run(t, verifkit.Spec[ttCase]{
		Property: "C04", Unit: "trace_crash", CrashReplay: true,
		Rule: "a trace shard (core parts plus the ordered secondary index, both published by the shard manifest): 2..5 write batches of 1..6 spans over 6 traces, " +
			"each followed by generated flushes and merges of arbitrary subsets of file parts (core and index merged together), run on a crash-logging file system; " +
			"for every crash point of short logs (sampled points plus every point of the second half of each merge for long logs) the kill -9 image and the " +
			"power-loss image are opened with the real start-up code twice; oracle: start-up does not panic, the spans served equal those of some prefix of the " +
			"acknowledged batches not shorter than the last flush completed before the crash, the secondary index describes exactly the same prefix, no part " +
			"directory (core or index) outside the recovered snapshot survives start-up, a second restart serves the same; non-trivial = a crash point inside a merge",
		Gen: func(t *rapid.T, _ *verifkit.KnownSet) ttCase {
			c := ttCase{Seed: rapid.IntRange(0, 1000).Draw(t, "seed")}
			id := 0
			nb := rapid.IntRange(2, 5).Draw(t, "batches")
			for b := 0; b < nb; b++ {
				op := ttOp{Kind: "write"}
				for i := rapid.IntRange(1, 6).Draw(t, "spans"); i > 0; i-- {
					id++
					op.Spans = append(op.Spans, ttSpan{Trace: rapid.IntRange(0, 5).Draw(t, "trace"), ID: id, Dur: int64(rapid.IntRange(1, 50).Draw(t, "dur"))})
				}
				c.Ops = append(c.Ops, op)
				for k := rapid.IntRange(0, 2).Draw(t, "nmaint"); k > 0; k-- {
					if rapid.IntRange(0, 2).Draw(t, "kind") == 0 {
						c.Ops = append(c.Ops, ttOp{Kind: "merge", Pick: rapid.SliceOfN(rapid.IntRange(0, 5), 2, 4).Draw(t, "pick")})
					} else {
						c.Ops = append(c.Ops, ttOp{Kind: "flush"})
					}
				}
			}
			if rapid.IntRange(0, 2).Draw(t, "tail") > 0 {
				c.Ops = append(c.Ops, ttOp{Kind: "flush"}, ttOp{Kind: "merge", Pick: []int{0, 1, 2}})
			}
			return c
		},
		Check: func(x *verifkit.Ctx, c ttCase) error {
			images, inside, insideMerge, err := runTT(x, c)
			if err != nil {
				return err
			}
			x.LabelIf(images > 0, "crash images recovered")
			x.LabelIf(inside, "crash inside a flush or merge")
			x.LabelIf(insideMerge, "crash inside a merge")
			if insideMerge {
				x.NonTrivial()
			}
			return nil
		},
		MinLabelFrac: map[string]float64{"crash inside a flush or merge": 0.6, "crash inside a merge": 0.25},
	})
}
