package measure

import (
	"bytes"
	"context"
	"fmt"
	"math"
	"sort"
	"strings"
	"sync"

	"github.com/apache/skywalking-banyandb/api/common"
	databasev1 "github.com/apache/skywalking-banyandb/api/proto/banyandb/database/v1"
	modelv1 "github.com/apache/skywalking-banyandb/api/proto/banyandb/model/v1"
	"github.com/apache/skywalking-banyandb/banyand/internal/storage"
	"github.com/apache/skywalking-banyandb/banyand/protector"
	"github.com/apache/skywalking-banyandb/pkg/fs"
	"github.com/apache/skywalking-banyandb/pkg/logger"
	pbv1 "github.com/apache/skywalking-banyandb/pkg/pb/v1"
	"github.com/apache/skywalking-banyandb/pkg/query/model"
	"github.com/apache/skywalking-banyandb/pkg/run"
	"github.com/apache/skywalking-banyandb/pkg/watcher"
)

// ---------------------------------------------------------------------------------------------
// L1 kit for the measure engine: a real tsTable on a real directory with the real introducer
// loop, no flusher/merger/syncer loops. The history calls the real steps itself.
// ---------------------------------------------------------------------------------------------

var logOnce sync.Once

func initLog() {
	logOnce.Do(func() { _ = logger.Init(logger.Logging{Env: "dev", Level: "error"}) })
}

const (
	baseMillis  = int64(1_700_000_000_000)
	nanosPerMs  = int64(1_000_000)
	maxScanTime = int64(math.MaxInt64 / 2)
)

func tsOf(t int64) int64 { return (baseMillis + t) * nanosPerMs }

// mVal is a JSON-serialisable tag / field value.
type mVal struct {
	K  string   `json:"k"` // null | int | str | bin | intarr | strarr | float
	I  int64    `json:"i,omitempty"`
	S  string   `json:"s,omitempty"`
	B  []byte   `json:"b,omitempty"`
	IA []int64  `json:"ia,omitempty"`
	SA []string `json:"sa,omitempty"`
	F  uint64   `json:"f,omitempty"` // float64 bits
}

type mTagSpec struct {
	Name string `json:"name"`
	Type string `json:"type"` // int | str | bin | intarr | strarr
}

type mFamSpec struct {
	Name string     `json:"name"`
	Tags []mTagSpec `json:"tags"`
}

type mFieldSpec struct {
	Name string `json:"name"`
	Type string `json:"type"` // int | float | str | bin
}

type mSchema struct {
	Fams   []mFamSpec   `json:"fams"`
	Fields []mFieldSpec `json:"fields"`
}

type mRow struct {
	S      int      `json:"s"` // series id (>= 1)
	T      int64    `json:"t"` // millisecond offset from the base instant
	V      int64    `json:"v"` // version
	Tags   [][]mVal `json:"tags,omitempty"`
	Fields []mVal   `json:"fields,omitempty"`
}

type mQuery struct {
	Sids    []int  `json:"sids"`
	MinT    int64  `json:"min_t"`
	MaxT    int64  `json:"max_t"`
	Variant int    `json:"variant"`
	Order   string `json:"order"` // sid | asc | desc
	// projection masks: nil = everything
	TagMask   [][]bool `json:"tag_mask,omitempty"`
	FieldMask []bool   `json:"field_mask,omitempty"`
}

type mOp struct {
	Kind    string  `json:"kind"` // write | flush | mergemem | merge | reopen | query | wide
	Variant int     `json:"variant,omitempty"`
	Rows    []mRow  `json:"rows,omitempty"`
	Pick    []int   `json:"pick,omitempty"`
	Query   *mQuery `json:"query,omitempty"`
	Slot    int     `json:"slot,omitempty"` // qopen / qdrain: which pinned query
	Seg     int64   `json:"seg,omitempty"`  // write: segment id of the memory part (liaison write queue style)
	// wide: N series with one row each (forces several primary blocks in one part)
	WideN    int   `json:"wide_n,omitempty"`
	WideBase int   `json:"wide_base,omitempty"`
	WideT    int64 `json:"wide_t,omitempty"`
	WideStep int64 `json:"wide_step,omitempty"`
	DenseN   int   `json:"dense_n,omitempty"` // dense: WideN series x DenseN rows with all-distinct values
}

type mCase struct {
	Schemas []mSchema `json:"schemas"` // variants: same names, possibly different tag types
	Ops     []mOp     `json:"ops"`
}

func tagTypeOf(t string) (databasev1.TagType, pbv1.ValueType) {
	switch t {
	case "int":
		return databasev1.TagType_TAG_TYPE_INT, pbv1.ValueTypeInt64
	case "str":
		return databasev1.TagType_TAG_TYPE_STRING, pbv1.ValueTypeStr
	case "bin":
		return databasev1.TagType_TAG_TYPE_DATA_BINARY, pbv1.ValueTypeBinaryData
	case "intarr":
		return databasev1.TagType_TAG_TYPE_INT_ARRAY, pbv1.ValueTypeInt64Arr
	case "strarr":
		return databasev1.TagType_TAG_TYPE_STRING_ARRAY, pbv1.ValueTypeStrArr
	}
	panic("bad tag type " + t)
}

func fieldTypeOf(t string) databasev1.FieldType {
	switch t {
	case "int":
		return databasev1.FieldType_FIELD_TYPE_INT
	case "float":
		return databasev1.FieldType_FIELD_TYPE_FLOAT
	case "str":
		return databasev1.FieldType_FIELD_TYPE_STRING
	case "bin":
		return databasev1.FieldType_FIELD_TYPE_DATA_BINARY
	}
	panic("bad field type " + t)
}

func (v mVal) tagValue() *modelv1.TagValue {
	switch v.K {
	case "null", "":
		return pbv1.NullTagValue
	case "int":
		return &modelv1.TagValue{Value: &modelv1.TagValue_Int{Int: &modelv1.Int{Value: v.I}}}
	case "str":
		return &modelv1.TagValue{Value: &modelv1.TagValue_Str{Str: &modelv1.Str{Value: v.S}}}
	case "bin":
		return &modelv1.TagValue{Value: &modelv1.TagValue_BinaryData{BinaryData: v.B}}
	case "intarr":
		return &modelv1.TagValue{Value: &modelv1.TagValue_IntArray{IntArray: &modelv1.IntArray{Value: v.IA}}}
	case "strarr":
		return &modelv1.TagValue{Value: &modelv1.TagValue_StrArray{StrArray: &modelv1.StrArray{Value: v.SA}}}
	}
	panic("bad tag value kind " + v.K)
}

func (v mVal) fieldValue() *modelv1.FieldValue {
	switch v.K {
	case "null", "":
		return pbv1.NullFieldValue
	case "int":
		return &modelv1.FieldValue{Value: &modelv1.FieldValue_Int{Int: &modelv1.Int{Value: v.I}}}
	case "float":
		return &modelv1.FieldValue{Value: &modelv1.FieldValue_Float{Float: &modelv1.Float{Value: math.Float64frombits(v.F)}}}
	case "str":
		return &modelv1.FieldValue{Value: &modelv1.FieldValue_Str{Str: &modelv1.Str{Value: v.S}}}
	case "bin":
		return &modelv1.FieldValue{Value: &modelv1.FieldValue_BinaryData{BinaryData: v.B}}
	}
	panic("bad field value kind " + v.K)
}

// canonTag is the documented read-back form of a written tag value under a schema type:
// null, empty string, empty bytes and empty arrays read back as null; a value whose kind differs
// from the schema type of the reading query is not visible (null).
func canonTag(v mVal, readType string) string {
	if v.K != readType {
		return "null"
	}
	switch v.K {
	case "int":
		return fmt.Sprintf("int:%d", v.I)
	case "str":
		if v.S == "" {
			return "null"
		}
		return "str:" + v.S
	case "bin":
		if len(v.B) == 0 {
			return "null"
		}
		return fmt.Sprintf("bin:%x", v.B)
	case "intarr":
		if len(v.IA) == 0 {
			return "null"
		}
		return fmt.Sprintf("intarr:%v", v.IA)
	case "strarr":
		if len(v.SA) == 0 {
			return "null"
		}
		return fmt.Sprintf("strarr:%q", v.SA)
	}
	return "null"
}

func canonTagPB(tv *modelv1.TagValue) string {
	switch x := tv.GetValue().(type) {
	case nil, *modelv1.TagValue_Null:
		return "null"
	case *modelv1.TagValue_Int:
		return fmt.Sprintf("int:%d", x.Int.GetValue())
	case *modelv1.TagValue_Str:
		if x.Str.GetValue() == "" {
			return "null"
		}
		return "str:" + x.Str.GetValue()
	case *modelv1.TagValue_BinaryData:
		if len(x.BinaryData) == 0 {
			return "null"
		}
		return fmt.Sprintf("bin:%x", x.BinaryData)
	case *modelv1.TagValue_IntArray:
		if len(x.IntArray.GetValue()) == 0 {
			return "null"
		}
		return fmt.Sprintf("intarr:%v", x.IntArray.GetValue())
	case *modelv1.TagValue_StrArray:
		if len(x.StrArray.GetValue()) == 0 {
			return "null"
		}
		return fmt.Sprintf("strarr:%q", x.StrArray.GetValue())
	}
	return fmt.Sprintf("?%v", tv)
}

// canonField: a null / empty string / empty binary field reads back as the empty value of its
// type; int and float nulls stay null.
func canonField(v mVal, ftype string) string {
	if v.K != ftype {
		v = mVal{K: "null"}
	}
	switch v.K {
	case "int":
		return fmt.Sprintf("int:%d", v.I)
	case "float":
		return fmt.Sprintf("float:%016x", v.F)
	case "str":
		return "str:" + v.S
	case "bin":
		return fmt.Sprintf("bin:%x", v.B)
	}
	switch ftype {
	case "str":
		return "str:"
	case "bin":
		return "bin:"
	}
	return "null"
}

func canonFieldPB(fv *modelv1.FieldValue) string {
	switch x := fv.GetValue().(type) {
	case nil, *modelv1.FieldValue_Null:
		return "null"
	case *modelv1.FieldValue_Int:
		return fmt.Sprintf("int:%d", x.Int.GetValue())
	case *modelv1.FieldValue_Float:
		return fmt.Sprintf("float:%016x", math.Float64bits(x.Float.GetValue()))
	case *modelv1.FieldValue_Str:
		return "str:" + x.Str.GetValue()
	case *modelv1.FieldValue_BinaryData:
		return fmt.Sprintf("bin:%x", x.BinaryData)
	}
	return fmt.Sprintf("?%v", fv)
}

// toDataPoints converts rows through the engine's own protobuf->column encoders.
func toDataPoints(sc mSchema, rows []mRow) *dataPoints {
	dps := &dataPoints{}
	for _, r := range rows {
		dps.seriesIDs = append(dps.seriesIDs, common.SeriesID(r.S))
		dps.timestamps = append(dps.timestamps, tsOf(r.T))
		dps.versions = append(dps.versions, r.V)
		var tfs []nameValues
		for fi, f := range sc.Fams {
			nvs := nameValues{name: f.Name}
			for ti, tg := range f.Tags {
				tt, _ := tagTypeOf(tg.Type)
				v := mVal{K: "null"}
				if fi < len(r.Tags) && ti < len(r.Tags[fi]) {
					v = r.Tags[fi][ti]
				}
				if v.K != tg.Type {
					v = mVal{K: "null"}
				}
				nvs.values = append(nvs.values, encodeTagValue(tg.Name, tt, v.tagValue()))
			}
			tfs = append(tfs, nvs)
		}
		dps.tagFamilies = append(dps.tagFamilies, tfs)
		fl := nameValues{}
		for i, f := range sc.Fields {
			v := mVal{K: "null"}
			if i < len(r.Fields) {
				v = r.Fields[i]
			}
			if v.K != f.Type {
				v = mVal{K: "null"}
			}
			fl.values = append(fl.values, encodeFieldValue(f.Name, fieldTypeOf(f.Type), v.fieldValue()))
		}
		dps.fields = append(dps.fields, fl)
	}
	return dps
}

type l1Table struct {
	tst     *tsTable
	flushCh chan *flusherIntroduction
	mergeCh chan *mergerIntroduction
	fsys    fs.FileSystem
	dir     string
}

func openL1(dir string, fsys fs.FileSystem) *l1Table {
	initLog()
	if fsys == nil {
		fsys = fs.NewLocalFileSystem()
	}
	fsys.MkdirIfNotExist(dir, 0o755)
	tst, epoch := initTSTable(fsys, dir, common.Position{}, logger.GetLogger("verif"),
		option{flushTimeout: 0, mergePolicy: newDefaultMergePolicyForTesting(), protector: protector.Nop{}}, nil)
	tst.loopCloser = run.NewCloser(2)
	tst.introductions = make(chan *introduction)
	tb := &l1Table{tst: tst, flushCh: make(chan *flusherIntroduction), mergeCh: make(chan *mergerIntroduction), fsys: fsys, dir: dir}
	w := make(watcher.Channel, 1)
	go tst.introducerLoop(tb.flushCh, tb.mergeCh, w, epoch+1)
	return tb
}

func (tb *l1Table) close() {
	if tb.tst != nil {
		_ = tb.tst.Close()
		tb.tst = nil
	}
}

func (tb *l1Table) write(sc mSchema, rows []mRow) { tb.writeSeg(sc, rows, 0) }

func (tb *l1Table) writeSeg(sc mSchema, rows []mRow, seg int64) {
	if len(rows) == 0 {
		return
	}
	tb.tst.mustAddDataPointsWithSegmentID(toDataPoints(sc, rows), seg, nil)
}

func (tb *l1Table) flushAll() int {
	s := tb.tst.currentSnapshot()
	if s == nil {
		return 0
	}
	defer s.decRef()
	n := 0
	for _, pw := range s.parts {
		if pw.mp != nil {
			n++
		}
	}
	if n == 0 {
		return 0
	}
	tb.tst.flush(s, tb.flushCh)
	return n
}

func (tb *l1Table) mergeMem() bool {
	s := tb.tst.currentSnapshot()
	if s == nil {
		return false
	}
	defer s.decRef()
	ok, err := tb.tst.mergeMemParts(s, tb.mergeCh)
	if err != nil {
		panic(fmt.Sprintf("mergeMemParts: %v", err))
	}
	return ok
}

type partInfo struct {
	id  uint64
	mem bool
}

func (tb *l1Table) parts() []partInfo {
	s := tb.tst.currentSnapshot()
	if s == nil {
		return nil
	}
	defer s.decRef()
	var out []partInfo
	for _, pw := range s.parts {
		out = append(out, partInfo{id: pw.ID(), mem: pw.mp != nil})
	}
	return out
}

// mergeFiles merges the file parts selected by pick (indexes modulo the number of file parts,
// duplicates removed). Returns the ids merged and the new part id, or nil when fewer than two
// distinct file parts were selected.
func (tb *l1Table) mergeFiles(pick []int) ([]uint64, uint64) {
	s := tb.tst.currentSnapshot()
	if s == nil {
		return nil, 0
	}
	defer s.decRef()
	var files []*partWrapper
	for _, pw := range s.parts {
		if pw.mp == nil {
			files = append(files, pw)
		}
	}
	if len(files) < 2 || len(pick) < 2 {
		return nil, 0
	}
	ids := map[uint64]struct{}{}
	var sel []*partWrapper
	var idl []uint64
	for _, p := range pick {
		if p < 0 {
			p = -p
		}
		pw := files[p%len(files)]
		if _, dup := ids[pw.ID()]; dup {
			continue
		}
		ids[pw.ID()] = struct{}{}
		sel = append(sel, pw)
		idl = append(idl, pw.ID())
	}
	if len(sel) < 2 {
		return nil, 0
	}
	closeCh := make(chan struct{})
	defer close(closeCh)
	np, err := tb.tst.mergePartsThenSendIntroduction(snapshotCreatorMerger, sel, ids, tb.mergeCh, closeCh, "file")
	if err != nil {
		panic(fmt.Sprintf("merge: %v", err))
	}
	return idl, np.ID()
}

func (tb *l1Table) reopen() {
	tb.flushAll()
	if err := tb.tst.Close(); err != nil {
		panic(err)
	}
	n := openL1(tb.dir, tb.fsys)
	*tb = *n
}

type outRow struct {
	sid    int
	ts     int64
	ver    int64
	tags   map[string]string // family/tag -> canon
	fields map[string]string
}

func schemaTagTypes(sc mSchema) map[string]pbv1.ValueType {
	m := map[string]pbv1.ValueType{}
	for _, f := range sc.Fams {
		for _, t := range f.Tags {
			_, vt := tagTypeOf(t.Type)
			m[t.Name] = vt
		}
	}
	return m
}

// buildResult pins nothing by itself: it creates the block cursors over the given parts (the
// engine's searchBlocks step); drainResult then loads the blocks and merges them (Pull).
func buildResult(parts []*part, sc mSchema, q mQuery) (*queryResult, error) {
	var sids []common.SeriesID
	for _, s := range q.Sids {
		sids = append(sids, common.SeriesID(s))
	}
	original := append([]common.SeriesID(nil), sids...)
	sort.Slice(sids, func(i, j int) bool { return sids[i] < sids[j] })
	for _, p := range parts {
		if p.cache == nil {
			p.cache = storage.NewShardCache("g", 0, 0)
		}
	}
	ti := &tstIter{}
	minTS, maxTS := tsOf(q.MinT), tsOf(q.MaxT)
	ti.init(parts, sids, minTS, maxTS)
	if ti.Error() != nil {
		return nil, ti.Error()
	}
	result := &queryResult{}
	result.ctx = context.TODO()
	opts := queryOptions{minTimestamp: minTS, maxTimestamp: maxTS, schemaTagTypes: schemaTagTypes(sc)}
	for fi, f := range sc.Fams {
		tp := model.TagProjection{Family: f.Name}
		for ti2, t := range f.Tags {
			if q.TagMask != nil && (fi >= len(q.TagMask) || ti2 >= len(q.TagMask[fi]) || !q.TagMask[fi][ti2]) {
				continue
			}
			tp.Names = append(tp.Names, t.Name)
		}
		if len(tp.Names) > 0 {
			opts.TagProjection = append(opts.TagProjection, tp)
		}
	}
	for i, f := range sc.Fields {
		if q.FieldMask != nil && (i >= len(q.FieldMask) || !q.FieldMask[i]) {
			continue
		}
		opts.FieldProjection = append(opts.FieldProjection, f.Name)
	}
	result.tagProjection = opts.TagProjection
	for ti.nextBlock() {
		bc := generateBlockCursor()
		p := ti.piHeap[0]
		bc.init(p.p, p.curBlock, opts)
		result.data = append(result.data, bc)
	}
	if ti.Error() != nil {
		return nil, ti.Error()
	}
	result.sidToIndex = map[common.SeriesID]int{}
	for i, s := range original {
		result.sidToIndex[s] = i
	}
	switch q.Order {
	case "asc":
		result.orderByTS, result.ascTS = true, true
	case "desc":
		result.orderByTS, result.ascTS = true, false
	}
	return result, nil
}

func drainResult(result *queryResult) (rows []outRow, chunks [][]int, err error) {
	defer result.Release()
	for {
		r := result.Pull()
		if r == nil {
			break
		}
		if r.Error != nil {
			return nil, nil, r.Error
		}
		var chunk []int
		for i := range r.Timestamps {
			o := outRow{sid: int(r.SID), ts: r.Timestamps[i], ver: r.Versions[i], tags: map[string]string{}, fields: map[string]string{}}
			for _, tf := range r.TagFamilies {
				for _, tg := range tf.Tags {
					if i >= len(tg.Values) {
						return nil, nil, fmt.Errorf("tag %s/%s has %d values for %d rows", tf.Name, tg.Name, len(tg.Values), len(r.Timestamps))
					}
					o.tags[tf.Name+"/"+tg.Name] = canonTagPB(tg.Values[i])
				}
			}
			for _, f := range r.Fields {
				if i >= len(f.Values) {
					return nil, nil, fmt.Errorf("field %s has %d values for %d rows", f.Name, len(f.Values), len(r.Timestamps))
				}
				o.fields[f.Name] = canonFieldPB(f.Values[i])
			}
			chunk = append(chunk, len(rows))
			rows = append(rows, o)
		}
		chunks = append(chunks, chunk)
	}
	return rows, chunks, nil
}

// scanParts runs the engine's block iteration + queryResult merge over the given parts.
func scanParts(parts []*part, sc mSchema, q mQuery) (rows []outRow, chunks [][]int, err error) {
	result, err := buildResult(parts, sc, q)
	if err != nil {
		return nil, nil, err
	}
	return drainResult(result)
}

// openQuery is a query that has pinned its snapshot and built its cursors but not read any block.
type openQuery struct {
	result *queryResult
	snap   *snapshot
	q      mQuery
	sc     mSchema
	want   *mModel
}

func (tb *l1Table) qopen(sc mSchema, q mQuery, m *mModel) (*openQuery, error) {
	s := tb.tst.currentSnapshot()
	if s == nil {
		return nil, nil
	}
	pp, _ := s.getParts(nil, storage.NewShardCache("g", 0, 0), tsOf(q.MinT), tsOf(q.MaxT))
	r, err := buildResult(pp, sc, q)
	if err != nil {
		s.decRef()
		return nil, err
	}
	return &openQuery{result: r, snap: s, q: q, sc: sc, want: m.clone()}, nil
}

func (oq *openQuery) drain() ([]outRow, [][]int, error) {
	defer oq.snap.decRef()
	return drainResult(oq.result)
}

func (m *mModel) clone() *mModel {
	c := newModel()
	for k, e := range m.data {
		c.data[k] = &modelEntry{ver: e.ver, rows: append([]modelRow(nil), e.rows...)}
	}
	return c
}

func (tb *l1Table) query(sc mSchema, q mQuery) ([]outRow, [][]int, error) {
	s := tb.tst.currentSnapshot()
	if s == nil {
		return nil, nil, nil
	}
	defer s.decRef()
	pp, _ := s.getParts(nil, storage.NewShardCache("g", 0, 0), tsOf(q.MinT), tsOf(q.MaxT))
	return scanParts(pp, sc, q)
}

// ---------------------------------------------------------------------------------------------
// reference model
// ---------------------------------------------------------------------------------------------

type modelKey struct {
	sid int
	t   int64
}

type modelEntry struct {
	ver  int64
	rows []modelRow // all written rows carrying the maximal version (a tie admits any of them)
}

type modelRow struct {
	row     mRow
	variant int
}

type mModel struct {
	data map[modelKey]*modelEntry
	all  map[modelKey][]modelRow // every acknowledged row, whatever its version
}

func newModel() *mModel {
	return &mModel{data: map[modelKey]*modelEntry{}, all: map[modelKey][]modelRow{}}
}

// wrote reports whether some acknowledged row for (sid, t) at exactly version ver reads back, under
// schema variant v with the full projection, as the given rendering.
func (m *mModel) wrote(schemas []mSchema, v, sid int, t, ver int64, rendering string) bool {
	for _, mr := range m.all[modelKey{sid, t}] {
		if mr.row.V != ver {
			continue
		}
		tags, fields := expectRow(mr, schemas[mr.variant%len(schemas)], schemas[v%len(schemas)], mQuery{})
		if sortedKV(tags)+"| "+sortedKV(fields) == rendering {
			return true
		}
	}
	return false
}

func (m *mModel) add(rows []mRow, variant int) {
	for _, r := range rows {
		k := modelKey{r.S, r.T}
		m.all[k] = append(m.all[k], modelRow{r, variant})
		e := m.data[k]
		switch {
		case e == nil:
			m.data[k] = &modelEntry{ver: r.V, rows: []modelRow{{r, variant}}}
		case r.V > e.ver:
			e.ver, e.rows = r.V, []modelRow{{r, variant}}
		case r.V == e.ver:
			e.rows = append(e.rows, modelRow{r, variant})
		}
	}
}

// expectRow renders a candidate winner as it must read back under schema `read` and query q,
// where `wrote` is the schema variant the row was written with.
func expectRow(mr modelRow, wrote, read mSchema, q mQuery) (map[string]string, map[string]string) {
	tags, fields := map[string]string{}, map[string]string{}
	for fi, f := range read.Fams {
		for ti, t := range f.Tags {
			if q.TagMask != nil && (fi >= len(q.TagMask) || ti >= len(q.TagMask[fi]) || !q.TagMask[fi][ti]) {
				continue
			}
			v := mVal{K: "null"}
			if fi < len(mr.row.Tags) && ti < len(mr.row.Tags[fi]) {
				v = mr.row.Tags[fi][ti]
			}
			// a value is stored only if its kind matched the type of the schema it was written with
			if fi < len(wrote.Fams) && ti < len(wrote.Fams[fi].Tags) && v.K != wrote.Fams[fi].Tags[ti].Type {
				v = mVal{K: "null"}
			}
			tags[f.Name+"/"+t.Name] = canonTag(v, t.Type)
		}
	}
	for i, f := range read.Fields {
		if q.FieldMask != nil && (i >= len(q.FieldMask) || !q.FieldMask[i]) {
			continue
		}
		v := mVal{K: "null"}
		if i < len(mr.row.Fields) {
			v = mr.row.Fields[i]
		}
		fields[f.Name] = canonField(v, f.Type)
	}
	return tags, fields
}

func sameMap(a, b map[string]string) bool {
	if len(a) != len(b) {
		return false
	}
	for k, v := range a {
		if b[k] != v {
			return false
		}
	}
	return true
}

// compare checks a query result against the model: exactly the model's keys in range, one row per
// key, the row being one of the maximal-version candidates, every projected value identical.
func (m *mModel) compare(got []outRow, schemas []mSchema, q mQuery) error {
	read := schemas[q.Variant%len(schemas)]
	want := map[modelKey]*modelEntry{}
	inSids := map[int]bool{}
	for _, s := range q.Sids {
		inSids[s] = true
	}
	for k, e := range m.data {
		if inSids[k.sid] && k.t >= q.MinT && k.t <= q.MaxT {
			want[k] = e
		}
	}
	seen := map[modelKey]bool{}
	for _, g := range got {
		t := g.ts/nanosPerMs - baseMillis
		if g.ts%nanosPerMs != 0 {
			return fmt.Errorf("returned timestamp %d was never written", g.ts)
		}
		k := modelKey{g.sid, t}
		e := want[k]
		if e == nil {
			return fmt.Errorf("returned a row that was not written or is outside the query: series %d t=%d version %d", g.sid, t, g.ver)
		}
		if seen[k] {
			return fmt.Errorf("two rows returned for series %d t=%d", g.sid, t)
		}
		seen[k] = true
		if g.ver != e.ver {
			return fmt.Errorf("series %d t=%d: returned version %d, highest written version is %d", g.sid, t, g.ver, e.ver)
		}
		ok := false
		var firstTags, firstFields map[string]string
		for _, cand := range e.rows {
			tags, fields := expectRow(cand, schemas[cand.variant%len(schemas)], read, q)
			if firstTags == nil {
				firstTags, firstFields = tags, fields
			}
			if sameMap(tags, g.tags) && sameMap(fields, g.fields) {
				ok = true
				break
			}
		}
		if !ok {
			return fmt.Errorf("series %d t=%d version %d: returned tags %v fields %v, written %v %v (%d candidate(s))",
				g.sid, t, g.ver, sortedKV(g.tags), sortedKV(g.fields), sortedKV(firstTags), sortedKV(firstFields), len(e.rows))
		}
	}
	for k := range want {
		if !seen[k] {
			return fmt.Errorf("acknowledged row missing from the result: series %d t=%d (version %d)", k.sid, k.t, want[k].ver)
		}
	}
	return nil
}

func sortedKV(m map[string]string) string {
	var ks []string
	for k := range m {
		ks = append(ks, k)
	}
	sort.Strings(ks)
	var sb strings.Builder
	for _, k := range ks {
		fmt.Fprintf(&sb, "%s=%s ", k, m[k])
	}
	return sb.String()
}

// checkOrder verifies the documented result order of one scan.
func checkOrder(got []outRow, chunks [][]int, q mQuery) error {
	switch q.Order {
	case "asc", "desc":
		for _, ch := range chunks {
			for i := 1; i < len(ch); i++ {
				a, b := got[ch[i-1]], got[ch[i]]
				if a.sid != b.sid {
					return fmt.Errorf("one result chunk mixes series %d and %d", a.sid, b.sid)
				}
				if (q.Order == "asc" && a.ts >= b.ts) || (q.Order == "desc" && a.ts <= b.ts) {
					return fmt.Errorf("chunk of series %d not in %s timestamp order: %d then %d", a.sid, q.Order, a.ts, b.ts)
				}
			}
		}
	default:
		pos := map[int]int{}
		for i, s := range q.Sids {
			if _, ok := pos[s]; !ok {
				pos[s] = i
			}
		}
		for i := 1; i < len(got); i++ {
			a, b := got[i-1], got[i]
			if pos[a.sid] > pos[b.sid] || (a.sid == b.sid && a.ts >= b.ts) {
				return fmt.Errorf("result not ordered by (requested series order, timestamp): series %d t=%d before series %d t=%d", a.sid, a.ts, b.sid, b.ts)
			}
		}
	}
	return nil
}

// partInvariants loads every block of a part through the merge reader and checks the block and
// part metadata against the data.
func partInvariants(p *part) error {
	pmi := generatePartMergeIter()
	defer releasePartMergeIter(pmi)
	pmi.mustInitFromPart(p)
	br := generateBlockReader()
	defer releaseBlockReader(br)
	br.init([]*partMergeIter{pmi})
	dec := generateColumnValuesDecoder()
	defer releaseColumnValuesDecoder(dec)
	var total, blocks uint64
	minTS, maxTS := int64(math.MaxInt64), int64(math.MinInt64)
	var lastSid common.SeriesID
	for br.nextBlockMetadata() {
		br.loadBlockData(dec)
		b := br.block
		n := len(b.timestamps)
		if n == 0 {
			return fmt.Errorf("part %d: empty block for series %d", p.partMetadata.ID, b.bm.seriesID)
		}
		if uint64(n) != b.bm.count {
			return fmt.Errorf("part %d series %d: block metadata count %d, data has %d rows", p.partMetadata.ID, b.bm.seriesID, b.bm.count, n)
		}
		if n > maxBlockLength+1 {
			return fmt.Errorf("part %d series %d: block of %d rows exceeds the %d-row limit", p.partMetadata.ID, b.bm.seriesID, n, maxBlockLength)
		}
		for i := 1; i < n; i++ {
			if b.timestamps[i] <= b.timestamps[i-1] {
				return fmt.Errorf("part %d series %d: timestamps not strictly increasing inside a block (%d then %d)", p.partMetadata.ID, b.bm.seriesID, b.timestamps[i-1], b.timestamps[i])
			}
		}
		if b.bm.timestamps.min != b.timestamps[0] || b.bm.timestamps.max != b.timestamps[n-1] {
			return fmt.Errorf("part %d series %d: block metadata range [%d,%d], data range [%d,%d]", p.partMetadata.ID, b.bm.seriesID,
				b.bm.timestamps.min, b.bm.timestamps.max, b.timestamps[0], b.timestamps[n-1])
		}
		if len(b.versions) != n {
			return fmt.Errorf("part %d series %d: %d versions for %d rows", p.partMetadata.ID, b.bm.seriesID, len(b.versions), n)
		}
		if b.bm.seriesID < lastSid {
			return fmt.Errorf("part %d: blocks not ordered by series (%d after %d)", p.partMetadata.ID, b.bm.seriesID, lastSid)
		}
		// Note: consecutive blocks of one series may overlap in time after a merge that splits an
		// over-long block (the reader merges cursors and resolves versions), so overlap is not asserted.
		lastSid = b.bm.seriesID
		total += uint64(n)
		blocks++
		if b.timestamps[0] < minTS {
			minTS = b.timestamps[0]
		}
		if b.timestamps[n-1] > maxTS {
			maxTS = b.timestamps[n-1]
		}
	}
	if err := br.error(); err != nil {
		return fmt.Errorf("part %d: %v", p.partMetadata.ID, err)
	}
	pm := p.partMetadata
	if pm.TotalCount != total || pm.BlocksCount != blocks {
		return fmt.Errorf("part %d: metadata says %d rows in %d blocks, data has %d rows in %d blocks", pm.ID, pm.TotalCount, pm.BlocksCount, total, blocks)
	}
	if total > 0 && (pm.MinTimestamp != minTS || pm.MaxTimestamp != maxTS) {
		return fmt.Errorf("part %d: metadata time range [%d,%d], data time range [%d,%d]", pm.ID, pm.MinTimestamp, pm.MaxTimestamp, minTS, maxTS)
	}
	return nil
}

func (tb *l1Table) allPartInvariants() error {
	s := tb.tst.currentSnapshot()
	if s == nil {
		return nil
	}
	defer s.decRef()
	for _, pw := range s.parts {
		if err := partInvariants(pw.p); err != nil {
			return err
		}
	}
	return nil
}

// memRuns returns the runs of consecutive memory parts of one segment in snapshot order (the groups a
// memory-part merge round handles one by one).
func (tb *l1Table) memRuns() [][]uint64 {
	s := tb.tst.currentSnapshot()
	if s == nil {
		return nil
	}
	defer s.decRef()
	var runs [][]uint64
	var last int64
	for _, pw := range s.parts {
		if pw.mp == nil {
			continue
		}
		if len(runs) == 0 || pw.mp.segmentID != last {
			runs = append(runs, nil)
			last = pw.mp.segmentID
		}
		runs[len(runs)-1] = append(runs[len(runs)-1], pw.ID())
	}
	return runs
}

func (tb *l1Table) memGroupsMerged() error {
	s := tb.tst.currentSnapshot()
	if s == nil {
		return nil
	}
	defer s.decRef()
	perSeg := map[int64][]uint64{}
	for _, pw := range s.parts {
		if pw.mp != nil {
			perSeg[pw.mp.segmentID] = append(perSeg[pw.mp.segmentID], pw.ID())
		}
	}
	for seg, ids := range perSeg {
		if len(ids) >= 2 {
			return fmt.Errorf("after merging memory parts, memory parts %v of segment %d are still in the snapshot next to the merged part", ids, seg)
		}
	}
	return nil
}

// boundarySeries returns the last series of the first primary block of the part with the most
// primary blocks (0 if no part has two).
func (tb *l1Table) boundarySeries() int {
	s := tb.tst.currentSnapshot()
	if s == nil {
		return 0
	}
	defer s.decRef()
	best := 0
	for _, pw := range s.parts {
		if n := len(pw.p.primaryBlockMetadata); n >= 2 && n > best {
			best = n
			first := int(pw.p.primaryBlockMetadata[1].seriesID)
			return first - 1
		}
	}
	return 0
}

func (tb *l1Table) primaryBlocks() int {
	s := tb.tst.currentSnapshot()
	if s == nil {
		return 0
	}
	defer s.decRef()
	mx := 0
	for _, pw := range s.parts {
		if n := len(pw.p.primaryBlockMetadata); n > mx {
			mx = n
		}
	}
	return mx
}

var _ = bytes.Equal
