package measure_test

import (
	"context"
	"fmt"
	"os"
	"runtime/debug"
	"sort"
	"strings"
	"testing"
	"time"

	"google.golang.org/protobuf/proto"
	"google.golang.org/protobuf/types/known/timestamppb"
	"pgregory.net/rapid"

	commonv1 "github.com/apache/skywalking-banyandb/api/proto/banyandb/common/v1"
	databasev1 "github.com/apache/skywalking-banyandb/api/proto/banyandb/database/v1"
	measurev1 "github.com/apache/skywalking-banyandb/api/proto/banyandb/measure/v1"
	modelv1 "github.com/apache/skywalking-banyandb/api/proto/banyandb/model/v1"
	"github.com/apache/skywalking-banyandb/banyand/measure"
	"github.com/apache/skywalking-banyandb/pkg/query/executor"
	"github.com/apache/skywalking-banyandb/pkg/query/logical"
	logicalmeasure "github.com/apache/skywalking-banyandb/pkg/query/logical/measure"
	vmeasure "github.com/apache/skywalking-banyandb/pkg/query/vectorized/measure"
	vecplan "github.com/apache/skywalking-banyandb/pkg/query/vectorized/measure/plan"
	"github.com/apache/skywalking-banyandb/verifkit"
)

const (
	meGroup = "verif-mg"
	meName  = "verif-mm"
)

func tsOf(t int64) int64 { return measure.VerifTsOf(t) }

type meEnv struct{ *measure.VerifEnv }

func newMeEnv() (*meEnv, error) {
	e, err := measure.VerifNewEnv(meSchema(), meRules())
	if err != nil {
		return nil, err
	}
	return &meEnv{e}, nil
}

type meRow struct {
	Svc    int   `json:"svc"`
	T      int64 `json:"t"` // ms offset
	V      int64 `json:"v"`
	VNull  bool  `json:"v_null,omitempty"`
	FQ     int64 `json:"fq"` // fval = fq/4
	FNull  bool  `json:"f_null,omitempty"`
	Extra  int64 `json:"extra"` // non-indexed int tag
	ExNull bool  `json:"extra_null,omitempty"`
	// Ver is the version of the data point (0 = 1). A (series, timestamp) may be written again with another version: the
	// highest version is the stored point.
	Ver int64 `json:"ver,omitempty"`
}

func (r meRow) version() int64 {
	if r.Ver <= 0 {
		return 1
	}
	return r.Ver
}

// meLatest keeps, per (series, timestamp), the row with the highest version.
func meLatest(rows []meRow) []meRow {
	best := map[[2]int64]int{}
	var out []meRow
	for _, r := range rows {
		k := [2]int64{int64(r.Svc), r.T}
		if i, ok := best[k]; ok {
			if r.version() > out[i].version() {
				out[i] = r
			}
			continue
		}
		best[k] = len(out)
		out = append(out, r)
	}
	return out
}

// region and zone are indexed tags: they are stored per series, so they are functions of the series.
func meRegion(svc int) string { return fmt.Sprintf("r%d", svc%3) }
func meZone(svc int) int64    { return int64(svc % 2) }

func meSchema() *databasev1.Measure {
	return &databasev1.Measure{
		Metadata: &commonv1.Metadata{Name: meName, Group: meGroup},
		TagFamilies: []*databasev1.TagFamilySpec{{Name: "default", Tags: []*databasev1.TagSpec{
			{Name: "svc", Type: databasev1.TagType_TAG_TYPE_STRING}, {Name: "region", Type: databasev1.TagType_TAG_TYPE_STRING},
			{Name: "zone", Type: databasev1.TagType_TAG_TYPE_INT}, {Name: "extra", Type: databasev1.TagType_TAG_TYPE_INT},
		}}},
		Fields: []*databasev1.FieldSpec{
			{Name: "value", FieldType: databasev1.FieldType_FIELD_TYPE_INT, EncodingMethod: databasev1.EncodingMethod_ENCODING_METHOD_GORILLA, CompressionMethod: databasev1.CompressionMethod_COMPRESSION_METHOD_ZSTD},
			{Name: "fval", FieldType: databasev1.FieldType_FIELD_TYPE_FLOAT, EncodingMethod: databasev1.EncodingMethod_ENCODING_METHOD_GORILLA, CompressionMethod: databasev1.CompressionMethod_COMPRESSION_METHOD_ZSTD},
		},
		Entity:   &databasev1.Entity{TagNames: []string{"svc"}},
		Interval: "1ms",
	}
}

func meRules() []*databasev1.IndexRule {
	return []*databasev1.IndexRule{
		{Metadata: &commonv1.Metadata{Name: "idx-region", Group: meGroup, Id: 1}, Tags: []string{"region"}, Type: databasev1.IndexRule_TYPE_INVERTED},
		{Metadata: &commonv1.Metadata{Name: "idx-zone", Group: meGroup, Id: 2}, Tags: []string{"zone"}, Type: databasev1.IndexRule_TYPE_INVERTED},
	}
}

func meSvc(i int) string { return fmt.Sprintf("svc-%d", i) }

func meStrTV(s string) *modelv1.TagValue {
	return &modelv1.TagValue{Value: &modelv1.TagValue_Str{Str: &modelv1.Str{Value: s}}}
}

func meIntTV(i int64) *modelv1.TagValue {
	return &modelv1.TagValue{Value: &modelv1.TagValue_Int{Int: &modelv1.Int{Value: i}}}
}

var meNullTV = &modelv1.TagValue{Value: &modelv1.TagValue_Null{}}

func (e *meEnv) write(batch []meRow) {
	if len(batch) == 0 {
		return
	}
	events := make([]any, 0, len(batch))
	for i, r := range batch {
		extra := meNullTV
		if !r.ExNull {
			extra = meIntTV(r.Extra)
		}
		fields := []*modelv1.FieldValue{{Value: &modelv1.FieldValue_Null{}}, {Value: &modelv1.FieldValue_Null{}}}
		if !r.VNull {
			fields[0] = &modelv1.FieldValue{Value: &modelv1.FieldValue_Int{Int: &modelv1.Int{Value: r.V}}}
		}
		if !r.FNull {
			fields[1] = &modelv1.FieldValue{Value: &modelv1.FieldValue_Float{Float: &modelv1.Float{Value: float64(r.FQ) / 4}}}
		}
		msgID++
		req := &measurev1.WriteRequest{
			DataPoint: &measurev1.DataPointValue{
				Timestamp:   timestamppb.New(time.Unix(0, tsOf(r.T))),
				TagFamilies: []*modelv1.TagFamilyForWrite{{Tags: []*modelv1.TagValue{meStrTV(meSvc(r.Svc)), meStrTV(meRegion(r.Svc)), meIntTV(meZone(r.Svc)), extra}}},
				Fields:      fields, Version: r.version(),
			},
			MessageId: msgID,
		}
		if i == 0 {
			req.Metadata = &commonv1.Metadata{Name: meName, Group: meGroup}
		}
		events = append(events, &measurev1.InternalWriteRequest{ShardId: 0, EntityValues: []*modelv1.TagValue{meStrTV(meSvc(r.Svc))}, Request: req})
	}
	e.VerifWrite(events)
}

var msgID uint64

// ---- requests ----

type meQuery struct {
	Tags     []string `json:"tags"`
	Fields   []string `json:"fields"`
	GroupBy  []string `json:"group_by,omitempty"`
	Fn       string   `json:"fn,omitempty"`
	AggField string   `json:"agg_field,omitempty"`
	TopN     int      `json:"top_n,omitempty"`
	TopDesc  bool     `json:"top_desc,omitempty"`
	TopField string   `json:"top_field,omitempty"`
	Limit    int      `json:"limit"`
	Offset   int      `json:"offset"`
	Svcs     []int    `json:"svcs,omitempty"`
	Region   string   `json:"region,omitempty"`    // criteria region = x
	RegionNe bool     `json:"region_ne,omitempty"` // ... or region != x
	ZoneCmp  string   `json:"zone_cmp,omitempty"`  // eq | ge | lt on zone
	Zone     int64    `json:"zone,omitempty"`
	Order    string   `json:"order,omitempty"` // "" | asc | desc (by time)
	From     int64    `json:"from"`
	To       int64    `json:"to"`
	Batch    int      `json:"batch"`
}

var meFn = map[string]modelv1.AggregationFunction{
	"SUM": modelv1.AggregationFunction_AGGREGATION_FUNCTION_SUM, "COUNT": modelv1.AggregationFunction_AGGREGATION_FUNCTION_COUNT,
	"MIN": modelv1.AggregationFunction_AGGREGATION_FUNCTION_MIN, "MAX": modelv1.AggregationFunction_AGGREGATION_FUNCTION_MAX,
	"MEAN": modelv1.AggregationFunction_AGGREGATION_FUNCTION_MEAN,
}

func meCond(name string, op modelv1.Condition_BinaryOp, v *modelv1.TagValue) *modelv1.Criteria {
	return &modelv1.Criteria{Exp: &modelv1.Criteria_Condition{Condition: &modelv1.Condition{Name: name, Op: op, Value: v}}}
}

func meAnd(a, b *modelv1.Criteria) *modelv1.Criteria {
	if a == nil {
		return b
	}
	if b == nil {
		return a
	}
	return &modelv1.Criteria{Exp: &modelv1.Criteria_Le{Le: &modelv1.LogicalExpression{Op: modelv1.LogicalExpression_LOGICAL_OP_AND, Left: a, Right: b}}}
}

func (q meQuery) request() *measurev1.QueryRequest {
	req := &measurev1.QueryRequest{
		Groups: []string{meGroup}, Name: meName,
		TimeRange: &modelv1.TimeRange{Begin: timestamppb.New(time.Unix(0, tsOf(q.From))), End: timestamppb.New(time.Unix(0, tsOf(q.To)))},
		Limit:     uint32(q.Limit), Offset: uint32(q.Offset),
	}
	if len(q.Tags) > 0 {
		req.TagProjection = &modelv1.TagProjection{TagFamilies: []*modelv1.TagProjection_TagFamily{{Name: "default", Tags: q.Tags}}}
	}
	if len(q.Fields) > 0 {
		req.FieldProjection = &measurev1.QueryRequest_FieldProjection{Names: q.Fields}
	}
	if len(q.GroupBy) > 0 {
		req.GroupBy = &measurev1.QueryRequest_GroupBy{
			TagProjection: &modelv1.TagProjection{TagFamilies: []*modelv1.TagProjection_TagFamily{{Name: "default", Tags: q.GroupBy}}},
			FieldName:     q.AggField,
		}
	}
	if q.Fn != "" {
		req.Agg = &measurev1.QueryRequest_Aggregation{Function: meFn[q.Fn], FieldName: q.AggField}
	}
	if q.TopN > 0 {
		srt := modelv1.Sort_SORT_ASC
		if q.TopDesc {
			srt = modelv1.Sort_SORT_DESC
		}
		req.Top = &measurev1.QueryRequest_Top{Number: int32(q.TopN), FieldName: q.TopField, FieldValueSort: srt}
	}
	var crit *modelv1.Criteria
	switch len(q.Svcs) {
	case 0:
	case 1:
		crit = meCond("svc", modelv1.Condition_BINARY_OP_EQ, meStrTV(meSvc(q.Svcs[0])))
	default:
		var names []string
		for _, s := range q.Svcs {
			names = append(names, meSvc(s))
		}
		crit = meCond("svc", modelv1.Condition_BINARY_OP_IN, &modelv1.TagValue{Value: &modelv1.TagValue_StrArray{StrArray: &modelv1.StrArray{Value: names}}})
	}
	if q.Region != "" {
		op := modelv1.Condition_BINARY_OP_EQ
		if q.RegionNe {
			op = modelv1.Condition_BINARY_OP_NE
		}
		crit = meAnd(crit, meCond("region", op, meStrTV(q.Region)))
	}
	switch q.ZoneCmp {
	case "eq":
		crit = meAnd(crit, meCond("zone", modelv1.Condition_BINARY_OP_EQ, meIntTV(q.Zone)))
	case "ge":
		crit = meAnd(crit, meCond("zone", modelv1.Condition_BINARY_OP_GE, meIntTV(q.Zone)))
	case "lt":
		crit = meAnd(crit, meCond("zone", modelv1.Condition_BINARY_OP_LT, meIntTV(q.Zone)))
	}
	req.Criteria = crit
	switch q.Order {
	case "asc":
		req.OrderBy = &modelv1.QueryOrder{Sort: modelv1.Sort_SORT_ASC}
	case "desc":
		req.OrderBy = &modelv1.QueryOrder{Sort: modelv1.Sort_SORT_DESC}
	}
	return req
}

func meStack() string {
	var keep []string
	for _, l := range strings.Split(string(debug.Stack()), "\n") {
		if strings.Contains(l, "skywalking-banyandb/") && !strings.Contains(l, "zz_verif") {
			keep = append(keep, strings.TrimSpace(l))
		}
		if len(keep) >= 12 {
			break
		}
	}
	return strings.Join(keep, "\n")
}

type meOut struct {
	raw    string // deterministic serialisation of the internal data point
	text   string
	fields []*measurev1.DataPoint_Field
	dp     *measurev1.DataPoint
}

func meCollect(it executor.MIterator) (out []meOut) {
	for it.Next() {
		cur := it.Current()
		if len(cur) > 0 {
			raw, _ := proto.MarshalOptions{Deterministic: true}.Marshal(cur[0])
			out = append(out, meOut{raw: fmt.Sprintf("%x", raw), text: fmt.Sprint(cur[0]), fields: cur[0].GetDataPoint().GetFields(), dp: cur[0].GetDataPoint()})
		}
	}
	return out
}

func (e *meEnv) planInputs() (*commonv1.Metadata, logical.Schema, error) {
	md := &commonv1.Metadata{Name: meName, Group: meGroup}
	sch, err := logicalmeasure.BuildSchema(e.VerifMeasure().GetSchema(), e.VerifMeasure().GetIndexRules())
	return md, sch, err
}

// queryRow: flag off, the row plan.
func (e *meEnv) queryRow(q meQuery) (out []meOut, err error) {
	defer func() {
		if r := recover(); r != nil {
			err = fmt.Errorf("panic: %v\n%s", r, meStack())
		}
	}()
	e.VerifSetVectorized(vmeasure.VectorizedConfig{})
	md, sch, err := e.planInputs()
	if err != nil {
		return nil, err
	}
	plan, err := logicalmeasure.Analyze(q.request(), []*commonv1.Metadata{md}, []logical.Schema{sch}, []executor.MeasureExecutionContext{e.VerifMeasure()}, false)
	if err != nil {
		return nil, fmt.Errorf("analyze: %w", err)
	}
	if os.Getenv("VERIF_DEBUG") != "" {
		fmt.Printf("DEBUG plan: %s\n", plan.String())
	}
	it, err := plan.(executor.MeasureExecutable).Execute(context.Background())
	if err != nil {
		return nil, fmt.Errorf("execute: %w", err)
	}
	out = meCollect(it)
	if cerr := it.Close(); cerr != nil {
		return nil, fmt.Errorf("iterator: %w", cerr)
	}
	return out, nil
}

// queryVec: flag on, the columnar plan as the processor dispatches it.
func (e *meEnv) queryVec(q meQuery) (out []meOut, err error) {
	defer func() {
		if r := recover(); r != nil {
			err = fmt.Errorf("panic: %v\n%s", r, meStack())
		}
	}()
	cfg := vmeasure.DefaultConfig()
	cfg.BatchSize = q.Batch
	e.VerifSetVectorized(cfg)
	defer e.VerifSetVectorized(vmeasure.VectorizedConfig{})
	md, sch, err := e.planInputs()
	if err != nil {
		return nil, err
	}
	it, _, handled, err := vecplan.Dispatch(context.Background(), q.request(), md, e.VerifMeasure().GetSchema(), sch, e.VerifMeasure(), cfg, false, false)
	if err != nil {
		return nil, err
	}
	if !handled {
		return nil, fmt.Errorf("dispatch declined the request with the flag on")
	}
	out = meCollect(it)
	if cerr := it.Close(); cerr != nil {
		return nil, fmt.Errorf("iterator: %w", cerr)
	}
	return out, nil
}

// ---- case, model, check ----

type meOp struct {
	Kind  string   `json:"kind"` // write | flush | merge | query
	Rows  []meRow  `json:"rows,omitempty"`
	Pick  []int    `json:"pick,omitempty"`
	Query *meQuery `json:"query,omitempty"`
}

type meCase struct {
	Ops []meOp `json:"ops"`
}

func (c meCase) rows() (all []meRow) {
	for _, op := range c.Ops {
		all = append(all, op.Rows...)
	}
	return
}

func meFieldOf(fields []*measurev1.DataPoint_Field, name string) string {
	for _, f := range fields {
		if f.GetName() == name {
			raw, _ := proto.MarshalOptions{Deterministic: true}.Marshal(f.GetValue())
			return fmt.Sprintf("%x", raw)
		}
	}
	return "<absent>"
}

// meMatches is the reference selection of a raw (no group-by / aggregation / top) query.
func (q meQuery) matches(r meRow) bool {
	if r.T < q.From || r.T > q.To {
		return false
	}
	if len(q.Svcs) > 0 {
		ok := false
		for _, s := range q.Svcs {
			if s == r.Svc {
				ok = true
			}
		}
		if !ok {
			return false
		}
	}
	if q.Region != "" && (meRegion(r.Svc) == q.Region) == q.RegionNe {
		return false
	}
	switch q.ZoneCmp {
	case "eq":
		return meZone(r.Svc) == q.Zone
	case "ge":
		return meZone(r.Svc) >= q.Zone
	case "lt":
		return meZone(r.Svc) < q.Zone
	}
	return true
}

// renderRow renders a written row under the query's projection the way renderDP renders a returned one.
func (q meQuery) renderRow(r meRow) string {
	var parts []string
	for _, tg := range q.Tags {
		switch tg {
		case "svc":
			parts = append(parts, "svc=str:"+meSvc(r.Svc))
		case "region":
			parts = append(parts, "region=str:"+meRegion(r.Svc))
		case "zone":
			parts = append(parts, fmt.Sprintf("zone=int:%d", meZone(r.Svc)))
		case "extra":
			if r.ExNull {
				parts = append(parts, "extra=null")
			} else {
				parts = append(parts, fmt.Sprintf("extra=int:%d", r.Extra))
			}
		}
	}
	for _, f := range q.Fields {
		switch f {
		case "value":
			if r.VNull {
				parts = append(parts, "value=null")
			} else {
				parts = append(parts, fmt.Sprintf("value=int:%d", r.V))
			}
		case "fval":
			if r.FNull {
				parts = append(parts, "fval=null")
			} else {
				parts = append(parts, fmt.Sprintf("fval=float:%v", float64(r.FQ)/4))
			}
		}
	}
	return fmt.Sprintf("@%d ", tsOf(r.T)) + strings.Join(parts, " ")
}

func meRenderDP(dp *measurev1.DataPoint) string {
	var parts []string
	for _, tf := range dp.GetTagFamilies() {
		for _, tg := range tf.GetTags() {
			switch x := tg.GetValue().GetValue().(type) {
			case *modelv1.TagValue_Str:
				parts = append(parts, tg.GetKey()+"=str:"+x.Str.GetValue())
			case *modelv1.TagValue_Int:
				parts = append(parts, fmt.Sprintf("%s=int:%d", tg.GetKey(), x.Int.GetValue()))
			default:
				parts = append(parts, tg.GetKey()+"=null")
			}
		}
	}
	for _, f := range dp.GetFields() {
		switch x := f.GetValue().GetValue().(type) {
		case *modelv1.FieldValue_Int:
			parts = append(parts, fmt.Sprintf("%s=int:%d", f.GetName(), x.Int.GetValue()))
		case *modelv1.FieldValue_Float:
			parts = append(parts, fmt.Sprintf("%s=float:%v", f.GetName(), x.Float.GetValue()))
		default:
			parts = append(parts, f.GetName()+"=null")
		}
	}
	return fmt.Sprintf("@%d ", dp.GetTimestamp().AsTime().UnixNano()) + strings.Join(parts, " ")
}

type meStats struct {
	flushes, merges, queries int
	rawExact, aggExact       int
	grouped, topped, cut     bool
	afterFlush               bool
	multiBatchVec            bool
	ties                     bool
	bothReject               bool
	indexedCrit              bool
}

func runMeasureEngine(x *verifkit.Ctx, c meCase) (meStats, error) {
	var st meStats
	e, err := newMeEnv()
	if err != nil {
		return st, err
	}
	defer e.VerifClose()
	var all []meRow
	for i, op := range c.Ops {
		what := fmt.Sprintf("op %d (%s)", i, op.Kind)
		switch op.Kind {
		case "write":
			e.write(op.Rows)
			all = meLatest(append(all, op.Rows...))
		case "flush":
			if e.VerifFlushAll() > 0 {
				st.flushes++
			}
		case "merge":
			n, merr := e.VerifMergeFiles(op.Pick)
			if merr != nil {
				return st, fmt.Errorf("%s: merge failed: %v", what, merr)
			}
			if n > 0 {
				st.merges++
			}
		case "query":
			q := *op.Query
			st.queries++
			rowOut, rowErr := e.queryRow(q)
			vecOut, vecErr := e.queryVec(q)
			if (rowErr != nil) != (vecErr != nil) {
				return st, fmt.Errorf("%s: row plan error = %v, columnar plan error = %v (query %+v)", what, rowErr, vecErr, q)
			}
			if rowErr != nil {
				st.bothReject = true
				continue
			}
			if len(rowOut) != len(vecOut) {
				return st, fmt.Errorf("%s: row plan returned %d data points, columnar plan %d (query %+v)\nrow: %v\nvec: %v", what, len(rowOut), len(vecOut), q, meTexts(rowOut), meTexts(vecOut))
			}
			if len(q.GroupBy) > 0 && q.TopN == 0 && x.KnownActive("vec-group-order") {
				// known finding: the two plans emit the groups in different orders (and pick different representatives
				// of a group without aggregation); while it is listed the groups are compared as a multiset
				key := func(o meOut) string {
					var parts []string
					if q.Fn != "" {
						parts = append(parts, meFieldOf(o.fields, q.AggField))
					}
					for _, tf := range o.dp.GetTagFamilies() {
						for _, tg := range tf.GetTags() {
							for _, g := range q.GroupBy {
								if g == tg.GetKey() {
									parts = append(parts, tg.GetKey()+"="+fmt.Sprint(tg.GetValue()))
								}
							}
						}
					}
					return strings.Join(parts, " ")
				}
				var a, b []string
				for k := range rowOut {
					a, b = append(a, key(rowOut[k])), append(b, key(vecOut[k]))
				}
				sort.Strings(a)
				sort.Strings(b)
				if strings.Join(a, "\n") != strings.Join(b, "\n") {
					return st, fmt.Errorf("%s: grouped responses differ as multisets (query %+v)\nrow: %v\nvec: %v", what, q, meTexts(rowOut), meTexts(vecOut))
				}
				x.KnownExcluded("vec-group-order")
			} else {
				for k := range rowOut {
					if rowOut[k].raw == vecOut[k].raw {
						continue
					}
					if q.TopN > 0 && meFieldOf(rowOut[k].fields, q.TopField) == meFieldOf(vecOut[k].fields, q.TopField) {
						st.ties = true // equal top-N keys: the choice among them is open
						continue
					}
					return st, fmt.Errorf("%s: data point %d differs (query %+v)\nrow: %s\nvec: %s", what, k, q, rowOut[k].text, vecOut[k].text)
				}
			}
			// reference for raw queries whose window does not cut: exactly the written rows that match
			if len(q.GroupBy) == 0 && q.Fn == "" && q.TopN == 0 {
				var want []string
				for _, r := range all {
					if q.matches(r) {
						want = append(want, q.renderRow(r))
					}
				}
				if q.Offset == 0 && len(want) <= q.Limit {
					var got []string
					for _, o := range rowOut {
						got = append(got, meRenderDP(o.dp))
					}
					sort.Strings(want)
					sort.Strings(got)
					if strings.Join(want, "\n") != strings.Join(got, "\n") {
						return st, fmt.Errorf("%s: raw query %+v: written rows that match:\n%s\nreturned:\n%s", what, q, strings.Join(want, "\n"), strings.Join(got, "\n"))
					}
					st.rawExact++
				} else {
					st.cut = true
					wantN := len(want) - q.Offset
					if wantN < 0 {
						wantN = 0
					}
					if wantN > q.Limit {
						wantN = q.Limit
					}
					if len(rowOut) != wantN {
						return st, fmt.Errorf("%s: raw query %+v: %d rows match, must return %d, got %d", what, q, len(want), wantN, len(rowOut))
					}
				}
			}
			// reference for grouped aggregations whose window does not cut (C10 over real storage)
			if len(q.GroupBy) > 0 && q.Fn != "" && q.TopN == 0 && q.Offset == 0 && q.Limit >= 1000 {
				if rerr := q.checkAggregates(x, all, rowOut); rerr != nil {
					return st, fmt.Errorf("%s: %v", what, rerr)
				}
				st.aggExact++
			}
			st.grouped = st.grouped || len(q.GroupBy) > 0
			st.topped = st.topped || q.TopN > 0
			st.indexedCrit = st.indexedCrit || q.Region != "" || q.ZoneCmp != ""
			if st.flushes > 0 {
				st.afterFlush = true
			}
			if q.Batch < len(all) {
				st.multiBatchVec = true
			}
		}
	}
	return st, nil
}

func (q meQuery) groupKeyOfRow(r meRow) string {
	var parts []string
	for _, g := range q.GroupBy {
		switch g {
		case "svc":
			parts = append(parts, "svc=str:"+meSvc(r.Svc))
		case "region":
			parts = append(parts, "region=str:"+meRegion(r.Svc))
		case "zone":
			parts = append(parts, fmt.Sprintf("zone=int:%d", meZone(r.Svc)))
		case "extra":
			if r.ExNull {
				parts = append(parts, "extra=null")
			} else {
				parts = append(parts, fmt.Sprintf("extra=int:%d", r.Extra))
			}
		}
	}
	return strings.Join(parts, " ")
}

func (q meQuery) groupKeyOfDP(dp *measurev1.DataPoint) string {
	vals := map[string]string{}
	for _, tf := range dp.GetTagFamilies() {
		for _, tg := range tf.GetTags() {
			switch v := tg.GetValue().GetValue().(type) {
			case *modelv1.TagValue_Str:
				vals[tg.GetKey()] = tg.GetKey() + "=str:" + v.Str.GetValue()
			case *modelv1.TagValue_Int:
				vals[tg.GetKey()] = fmt.Sprintf("%s=int:%d", tg.GetKey(), v.Int.GetValue())
			default:
				vals[tg.GetKey()] = tg.GetKey() + "=null"
			}
		}
	}
	var parts []string
	for _, g := range q.GroupBy {
		parts = append(parts, vals[g])
	}
	return strings.Join(parts, " ")
}

// checkAggregates compares a grouped aggregation response (no top-N, window not cutting) with the
// documented definitions evaluated over the written rows that match: one data point per group, the
// aggregate of the group's values (SUM, COUNT, MIN, MAX over the field's type; MEAN = sum / count in
// the field's type). The known finding "MEAN below 1 is returned as 1" is honoured while it is listed.
func (q meQuery) checkAggregates(x *verifkit.Ctx, all []meRow, out []meOut) error {
	type acc struct {
		is []int64
		fs []float64
	}
	groups := map[string]*acc{}
	for _, r := range all {
		if !q.matches(r) {
			continue
		}
		if (q.AggField == "value" && r.VNull) || (q.AggField == "fval" && r.FNull) {
			return nil // aggregation over a null field: C15 known finding, no reference defined
		}
		k := q.groupKeyOfRow(r)
		if groups[k] == nil {
			groups[k] = &acc{}
		}
		groups[k].is = append(groups[k].is, r.V)
		groups[k].fs = append(groups[k].fs, float64(r.FQ)/4)
	}
	want := map[string]string{}
	for k, a := range groups {
		if q.AggField == "value" {
			var sum int64
			mn, mx := a.is[0], a.is[0]
			for _, v := range a.is {
				sum += v
				if v < mn {
					mn = v
				}
				if v > mx {
					mx = v
				}
			}
			res := map[string]int64{"SUM": sum, "COUNT": int64(len(a.is)), "MIN": mn, "MAX": mx, "MEAN": 0}[q.Fn]
			if q.Fn == "MEAN" {
				res = sum / int64(len(a.is))
				if float64(sum)/float64(len(a.is)) < 1 && x.KnownActive("mean-clamped-to-1") {
					x.KnownExcluded("mean-clamped-to-1")
					res = 1
				}
			}
			want[k] = fmt.Sprintf("value=int:%d", res)
		} else {
			var sum float64
			mn, mx := a.fs[0], a.fs[0]
			for _, v := range a.fs {
				sum += v
				if v < mn {
					mn = v
				}
				if v > mx {
					mx = v
				}
			}
			res := map[string]float64{"SUM": sum, "COUNT": float64(len(a.fs)), "MIN": mn, "MAX": mx, "MEAN": 0}[q.Fn]
			if q.Fn == "MEAN" {
				res = sum / float64(len(a.fs))
				if res < 1 && x.KnownActive("mean-clamped-to-1") {
					x.KnownExcluded("mean-clamped-to-1")
					res = 1
				}
			}
			want[k] = fmt.Sprintf("fval=float:%v", res)
		}
	}
	got := map[string]string{}
	for _, o := range out {
		k := q.groupKeyOfDP(o.dp)
		if _, dup := got[k]; dup {
			return fmt.Errorf("aggregation %+v: group [%s] returned twice", q, k)
		}
		v := "<no field>"
		for _, f := range o.dp.GetFields() {
			if f.GetName() == q.AggField {
				switch fv := f.GetValue().GetValue().(type) {
				case *modelv1.FieldValue_Int:
					v = fmt.Sprintf("%s=int:%d", f.GetName(), fv.Int.GetValue())
				case *modelv1.FieldValue_Float:
					v = fmt.Sprintf("%s=float:%v", f.GetName(), fv.Float.GetValue())
				default:
					v = f.GetName() + "=null"
				}
			}
		}
		got[k] = v
	}
	for k, w := range want {
		if g, ok := got[k]; !ok {
			return fmt.Errorf("aggregation %+v: group [%s] (%s) is missing from the response (%d groups returned, %d expected)", q, k, w, len(got), len(want))
		} else if g != w {
			return fmt.Errorf("aggregation %+v: group [%s]: response %s, reference %s", q, k, g, w)
		}
	}
	for k := range got {
		if _, ok := want[k]; !ok {
			return fmt.Errorf("aggregation %+v: response holds group [%s] which no written row forms", q, k)
		}
	}
	return nil
}

func meTexts(o []meOut) (s []string) {
	for _, x := range o {
		s = append(s, x.text)
	}
	return
}

func meAggOverNull(c meCase) bool {
	rows := meLatest(c.rows())
	for _, op := range c.Ops {
		if op.Kind != "query" {
			continue
		}
		q := op.Query
		f := ""
		if q.Fn != "" {
			f = q.AggField
		} else if q.TopN > 0 {
			f = q.TopField
		}
		for _, r := range rows {
			if (f == "value" && r.VNull) || (f == "fval" && r.FNull) {
				return true
			}
		}
	}
	return false
}

// meGroupCut: a grouped query (no top-N) whose limit/offset can cut the list of groups.
func meGroupCut(c meCase) bool {
	for _, op := range c.Ops {
		if op.Kind == "query" && len(op.Query.GroupBy) > 0 && op.Query.TopN == 0 && (op.Query.Offset > 0 || op.Query.Limit < 100) {
			return true
		}
	}
	return false
}

// meTripleConjunction (known finding): a query that combines an entity condition with conditions on both
// indexed tags. When such a query selects nothing, later queries over one of the indexed tags lose series.
func meTripleConjunction(c meCase) bool {
	for _, op := range c.Ops {
		if op.Kind == "query" && len(op.Query.Svcs) > 0 && op.Query.Region != "" && op.Query.ZoneCmp != "" {
			return true
		}
	}
	return false
}

func meGrouped(c meCase) bool {
	for _, op := range c.Ops {
		if op.Kind == "query" && len(op.Query.GroupBy) > 0 && op.Query.TopN == 0 {
			return true
		}
	}
	return false
}

func genMeQuery(t *rapid.T) *meQuery {
	q := &meQuery{Batch: rapid.SampledFrom([]int{1, 2, 3, 7, 1024}).Draw(t, "batch"), From: 0, To: 100000}
	q.Tags = append([]string(nil), rapid.Permutation([]string{"svc", "region", "zone", "extra"}).Draw(t, "tags")[:rapid.IntRange(0, 4).Draw(t, "ntags")]...)
	q.Fields = append([]string(nil), rapid.Permutation([]string{"value", "fval"}).Draw(t, "fields")[:rapid.IntRange(0, 2).Draw(t, "nfields")]...)
	shape := rapid.SampledFrom([]string{"raw", "raw", "raw", "agg", "group+agg", "group+agg", "group", "top", "group+agg+top"}).Draw(t, "shape")
	if len(q.Tags) == 0 && len(q.Fields) == 0 {
		q.Tags = []string{"svc"}
	}
	if len(q.Fields) == 0 && shape != "raw" && shape != "group" {
		q.Fields = []string{rapid.SampledFrom([]string{"value", "fval"}).Draw(t, "f1")}
	}
	if len(q.Tags) == 0 && strings.Contains(shape, "group") {
		q.Tags = []string{rapid.SampledFrom([]string{"svc", "region", "zone"}).Draw(t, "t1")}
	}
	if strings.Contains(shape, "group") {
		k := rapid.IntRange(1, len(q.Tags)).Draw(t, "ngroup")
		q.GroupBy = append([]string(nil), rapid.Permutation(q.Tags).Draw(t, "gtags")[:k]...)
	}
	if len(q.Fields) > 0 {
		q.AggField = rapid.SampledFrom(q.Fields).Draw(t, "aggfield")
	}
	if strings.Contains(shape, "agg") {
		q.Fn = rapid.SampledFrom([]string{"SUM", "COUNT", "MIN", "MAX", "MEAN"}).Draw(t, "fn")
	}
	if strings.Contains(shape, "top") {
		q.TopN = rapid.IntRange(1, 4).Draw(t, "topn")
		q.TopDesc = rapid.Bool().Draw(t, "desc")
		q.TopField = q.AggField
		if q.Fn == "" {
			q.TopField = rapid.SampledFrom(q.Fields).Draw(t, "topfield")
		}
	}
	q.Limit = rapid.SampledFrom([]int{1, 3, 10, 100, 1000}).Draw(t, "limit")
	q.Offset = rapid.SampledFrom([]int{0, 0, 0, 1, 2, 5}).Draw(t, "offset")
	switch rapid.IntRange(0, 3).Draw(t, "ent") {
	case 0:
		q.Svcs = []int{rapid.IntRange(0, 6).Draw(t, "s1")}
	case 1:
		q.Svcs = []int{rapid.IntRange(0, 6).Draw(t, "s1"), rapid.IntRange(0, 6).Draw(t, "s2")}
	}
	if rapid.IntRange(0, 2).Draw(t, "regioncrit") == 0 {
		q.Region = rapid.SampledFrom([]string{"r0", "r1", "r2", "r9"}).Draw(t, "region")
		q.RegionNe = rapid.IntRange(0, 3).Draw(t, "rne") == 0
	}
	if rapid.IntRange(0, 3).Draw(t, "zonecrit") == 0 {
		q.ZoneCmp = rapid.SampledFrom([]string{"eq", "ge", "lt"}).Draw(t, "zcmp")
		q.Zone = int64(rapid.IntRange(0, 2).Draw(t, "zone"))
	}
	q.Order = rapid.SampledFrom([]string{"", "", "asc", "desc"}).Draw(t, "order")
	if rapid.IntRange(0, 3).Draw(t, "cut") == 0 {
		q.From = int64(rapid.IntRange(0, 3000).Draw(t, "from"))
		q.To = q.From + int64(rapid.IntRange(0, 3000).Draw(t, "len"))
	}
	return q
}

func genMeCase(t *rapid.T, ks *verifkit.KnownSet) meCase {
	var c meCase
	nullBias := rapid.SampledFrom([]int{0, 0, 2}).Draw(t, "nullbias")
	seen := map[[2]int64]bool{}
	nb := rapid.IntRange(1, 5).Draw(t, "batches")
	for b := 0; b < nb; b++ {
		n := rapid.IntRange(1, 25).Draw(t, "n")
		var rows []meRow
		for i := 0; i < n; i++ {
			r := meRow{Svc: rapid.IntRange(0, 5).Draw(t, "svc"), T: int64(rapid.IntRange(0, 4000).Draw(t, "t")),
				V: int64(rapid.IntRange(-1000, 1000).Draw(t, "v")), FQ: int64(rapid.IntRange(-4000, 4000).Draw(t, "fq")), Extra: int64(rapid.IntRange(0, 5).Draw(t, "extra"))}
			if seen[[2]int64{int64(r.Svc), r.T}] {
				continue // one data point per (series, timestamp): versions are C02's subject
			}
			seen[[2]int64{int64(r.Svc), r.T}] = true
			r.VNull = rapid.IntRange(0, 9).Draw(t, "vnull") < nullBias
			r.FNull = rapid.IntRange(0, 9).Draw(t, "fnull") < nullBias
			r.ExNull = rapid.IntRange(0, 9).Draw(t, "xnull") < nullBias
			rows = append(rows, r)
		}
		if len(rows) == 0 {
			continue
		}
		c.Ops = append(c.Ops, meOp{Kind: "write", Rows: rows})
		switch rapid.IntRange(0, 4).Draw(t, "maint") {
		case 0, 1:
			c.Ops = append(c.Ops, meOp{Kind: "flush"})
		case 2:
			c.Ops = append(c.Ops, meOp{Kind: "flush"}, meOp{Kind: "merge", Pick: rapid.SliceOfN(rapid.IntRange(0, 5), 2, 4).Draw(t, "pick")})
		}
		if rapid.IntRange(0, 2).Draw(t, "q") == 0 {
			c.Ops = append(c.Ops, meOp{Kind: "query", Query: genMeQuery(t)})
		}
	}
	if rapid.IntRange(0, 11).Draw(t, "longseries") == 0 {
		// one series with more rows than a merged batch holds (4096), and re-written points around that boundary in a second part
		n := rapid.IntRange(4100, 4300).Draw(t, "longn")
		base := int64(10000)
		v1 := int64(rapid.SampledFrom([]int{2, 3}).Draw(t, "longver"))
		var rows []meRow
		for i := 0; i < n; i++ {
			rows = append(rows, meRow{Svc: 6, T: base + int64(i), V: int64(i), FQ: 4, Extra: 1, Ver: v1})
		}
		c.Ops = append(c.Ops, meOp{Kind: "write", Rows: rows}, meOp{Kind: "flush"})
		var dups []meRow
		for k := rapid.IntRange(1, 3).Draw(t, "ndups"); k > 0; k-- {
			at := int64(rapid.IntRange(4092, 4099).Draw(t, "dupat"))
			dup := false
			for _, d := range dups {
				if d.T == base+at {
					dup = true
				}
			}
			if !dup {
				dups = append(dups, meRow{Svc: 6, T: base + at, V: -7, FQ: 8, Extra: 2, Ver: rapid.SampledFrom([]int64{v1 - 1, v1 + 1, v1 + 1}).Draw(t, "dupver")})
			}
		}
		c.Ops = append(c.Ops, meOp{Kind: "write", Rows: dups}, meOp{Kind: "flush"},
			meOp{Kind: "query", Query: &meQuery{Tags: []string{"svc", "extra"}, Fields: []string{"value"}, Limit: 10000, Svcs: []int{6}, From: -1, To: 100000,
				Batch: rapid.SampledFrom([]int{1024, 4096, 7}).Draw(t, "longbatch"), Order: rapid.SampledFrom([]string{"", "asc", "desc"}).Draw(t, "longorder")}})
	}
	nq := rapid.IntRange(1, 4).Draw(t, "queries")
	for i := 0; i < nq; i++ {
		c.Ops = append(c.Ops, meOp{Kind: "query", Query: genMeQuery(t)})
	}
	if ks.Active("vec-group-order") && meGroupCut(c) {
		ks.Excluded("vec-group-order")
		for _, op := range c.Ops {
			if op.Kind == "query" && len(op.Query.GroupBy) > 0 && op.Query.TopN == 0 {
				op.Query.Limit, op.Query.Offset = 1000, 0
			}
		}
	}
	if ks.Active("measure-index-conjunction-poisons-later-queries") && meTripleConjunction(c) {
		ks.Excluded("measure-index-conjunction-poisons-later-queries")
		for _, op := range c.Ops {
			if op.Kind == "query" && len(op.Query.Svcs) > 0 && op.Query.Region != "" && op.Query.ZoneCmp != "" {
				op.Query.Region = ""
			}
		}
	}
	if ks.Active("agg-over-null-field") && meAggOverNull(c) {
		ks.Excluded("agg-over-null-field")
		for _, op := range c.Ops {
			for i := range op.Rows {
				op.Rows[i].VNull, op.Rows[i].FNull = false, false
			}
		}
	}
	return c
}

func TestVerifMeasureEngineC15(t *testing.T) {
	verifkit.Run(t, verifkit.Spec[meCase]{
		Property: "C15", Unit: "measure_engine_parity", CrashReplay: true,
		Rule: "1..5 write batches of 1..25 data points (6 series, one point per series and timestamp, nullable int/float fields and a nullable non-indexed " +
			"tag, two tags under inverted index rules = series-level values) through the real measure write callback into a real TSDB, flush and " +
			"file-part merges of chosen parts in between; requests through both real planners over the real storage: projections in any order, " +
			"group-by, SUM/COUNT/MIN/MAX/MEAN, top-N, limit/offset, entity eq/in, criteria on the indexed tags, time windows, order by time, " +
			"columnar batch sizes {1,2,3,7,1024}; oracles: row plan response == columnar plan response (serialised data points in order, error iff " +
			"error, top-N ties by key) and, for raw queries, the response is exactly the written rows that match (multiset; window size when cut); " +
			"non-trivial = a query answered by both plans with >= 2 data points after a flush",
		Known: []verifkit.Known[meCase]{{Key: "agg-over-null-field", Match: meAggOverNull}, {Key: "vec-group-order", Match: meGrouped},
			{Key: "measure-index-conjunction-poisons-later-queries", Match: meTripleConjunction}},
		Gen: genMeCase,
		Check: func(x *verifkit.Ctx, c meCase) error {
			st, err := runMeasureEngine(x, c)
			if err != nil {
				return err
			}
			x.LabelIf(st.flushes > 0, "flush")
			x.LabelIf(st.merges > 0, "merge")
			x.LabelIf(st.grouped, "group-by")
			x.LabelIf(st.topped, "top-N")
			x.LabelIf(st.cut, "limit/offset cuts a raw query")
			x.LabelIf(st.rawExact > 0, "raw query checked against the written rows")
			x.LabelIf(st.aggExact > 0, "aggregation checked against the reference")
			x.LabelIf(st.indexedCrit, "criteria on an indexed tag")
			x.LabelIf(st.multiBatchVec, "several columnar batches")
			x.LabelIf(st.ties, "top-N tie resolved differently (accepted)")
			x.LabelIf(st.bothReject, "both plans reject a request")
			if st.afterFlush && st.queries > 0 {
				x.NonTrivial()
			}
			return nil
		},
		MinLabelFrac: map[string]float64{"flush": 0.5, "group-by": 0.3, "raw query checked against the written rows": 0.3, "criteria on an indexed tag": 0.3},
	})
}

func TestVerifMeasureEngineC10(t *testing.T) {
	verifkit.Run(t, verifkit.Spec[meCase]{
		Property: "C10", Unit: "measure_engine", CrashReplay: true,
		Rule: "the histories and requests of C15 measure_engine_parity (real write callback, TSDB, flush/merge steps, both planners), with every query a " +
			"group-by aggregation over 1..3 tags (entity, indexed and plain tags, nullable) with SUM/COUNT/MIN/MAX/MEAN over the int or float field and a " +
			"window that does not cut; oracle: the row plan's response holds exactly one data point per group formed by the written rows that match " +
			"(criteria, entity, time window), carrying the reference aggregate of the group; the columnar plan's response is the same multiset; " +
			"non-trivial = an aggregation over >= 2 groups spread over >= 2 parts",
		Known: []verifkit.Known[meCase]{{Key: "mean-clamped-to-1", Match: func(c meCase) bool {
			for _, op := range c.Ops {
				if op.Kind == "query" && op.Query.Fn == "MEAN" {
					return true
				}
			}
			return false
		}}, {Key: "vec-group-order", Match: meGrouped}, {Key: "agg-over-null-field", Match: meAggOverNull},
			{Key: "measure-index-conjunction-poisons-later-queries", Match: meTripleConjunction}},
		Gen: func(t *rapid.T, ks *verifkit.KnownSet) meCase {
			c := genMeCase(t, nil)
			for _, op := range c.Ops {
				if op.Kind != "query" {
					continue
				}
				q := op.Query
				if len(q.Tags) == 0 {
					q.Tags = []string{rapid.SampledFrom([]string{"svc", "region", "zone", "extra"}).Draw(t, "gt")}
				}
				if len(q.Fields) == 0 {
					q.Fields = []string{rapid.SampledFrom([]string{"value", "fval"}).Draw(t, "gf")}
				}
				k := rapid.IntRange(1, len(q.Tags)).Draw(t, "ng")
				q.GroupBy = append([]string(nil), q.Tags[:k]...)
				q.AggField = q.Fields[0]
				q.Fn = rapid.SampledFrom([]string{"SUM", "COUNT", "MIN", "MAX", "MEAN"}).Draw(t, "gfn")
				q.TopN, q.TopField, q.Limit, q.Offset = 0, "", 1000, 0
				if len(q.Svcs) > 0 && q.Region != "" && q.ZoneCmp != "" {
					q.Region = "" // C15 known finding measure-index-conjunction-poisons-later-queries
				}
			}
			for _, op := range c.Ops {
				for i := range op.Rows {
					op.Rows[i].VNull, op.Rows[i].FNull = false, false // aggregation over a null field: C15 known finding
				}
			}
			return c
		},
		Check: func(x *verifkit.Ctx, c meCase) error {
			st, err := runMeasureEngine(x, c)
			if err != nil {
				return err
			}
			x.LabelIf(st.flushes > 0, "flush")
			x.LabelIf(st.merges > 0, "merge")
			x.LabelIf(st.aggExact > 0, "aggregation checked against the reference")
			x.LabelIf(st.indexedCrit, "criteria on an indexed tag")
			if st.aggExact > 0 && st.flushes >= 2 {
				x.NonTrivial()
			}
			return nil
		},
		MinLabelFrac: map[string]float64{"aggregation checked against the reference": 0.8, "flush": 0.5},
	})
}
