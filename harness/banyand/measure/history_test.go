package measure

import (
	"fmt"
	"math"
	"os"
	"sort"
	"strings"
	"testing"
	"time"

	"pgregory.net/rapid"

	"github.com/apache/skywalking-banyandb/banyand/internal/storage"
	"github.com/apache/skywalking-banyandb/pkg/fs"
	"github.com/apache/skywalking-banyandb/verifkit"
)

// waitGC: once no query pins an old snapshot, the part directories on disk are exactly the file
// parts of the current snapshot (merged inputs deleted, nothing else removed). Deletion runs in a
// goroutine, so this is a bounded poll; its expiry is reported as a violation of "deleted once no
// reader needs them" only after 5 s.
func (tb *l1Table) waitGC() error {
	want := map[string]bool{}
	for _, p := range tb.parts() {
		if !p.mem {
			want[partName(p.id)] = true
		}
	}
	var last string
	for i := 0; i < 500; i++ {
		have := map[string]bool{}
		for _, e := range fs.NewLocalFileSystem().ReadDir(tb.dir) {
			if e.IsDir() {
				have[e.Name()] = true
			}
		}
		ok := len(have) == len(want)
		for n := range want {
			if !have[n] {
				return fmt.Errorf("part %s is in the current snapshot but its directory is gone", n)
			}
		}
		if ok {
			return nil
		}
		last = fmt.Sprintf("on disk %v, snapshot %v", have, want)
		time.Sleep(10 * time.Millisecond)
	}
	return fmt.Errorf("replaced parts were not deleted after all readers finished: %s", last)
}

// ---------------------------------------------------------------------------------------------
// interpreter of measure histories
// ---------------------------------------------------------------------------------------------

type histStats struct {
	writes, flushes, merges, memMerges, reopens, queries int
	mergedNonEmpty2                                      bool // a merge of >= 2 non-empty parts happened
	queryAfterMerge                                      bool
	keysInTwoParts                                       bool // some key had >= 2 versions living in >= 2 parts at a query
	dupInBatch                                           bool
	conflictMerge                                        bool
	fanIn3                                               bool
	multiPrimary                                         bool
	bigBlock                                             bool
	nonPlainColumn                                       bool
	dense                                                bool
	snapshots, pinnedQueries                             int
	snapWithMem, snapAfterMerge, pinAcrossMerge          bool
	loneMemPart                                          bool // a memory-part merge round met a memory part that is alone in its segment
}

func caseSids(c mCase) []int {
	seen := map[int]bool{}
	var out []int
	add := func(s int) {
		if !seen[s] {
			seen[s] = true
			out = append(out, s)
		}
	}
	for _, op := range c.Ops {
		for _, r := range op.Rows {
			add(r.S)
		}
		if op.Kind == "wide" || op.Kind == "dense" {
			for i := 0; i < op.WideN; i++ {
				add(op.WideBase + i)
			}
		}
	}
	sort.Ints(out)
	return out
}

func wideRows(op mOp, sc mSchema, seq *int64) []mRow {
	rows := make([]mRow, 0, op.WideN)
	for i := 0; i < op.WideN; i++ {
		*seq++
		r := mRow{S: op.WideBase + i, T: op.WideT + int64(i)*op.WideStep, V: 1}
		for range sc.Fams {
			r.Tags = append(r.Tags, nil)
		}
		for _, f := range sc.Fields {
			if f.Type == "int" {
				r.Fields = append(r.Fields, mVal{K: "int", I: *seq})
			} else {
				r.Fields = append(r.Fields, mVal{K: "null"})
			}
		}
		rows = append(rows, r)
	}
	return rows
}

// denseRows builds WideN series x DenseN rows whose string/binary/array values are all distinct
// (forces the dictionary to overflow into the plain encoding) and whose numbers follow patterns
// that select the delta / delta-of-delta / decimal encodings.
func denseRows(op mOp, sc mSchema, seq *int64) []mRow {
	rows := make([]mRow, 0, op.WideN*op.DenseN)
	for s := 0; s < op.WideN; s++ {
		sid := op.WideBase + s
		for i := 0; i < op.DenseN; i++ {
			*seq++
			r := mRow{S: sid, T: op.WideT + int64(i)*max(op.WideStep, 1), V: 1}
			tag := fmt.Sprintf("val-%d-%d-%d", sid, i, *seq)
			for _, f := range sc.Fams {
				var tv []mVal
				for _, tg := range f.Tags {
					switch tg.Type {
					case "int":
						tv = append(tv, mVal{K: "int", I: int64(i*i) - int64(sid)})
					case "str":
						tv = append(tv, mVal{K: "str", S: tag})
					case "bin":
						tv = append(tv, mVal{K: "bin", B: []byte(tag)})
					case "intarr":
						tv = append(tv, mVal{K: "intarr", IA: []int64{int64(i), int64(sid)}})
					case "strarr":
						tv = append(tv, mVal{K: "strarr", SA: []string{tag, "x|y"}})
					}
				}
				r.Tags = append(r.Tags, tv)
			}
			for fi, f := range sc.Fields {
				switch {
				case fi == 0:
					r.Fields = append(r.Fields, mVal{K: "int", I: *seq})
				case f.Type == "int":
					r.Fields = append(r.Fields, mVal{K: "int", I: int64(i) * 1000})
				case f.Type == "float":
					r.Fields = append(r.Fields, mVal{K: "float", F: math.Float64bits(float64(i)/4 + float64(sid))})
				case f.Type == "str":
					r.Fields = append(r.Fields, mVal{K: "str", S: tag})
				default:
					r.Fields = append(r.Fields, mVal{K: "bin", B: []byte(tag)})
				}
			}
			rows = append(rows, r)
		}
	}
	return rows
}

// checkSnapshotDir: the manifest of a snapshot lists only parts that are present and valid.
func checkSnapshotDir(dst string) error {
	lfs := fs.NewLocalFileSystem()
	var manifests []string
	present := map[string]bool{}
	for _, e := range lfs.ReadDir(dst) {
		if e.IsDir() {
			present[e.Name()] = true
		} else if strings.HasSuffix(e.Name(), snapshotSuffix) {
			manifests = append(manifests, e.Name())
		}
	}
	if len(manifests) != 1 {
		return fmt.Errorf("snapshot directory holds %d manifests", len(manifests))
	}
	names, err := storage.ReadSnapshotPartNames(lfs, dst+"/"+manifests[0])
	if err != nil {
		return fmt.Errorf("snapshot manifest unreadable: %v", err)
	}
	listed := map[string]bool{}
	for _, n := range names {
		listed[n] = true
		if !present[n] {
			return fmt.Errorf("snapshot manifest %s lists part %s which is not in the snapshot directory (present: %v)", manifests[0], n, present)
		}
		if verr := validatePartMetadata(lfs, dst+"/"+n); verr != nil {
			return fmt.Errorf("snapshot part %s is incomplete: %v", n, verr)
		}
	}
	for n := range present {
		if !listed[n] {
			return fmt.Errorf("snapshot directory holds part %s which its manifest does not list", n)
		}
	}
	return nil
}

func dedupInts(s []int) []int {
	out := s[:0]
	for i, v := range s {
		if i == 0 || v != s[i-1] {
			out = append(out, v)
		}
	}
	return out
}

func renderRows(rows []outRow) []string {
	out := make([]string, 0, len(rows))
	for _, r := range rows {
		out = append(out, fmt.Sprintf("%d@%d v%d %s| %s", r.sid, r.ts, r.ver, sortedKV(r.tags), sortedKV(r.fields)))
	}
	sort.Strings(out)
	return out
}

// runMeasureHistory executes the case against a real tsTable and checks, after every step, that
// queries return the model (C01/C02/C03), that each merge output equals the version-resolved
// union of its inputs, and the block/part metadata invariants.
func runMeasureHistory(x *verifkit.Ctx, c mCase) (st histStats, err error) {
	dir, derr := os.MkdirTemp("", "verif-measure-")
	if derr != nil {
		return st, derr
	}
	defer os.RemoveAll(dir)
	tb := openL1(dir+"/tab", nil)
	defer tb.close()
	m := newModel()
	sids := caseSids(c)
	var seq int64
	lastVariant := 0
	partsOfKey := map[modelKey]map[int]bool{} // key -> set of write-op indexes (proxy for parts before merges)
	type batchRec struct {
		rows    []mRow
		variant int
	}
	var allBatches []batchRec
	flushedBatches := 0
	batchMemPart := map[int]uint64{}
	open := map[int]*openQuery{}
	pinnedMerges := map[int]int{}
	boundarySid := 0
	defer func() {
		for _, oq := range open {
			_, _, _ = oq.drain()
		}
	}()
	fullQuery := func(variant int, order string) mQuery {
		return mQuery{Sids: sids, MinT: -1 << 40, MaxT: 1 << 40, Variant: variant, Order: order}
	}
	check := func(q mQuery, what string) error {
		sc := c.Schemas[q.Variant%len(c.Schemas)]
		got, chunks, qerr := tb.query(sc, q)
		if qerr != nil {
			return fmt.Errorf("%s: query failed: %v", what, qerr)
		}
		if cerr := m.compare(got, c.Schemas, q); cerr != nil {
			return fmt.Errorf("%s: %v", what, cerr)
		}
		if oerr := checkOrder(got, chunks, q); oerr != nil {
			return fmt.Errorf("%s: %v", what, oerr)
		}
		return nil
	}
	for i, op := range c.Ops {
		what := fmt.Sprintf("after op %d (%s)", i, op.Kind)
		if op.Kind == "boundarybig" {
			// a series whose blocks straddle a primary-block boundary: the last series of the first primary
			// block of the largest part receives > 8192 further points (the position is read from the part)
			bs := tb.boundarySeries()
			if bs == 0 {
				continue
			}
			boundarySid = bs
			op = mOp{Kind: "write", Variant: op.Variant}
			for r := 0; r < c.Ops[i].WideN; r++ {
				seq++
				row := mRow{S: bs, T: 1000 + int64(r), V: 1}
				for range c.Schemas[0].Fams {
					row.Tags = append(row.Tags, nil)
				}
				row.Fields = append(row.Fields, mVal{K: "int", I: seq})
				op.Rows = append(op.Rows, row)
			}
			sids = append(sids, bs)
			sort.Ints(sids)
			sids = dedupInts(sids)
		}
		if op.Query != nil && boundarySid != 0 {
			q := *op.Query
			q.Sids = append([]int(nil), q.Sids...)
			for k, sid := range q.Sids {
				if sid <= 0 {
					q.Sids[k] = boundarySid + sid // 0 = the boundary series, -1 / -2 its predecessors
				}
			}
			op.Query = &q
		}
		switch op.Kind {
		case "write", "wide", "dense":
			v := op.Variant % len(c.Schemas)
			rows := op.Rows
			if op.Kind == "wide" {
				rows = wideRows(op, c.Schemas[v], &seq)
			}
			if op.Kind == "dense" {
				rows = denseRows(op, c.Schemas[v], &seq)
				st.dense = true
			}
			if len(rows) == 0 {
				continue
			}
			keys := map[modelKey]bool{}
			for _, r := range rows {
				k := modelKey{r.S, r.T}
				if keys[k] {
					st.dupInBatch = true
				}
				keys[k] = true
				if partsOfKey[k] == nil {
					partsOfKey[k] = map[int]bool{}
				}
				partsOfKey[k][i] = true
				if len(partsOfKey[k]) >= 2 {
					st.keysInTwoParts = true
				}
			}
			before := map[uint64]bool{}
			for _, pi := range tb.parts() {
				before[pi.id] = true
			}
			tb.writeSeg(c.Schemas[v], rows, op.Seg)
			m.add(rows, v)
			allBatches = append(allBatches, batchRec{rows, v})
			// the memory part this batch went into (a batch is "flushed" once that memory part is gone)
			for _, pi := range tb.parts() {
				if pi.mem && !before[pi.id] {
					batchMemPart[len(allBatches)-1] = pi.id
				}
			}
			lastVariant = v
			st.writes++
			if len(rows) > maxBlockLength {
				st.bigBlock = true
			}
		case "flush":
			if tb.flushAll() > 0 {
				st.flushes++
				flushedBatches = len(allBatches)
			}
		case "mergemem":
			runsBefore := tb.memRuns()
			filesBefore := 0
			for _, pi := range tb.parts() {
				if !pi.mem {
					filesBefore++
				}
			}
			if tb.mergeMem() {
				st.memMerges++
				flushedBatches = len(allBatches)
			}
			// a merge round merges the memory parts of ONE segment with each other: a memory part that is alone in its
			// segment stays as it is, and every group of >= 2 becomes exactly one file part (a part never spans segments)
			stay := map[uint64]bool{}
			gone := map[uint64]bool{}
			groups := 0
			for _, run := range runsBefore {
				if len(run) == 1 {
					stay[run[0]] = true
					if len(runsBefore) > 1 {
						st.loneMemPart = true
					}
				} else {
					groups++
					for _, id := range run {
						gone[id] = true
					}
				}
			}
			filesAfter := 0
			for _, pi := range tb.parts() {
				if pi.mem {
					delete(stay, pi.id)
					if gone[pi.id] {
						// neither the inputs nor a second copy may stay visible (a reader would see both)
						return st, fmt.Errorf("%s: memory part %d was merged (runs %v) but is still in the snapshot next to the merged part", what, pi.id, runsBefore)
					}
				} else {
					filesAfter++
				}
			}
			if len(stay) > 0 {
				return st, fmt.Errorf("%s: memory part(s) %v were alone in their segment (runs %v) but were merged away: the merged part spans two segments", what, stay, runsBefore)
			}
			if filesAfter-filesBefore != groups {
				return st, fmt.Errorf("%s: %d groups of >= 2 memory parts of one segment (runs %v) became %d file parts", what, groups, runsBefore, filesAfter-filesBefore)
			}
		case "snapshot":
			// C19: a file snapshot taken now opens as a table holding exactly the flushed batches
			dst := fmt.Sprintf("%s/snap-%d", dir, i)
			hasMem := false
			for _, pi := range tb.parts() {
				if pi.mem {
					hasMem = true
				}
			}
			ok, serr := tb.tst.TakeFileSnapshot(dst)
			if serr != nil {
				return st, fmt.Errorf("op %d snapshot: %v", i, serr)
			}
			if !ok {
				if flushedBatches > 0 {
					return st, fmt.Errorf("op %d snapshot: reported nothing to snapshot although %d batches are flushed", i, flushedBatches)
				}
				continue
			}
			st.snapshots++
			if hasMem {
				st.snapWithMem = true
			}
			if st.merges > 0 {
				st.snapAfterMerge = true
			}
			if err := checkSnapshotDir(dst); err != nil {
				return st, fmt.Errorf("op %d snapshot: %v", i, err)
			}
			// a memory-part merge round only persists the groups it merged: a batch whose own memory part is
			// still in the snapshot is not part of a file snapshot
			stillMem := map[uint64]bool{}
			for _, pi := range tb.parts() {
				if pi.mem {
					stillMem[pi.id] = true
				}
			}
			want := newModel()
			nFlushed := 0
			for bi, b := range allBatches {
				if id, ok := batchMemPart[bi]; ok && stillMem[id] {
					continue
				}
				nFlushed++
				want.add(b.rows, b.variant)
			}
			flushedBatches = nFlushed
			rt := openL1(dst, nil)
			for v := range c.Schemas {
				got, _, qerr := rt.query(c.Schemas[v], fullQuery(v, "sid"))
				if qerr != nil {
					rt.close()
					return st, fmt.Errorf("op %d snapshot: query on the restored copy failed: %v", i, qerr)
				}
				if cerr := want.compare(got, c.Schemas, fullQuery(v, "sid")); cerr != nil {
					rt.close()
					return st, fmt.Errorf("op %d snapshot: restored copy does not hold exactly the %d flushed batches (of %d acknowledged): %v", i, flushedBatches, len(allBatches), cerr)
				}
			}
			if ierr := rt.allPartInvariants(); ierr != nil {
				rt.close()
				return st, fmt.Errorf("op %d snapshot: %v", i, ierr)
			}
			rt.close()
			continue
		case "qopen":
			if op.Query == nil || open[op.Slot] != nil {
				continue
			}
			q := *op.Query
			if len(q.Sids) == 0 {
				q.Sids = sids
			}
			oq, oerr := tb.qopen(c.Schemas[q.Variant%len(c.Schemas)], q, m)
			if oerr != nil {
				return st, fmt.Errorf("op %d qopen: %v", i, oerr)
			}
			if oq != nil {
				open[op.Slot] = oq
				pinnedMerges[op.Slot] = st.merges + st.memMerges + st.flushes
			}
			continue
		case "qdrain":
			oq := open[op.Slot]
			if oq == nil {
				continue
			}
			delete(open, op.Slot)
			got, chunks, derr := oq.drain()
			if derr != nil {
				return st, fmt.Errorf("op %d: a query pinned before %d maintenance steps failed while reading: %v", i, st.merges+st.memMerges+st.flushes-pinnedMerges[op.Slot], derr)
			}
			if cerr := oq.want.compare(got, c.Schemas, oq.q); cerr != nil {
				return st, fmt.Errorf("op %d: pinned query does not see the state at its start (snapshot isolation): %v", i, cerr)
			}
			if oerr := checkOrder(got, chunks, oq.q); oerr != nil {
				return st, fmt.Errorf("op %d: pinned query: %v", i, oerr)
			}
			st.pinnedQueries++
			if st.merges+st.memMerges+st.flushes > pinnedMerges[op.Slot] {
				st.pinAcrossMerge = true
			}
			continue
		case "merge":
			// equivalence of the merge output with the union of its inputs
			nin, conflict, merr := mergeWithEquivalence(tb, c, op.Pick, sids, m)
			if merr != nil {
				return st, fmt.Errorf("op %d merge: %v", i, merr)
			}
			if nin >= 2 {
				st.merges++
				st.mergedNonEmpty2 = true
				if nin >= 3 {
					st.fanIn3 = true
				}
				if conflict {
					st.conflictMerge = true
				}
			}
		case "reopen":
			tb.reopen()
			st.reopens++
		case "query":
			if op.Query == nil {
				continue
			}
			q := *op.Query
			if len(q.Sids) == 0 {
				q.Sids = sids
			}
			if err := check(q, fmt.Sprintf("query op %d", i)); err != nil {
				return st, err
			}
			st.queries++
			if st.mergedNonEmpty2 {
				st.queryAfterMerge = true
			}
			continue
		}
		// invariant after every state-changing step: the full result equals the model
		if len(sids) > 0 {
			order := []string{"sid", "asc", "desc"}[i%3]
			if err := check(fullQuery(lastVariant, order), what); err != nil {
				return st, err
			}
			if st.mergedNonEmpty2 {
				st.queryAfterMerge = true
			}
		}
		if op.Kind == "merge" || op.Kind == "mergemem" || op.Kind == "flush" || op.Kind == "wide" {
			if err := tb.allPartInvariants(); err != nil {
				return st, fmt.Errorf("%s: %v", what, err)
			}
			if tb.primaryBlocks() > 1 {
				st.multiPrimary = true
			}
		}
	}
	for slot, oq := range open {
		delete(open, slot)
		got, _, derr := oq.drain()
		if derr != nil {
			return st, fmt.Errorf("pinned query failed while reading at the end: %v", derr)
		}
		if cerr := oq.want.compare(got, c.Schemas, oq.q); cerr != nil {
			return st, fmt.Errorf("pinned query drained at the end does not see the state at its start: %v", cerr)
		}
		st.pinnedQueries++
	}
	if st.merges > 0 || st.memMerges > 0 {
		if gerr := tb.waitGC(); gerr != nil {
			return st, gerr
		}
	}
	// every schema variant reads back consistently at the end
	for v := range c.Schemas {
		if len(sids) == 0 {
			break
		}
		if err := check(fullQuery(v, "sid"), fmt.Sprintf("final scan with schema variant %d", v)); err != nil {
			return st, err
		}
	}
	return st, nil
}

// mergeWithEquivalence scans every selected input part alone, merges them with the real merger and
// scans the output part alone. The output must hold, under every schema variant, exactly the keys
// of the inputs, each with the maximal version found in the inputs and with the content of one of
// the input rows carrying that version (a version tie admits any of them).
func mergeWithEquivalence(tb *l1Table, c mCase, pick []int, sids []int, model *mModel) (nin int, conflict bool, err error) {
	s := tb.tst.currentSnapshot()
	if s == nil {
		return 0, false, nil
	}
	var files []*partWrapper
	for _, pw := range s.parts {
		if pw.mp == nil {
			files = append(files, pw)
		}
	}
	if len(files) < 2 || len(pick) < 2 {
		s.decRef()
		return 0, false, nil
	}
	chosen := map[uint64]*partWrapper{}
	for _, p := range pick {
		if p < 0 {
			p = -p
		}
		pw := files[p%len(files)]
		chosen[pw.ID()] = pw
	}
	if len(chosen) < 2 {
		s.decRef()
		return 0, false, nil
	}
	var pws []*partWrapper
	for _, pw := range chosen {
		pws = append(pws, pw)
	}
	conflict = len(collectConflictColumns(pws)) > 0
	type cand struct {
		ver     int64
		renders map[string]bool
	}
	render := func(r outRow) string { return sortedKV(r.tags) + "| " + sortedKV(r.fields) }
	full := func(v int) mQuery { return mQuery{Sids: sids, MinT: -1 << 40, MaxT: 1 << 40, Variant: v} }
	union := make([]map[modelKey]*cand, len(c.Schemas))
	for v := range c.Schemas {
		union[v] = map[modelKey]*cand{}
		for _, pw := range pws {
			rows, _, qerr := scanParts([]*part{pw.p}, c.Schemas[v], full(v))
			if qerr != nil {
				s.decRef()
				return 0, false, qerr
			}
			for _, r := range rows {
				k := modelKey{r.sid, r.ts}
				e := union[v][k]
				switch {
				case e == nil:
					union[v][k] = &cand{ver: r.ver, renders: map[string]bool{render(r): true}}
				case r.ver > e.ver:
					e.ver, e.renders = r.ver, map[string]bool{render(r): true}
				case r.ver == e.ver:
					e.renders[render(r)] = true
				}
			}
		}
	}
	s.decRef()
	_, newID := tb.mergeFiles(pick)
	s2 := tb.tst.currentSnapshot()
	defer s2.decRef()
	var outPart *part
	for _, pw := range s2.parts {
		if pw.ID() == newID {
			outPart = pw.p
		}
		if _, still := chosen[pw.ID()]; still {
			return 0, false, fmt.Errorf("merged input part %d is still in the snapshot after the merge was published", pw.ID())
		}
	}
	if outPart == nil {
		return 0, false, fmt.Errorf("merge output part %d is not in the snapshot", newID)
	}
	for v := range c.Schemas {
		rows, _, qerr := scanParts([]*part{outPart}, c.Schemas[v], full(v))
		if qerr != nil {
			return 0, false, qerr
		}
		seen := map[modelKey]bool{}
		for _, r := range rows {
			k := modelKey{r.sid, r.ts}
			e := union[v][k]
			if e == nil {
				return 0, false, fmt.Errorf("merged part holds series %d ts %d which none of its %d inputs holds", r.sid, r.ts, len(pws))
			}
			if seen[k] {
				return 0, false, fmt.Errorf("merged part holds series %d ts %d twice", r.sid, r.ts)
			}
			seen[k] = true
			if r.ver != e.ver {
				return 0, false, fmt.Errorf("merged part holds series %d ts %d at version %d, its inputs hold version %d", r.sid, r.ts, r.ver, e.ver)
			}
			// a part may hold several rows of one (series, timestamp, version) in different blocks; scanning it
			// alone shows one of them, the merge may surface another: any acknowledged row of that exact key
			// and version is an admissible tie candidate
			if !e.renders[render(r)] && !model.wrote(c.Schemas, v, r.sid, r.ts/nanosPerMs-baseMillis, r.ver, render(r)) {
				return 0, false, fmt.Errorf("merged part (schema variant %d) series %d ts %d version %d holds %q, inputs hold %v", v, r.sid, r.ts, r.ver, render(r), e.renders)
			}
		}
		for k := range union[v] {
			if !seen[k] {
				return 0, false, fmt.Errorf("merged part lost series %d ts %d (version %d) present in its inputs", k.sid, k.t, union[v][k].ver)
			}
		}
	}
	return len(chosen), conflict, nil
}

// ---------------------------------------------------------------------------------------------
// generators
// ---------------------------------------------------------------------------------------------

type genProfile struct {
	maxSeries, maxTimes int
	maxBatches          int
	maxRows             int
	versions            []int64
	richSchema          bool
	variants            bool
	wide                bool
	dense               bool
	bigBatch            bool
	maintenance         bool // flush / merge / reopen ops between writes
	hostileValues       bool
	multiSeg            bool // memory parts of several segments always pile up (liaison write queue)
}

func genTagVal(t *rapid.T, typ string, hostile bool, label string) mVal {
	if rapid.IntRange(0, 9).Draw(t, label+"/null") == 0 {
		return mVal{K: "null"}
	}
	switch typ {
	case "int":
		if hostile {
			return mVal{K: "int", I: verifkit.Int64(t, label)}
		}
		return mVal{K: "int", I: int64(rapid.IntRange(-3, 3).Draw(t, label))}
	case "str":
		if hostile {
			return mVal{K: "str", S: verifkit.String(t, label)}
		}
		return mVal{K: "str", S: rapid.SampledFrom([]string{"a", "b", "", "a|b"}).Draw(t, label)}
	case "bin":
		return mVal{K: "bin", B: verifkit.Bytes(t, label, 8)}
	case "intarr":
		n := rapid.IntRange(0, 3).Draw(t, label+"/n")
		v := mVal{K: "intarr"}
		for i := 0; i < n; i++ {
			v.IA = append(v.IA, verifkit.Int64(t, label))
		}
		return v
	case "strarr":
		n := rapid.IntRange(0, 3).Draw(t, label+"/n")
		v := mVal{K: "strarr"}
		for i := 0; i < n; i++ {
			v.SA = append(v.SA, verifkit.String(t, label))
		}
		return v
	}
	panic(typ)
}

func genFieldVal(t *rapid.T, typ string, hostile bool, label string, seq *int64) mVal {
	if rapid.IntRange(0, 14).Draw(t, label+"/null") == 0 {
		return mVal{K: "null"}
	}
	switch typ {
	case "int":
		if hostile && rapid.Bool().Draw(t, label+"/h") {
			return mVal{K: "int", I: verifkit.Int64(t, label)}
		}
		*seq++
		return mVal{K: "int", I: *seq}
	case "float":
		b := verifkit.FloatBits(t, label, true)
		if b == 1<<63 {
			b = 0 // -0.0 through the decimal column codec: recorded under C11 (float-decimal-neg-zero)
		}
		if f := math.Float64frombits(b); f != f {
			b = math.Float64bits(math.NaN()) // one canonical NaN
		}
		return mVal{K: "float", F: b}
	case "str":
		return mVal{K: "str", S: verifkit.String(t, label)}
	case "bin":
		return mVal{K: "bin", B: verifkit.Bytes(t, label, 12)}
	}
	panic(typ)
}

func genSchemas(t *rapid.T, p genProfile) []mSchema {
	var sc mSchema
	if !p.richSchema {
		sc = mSchema{
			Fams:   []mFamSpec{{Name: "tf", Tags: []mTagSpec{{Name: "a", Type: "str"}, {Name: "n", Type: "int"}}}},
			Fields: []mFieldSpec{{Name: "v", Type: "int"}},
		}
	} else {
		nf := rapid.IntRange(1, 3).Draw(t, "nfam")
		tagTypes := []string{"int", "str", "bin", "intarr", "strarr"}
		k := 0
		for f := 0; f < nf; f++ {
			fam := mFamSpec{Name: fmt.Sprintf("fam%d", f)}
			for i := 0; i < rapid.IntRange(1, 3).Draw(t, "ntags"); i++ {
				fam.Tags = append(fam.Tags, mTagSpec{Name: fmt.Sprintf("t%d", k), Type: rapid.SampledFrom(tagTypes).Draw(t, "tt")})
				k++
			}
			sc.Fams = append(sc.Fams, fam)
		}
		sc.Fields = append(sc.Fields, mFieldSpec{Name: "v", Type: "int"})
		for i := 0; i < rapid.IntRange(0, 3).Draw(t, "nfields"); i++ {
			sc.Fields = append(sc.Fields, mFieldSpec{Name: fmt.Sprintf("f%d", i), Type: rapid.SampledFrom([]string{"int", "float", "str", "bin"}).Draw(t, "ft")})
		}
	}
	out := []mSchema{sc}
	if p.variants && rapid.IntRange(0, 2).Draw(t, "hasvariant") == 0 {
		// a second variant: one tag changes its type (schema evolution between batches)
		v := mSchema{Fields: sc.Fields}
		fi := rapid.IntRange(0, len(sc.Fams)-1).Draw(t, "vf")
		ti := rapid.IntRange(0, len(sc.Fams[fi].Tags)-1).Draw(t, "vt")
		for i, f := range sc.Fams {
			nf := mFamSpec{Name: f.Name, Tags: append([]mTagSpec(nil), f.Tags...)}
			if i == fi {
				old := nf.Tags[ti].Type
				alt := map[string]string{"int": "str", "str": "int", "bin": "str", "intarr": "int", "strarr": "str"}[old]
				nf.Tags[ti].Type = alt
			}
			v.Fams = append(v.Fams, nf)
		}
		out = append(out, v)
	}
	return out
}

func genRows(t *rapid.T, p genProfile, sc mSchema, n int, seq *int64) []mRow {
	rows := make([]mRow, 0, n)
	for i := 0; i < n; i++ {
		r := mRow{
			S: rapid.IntRange(1, p.maxSeries).Draw(t, "s"),
			T: int64(rapid.IntRange(0, p.maxTimes-1).Draw(t, "t")),
			V: rapid.SampledFrom(p.versions).Draw(t, "ver"),
		}
		for fi, f := range sc.Fams {
			var tv []mVal
			for ti, tg := range f.Tags {
				tv = append(tv, genTagVal(t, tg.Type, p.hostileValues, fmt.Sprintf("tag%d.%d", fi, ti)))
			}
			r.Tags = append(r.Tags, tv)
		}
		for fi, f := range sc.Fields {
			if fi == 0 { // the identifying payload: unique per written row
				*seq++
				r.Fields = append(r.Fields, mVal{K: "int", I: *seq})
				continue
			}
			r.Fields = append(r.Fields, genFieldVal(t, f.Type, p.hostileValues, fmt.Sprintf("field%d", fi), seq))
		}
		rows = append(rows, r)
	}
	return rows
}

func genQuery(t *rapid.T, p genProfile, schemas []mSchema) *mQuery {
	q := &mQuery{Variant: rapid.IntRange(0, len(schemas)-1).Draw(t, "qv"), Order: rapid.SampledFrom([]string{"sid", "asc", "desc"}).Draw(t, "order")}
	n := rapid.IntRange(1, min(p.maxSeries, 6)).Draw(t, "nsids")
	q.Sids = rapid.SliceOfNDistinct(rapid.IntRange(1, p.maxSeries), n, n, rapid.ID[int]).Draw(t, "sids")
	a := int64(rapid.IntRange(-1, p.maxTimes).Draw(t, "mint"))
	b := int64(rapid.IntRange(-1, p.maxTimes).Draw(t, "maxt"))
	if a > b {
		a, b = b, a
	}
	q.MinT, q.MaxT = a, b
	sc := schemas[q.Variant]
	if rapid.Bool().Draw(t, "proj") {
		for _, f := range sc.Fams {
			mask := make([]bool, len(f.Tags))
			for i := range mask {
				mask[i] = rapid.Bool().Draw(t, "tm")
			}
			q.TagMask = append(q.TagMask, mask)
		}
		q.FieldMask = make([]bool, len(sc.Fields))
		for i := range q.FieldMask {
			q.FieldMask[i] = rapid.Bool().Draw(t, "fm")
		}
	}
	return q
}

func genMeasureCase(t *rapid.T, p genProfile) mCase {
	c := mCase{Schemas: genSchemas(t, p)}
	var seq int64
	nb := rapid.IntRange(1, p.maxBatches).Draw(t, "batches")
	for b := 0; b < nb; b++ {
		v := rapid.IntRange(0, len(c.Schemas)-1).Draw(t, "variant")
		n := rapid.IntRange(1, p.maxRows).Draw(t, "rows")
		if p.bigBatch && rapid.IntRange(0, 24).Draw(t, "big") == 0 {
			// one series, > 8192 distinct timestamps: crosses the block length limit
			big := mOp{Kind: "write", Variant: v}
			cnt := rapid.IntRange(maxBlockLength-2, maxBlockLength+300).Draw(t, "bign")
			sid := rapid.IntRange(1, p.maxSeries).Draw(t, "bigs")
			for i := 0; i < cnt; i++ {
				seq++
				r := mRow{S: sid, T: int64(1000 + i), V: 1}
				for range c.Schemas[v].Fams {
					r.Tags = append(r.Tags, nil)
				}
				r.Fields = append(r.Fields, mVal{K: "int", I: seq})
				big.Rows = append(big.Rows, r)
			}
			c.Ops = append(c.Ops, big)
		} else if p.dense && rapid.IntRange(0, 7).Draw(t, "dense") == 0 {
			c.Ops = append(c.Ops, mOp{Kind: "dense", Variant: v, WideN: rapid.IntRange(2, 8).Draw(t, "densek"), WideBase: rapid.IntRange(1, 3).Draw(t, "denseb"),
				DenseN: rapid.IntRange(250, 330).Draw(t, "densen"), WideT: int64(rapid.IntRange(0, 50).Draw(t, "denset")), WideStep: int64(rapid.IntRange(1, 2).Draw(t, "densestep"))})
		} else if p.wide && rapid.IntRange(0, 11).Draw(t, "wide") == 0 {
			c.Ops = append(c.Ops, mOp{Kind: "wide", Variant: v, WideN: rapid.IntRange(1800, 2600).Draw(t, "widen"), WideBase: 100,
				WideT: int64(rapid.IntRange(0, 5).Draw(t, "widet")), WideStep: int64(rapid.IntRange(0, 2).Draw(t, "widestep"))})
		} else {
			c.Ops = append(c.Ops, mOp{Kind: "write", Variant: v, Rows: genRows(t, p, c.Schemas[v], n, &seq)})
		}
		if !p.maintenance {
			continue
		}
		for k := 0; k < rapid.IntRange(0, 3).Draw(t, "nmaint"); k++ {
			switch kind := rapid.SampledFrom([]string{"flush", "flush", "merge", "merge", "mergemem", "reopen", "query"}).Draw(t, "maint"); kind {
			case "merge":
				c.Ops = append(c.Ops, mOp{Kind: "merge", Pick: rapid.SliceOfN(rapid.IntRange(0, 7), 2, 5).Draw(t, "pick")})
			case "query":
				c.Ops = append(c.Ops, mOp{Kind: "query", Query: genQuery(t, p, c.Schemas)})
			default:
				c.Ops = append(c.Ops, mOp{Kind: kind})
			}
		}
	}
	if p.maintenance {
		// a closing sequence that makes merges of >= 2 parts likely
		for k := 0; k < rapid.IntRange(0, 3).Draw(t, "tail"); k++ {
			c.Ops = append(c.Ops, mOp{Kind: rapid.SampledFrom([]string{"flush", "merge", "reopen"}).Draw(t, "tailkind"), Pick: []int{0, 1, 2}})
		}
	}
	for k := 0; k < rapid.IntRange(1, 3).Draw(t, "nq"); k++ {
		c.Ops = append(c.Ops, mOp{Kind: "query", Query: genQuery(t, p, c.Schemas)})
	}
	return c
}

// compact sample rendering for the evidence file
func sampleOfCase(c mCase) any {
	type opS struct {
		Kind string `json:"kind"`
		Rows int    `json:"rows,omitempty"`
		Pick []int  `json:"pick,omitempty"`
		Q    any    `json:"query,omitempty"`
		Row0 *mRow  `json:"first_row,omitempty"`
	}
	var ops []opS
	for _, op := range c.Ops {
		o := opS{Kind: op.Kind, Rows: len(op.Rows) + op.WideN*max(op.DenseN, 1), Pick: op.Pick}
		if op.Query != nil {
			o.Q = op.Query
		}
		if len(op.Rows) > 0 {
			r := op.Rows[0]
			o.Row0 = &r
		}
		ops = append(ops, o)
	}
	return map[string]any{"schemas": c.Schemas, "ops": ops}
}

// ---------------------------------------------------------------------------------------------
// C02 — highest version wins
// ---------------------------------------------------------------------------------------------

func TestVerifC02(t *testing.T) {
	p := genProfile{maxSeries: 3, maxTimes: 5, maxBatches: 6, maxRows: 12, versions: []int64{1, 1, 2, 2, 3, 5, 10, 30, 50, -1, 0, math.MaxInt64, math.MinInt64},
		maintenance: true}
	verifkit.Run(t, verifkit.Spec[mCase]{
		Property: "C02", Unit: "measure_l1", CrashReplay: true,
		Rule: "histories over a tiny key space (<=3 series x <=5 timestamps) with 1..6 write batches of 1..12 rows (versions from {1,2,3,5,10,30,50,-1,0,Min,Max} " +
			"incl. ties; every written row carries a unique payload), interleaved with flush / merge-memory-parts / merge of an arbitrary subset of file parts / " +
			"reopen / query steps against the real tsTable; oracle: after every step and for every query exactly one row per (series,timestamp) whose version is the " +
			"maximum written and whose payload belongs to a write with that version; non-trivial = some key has >= 2 writes living in >= 2 different batches (parts)",
		Gen: func(t *rapid.T, _ *verifkit.KnownSet) mCase { return genMeasureCase(t, p) },
		Check: func(x *verifkit.Ctx, c mCase) error {
			st, err := runMeasureHistory(x, c)
			if err != nil {
				return err
			}
			x.LabelIf(st.keysInTwoParts, "key in >=2 parts")
			x.LabelIf(st.dupInBatch, "duplicate key inside one batch")
			x.LabelIf(st.merges > 0, "file merge of >=2 parts")
			x.LabelIf(st.memMerges > 0, "memory-part merge")
			x.LabelIf(st.reopens > 0, "reopen")
			x.LabelIf(st.keysInTwoParts && st.merges > 0, "duplicate key across merged parts")
			if st.keysInTwoParts {
				x.NonTrivial()
			}
			return nil
		},
		SampleOf:     sampleOfCase,
		MinLabelFrac: map[string]float64{"key in >=2 parts": 0.4, "file merge of >=2 parts": 0.15, "duplicate key inside one batch": 0.3},
	})
}

// ---------------------------------------------------------------------------------------------
// C03 — flush and merge never change what queries return (measure)
// ---------------------------------------------------------------------------------------------

func TestVerifC03Measure(t *testing.T) {
	p := genProfile{maxSeries: 6, maxTimes: 12, maxBatches: 7, maxRows: 30, versions: []int64{1, 2, 3, 7}, richSchema: true, variants: true,
		wide: true, bigBatch: true, maintenance: true}
	verifkit.Run(t, verifkit.Spec[mCase]{
		Property: "C03", Unit: "measure_l1", CrashReplay: true,
		Rule: "histories with a generated schema (1-3 tag families, all tag/field types, optionally a second schema variant in which one tag changes type " +
			"between batches), 1..7 write batches (occasionally one series with > 8192 points, or ~2000 series in one batch to force several primary blocks), " +
			"interleaved with flush / merge-memory / merge(any subset of file parts, fan-in 2-5) / reopen / query(range, series subset, projection, order); " +
			"oracles: (1) every query and a full scan after every step equal the version-resolved model, (2) each merge output scanned alone equals the " +
			"union of its inputs scanned alone under every schema variant, (3) block rows <= 8192, strictly increasing timestamps, block/part metadata equal the " +
			"data; non-trivial = a merge of >= 2 parts followed by a query",
		Gen: func(t *rapid.T, _ *verifkit.KnownSet) mCase { return genMeasureCase(t, p) },
		Check: func(x *verifkit.Ctx, c mCase) error {
			st, err := runMeasureHistory(x, c)
			if err != nil {
				return err
			}
			x.LabelIf(st.merges > 0, "file merge of >=2 parts")
			x.LabelIf(st.fanIn3, "fan-in >=3")
			x.LabelIf(st.conflictMerge, "merge with conflicting tag types")
			x.LabelIf(st.multiPrimary, "part with >1 primary block")
			x.LabelIf(st.bigBlock, "batch crossing the 8192-row block limit")
			x.LabelIf(st.memMerges > 0, "memory-part merge")
			x.LabelIf(st.reopens > 0, "reopen")
			x.LabelIf(len(c.Schemas) > 1, "two schema variants")
			if st.mergedNonEmpty2 && st.queryAfterMerge {
				x.NonTrivial()
			}
			return nil
		},
		SampleOf:     sampleOfCase,
		MinLabelFrac: map[string]float64{"file merge of >=2 parts": 0.25, "fan-in >=3": 0.03, "merge with conflicting tag types": 0.01, "part with >1 primary block": 0.02},
	})
}

// ---------------------------------------------------------------------------------------------
// C01 — acknowledged writes are returned exactly as written (measure, L1)
// ---------------------------------------------------------------------------------------------

func TestVerifC01Measure(t *testing.T) {
	p := genProfile{maxSeries: 8, maxTimes: 400, maxBatches: 4, maxRows: 60, versions: []int64{1, 2}, richSchema: true, bigBatch: true, hostileValues: true,
		maintenance: true, dense: true}
	verifkit.Run(t, verifkit.Spec[mCase]{
		Property: "C01", Unit: "measure_l1", CrashReplay: true,
		Rule: "measure write batches through the engine's own TagValue/FieldValue encoders with a generated schema (1-3 tag families; int/str/binary/int-array/" +
			"str-array tags; int/float/str/binary fields) and hostile values (int64/float64 extremes and every float class, strings with delimiter/escape bytes, empty " +
			"vs null, arrays, > 8192 rows in a series), then covering queries (full and sub-ranges, projections, three orders) before and after flush/merge/reopen; " +
			"oracle: result == written multiset restricted to range and projection, every value identical (floats by bits; documented null read-back of empty values); " +
			"non-trivial = >= 2 batches or >= 1 flush",
		Gen: func(t *rapid.T, _ *verifkit.KnownSet) mCase { return genMeasureCase(t, p) },
		Check: func(x *verifkit.Ctx, c mCase) error {
			st, err := runMeasureHistory(x, c)
			if err != nil {
				return err
			}
			x.LabelIf(st.flushes > 0, "flushed to file part")
			x.LabelIf(st.merges > 0, "merged")
			x.LabelIf(st.bigBlock, "batch crossing the 8192-row block limit")
			x.LabelIf(st.writes >= 2, ">=2 batches")
			x.LabelIf(st.dense, "dense batch (>256 distinct values per block: plain encoding)")
			if st.writes >= 2 || st.flushes > 0 {
				x.NonTrivial()
			}
			return nil
		},
		SampleOf: sampleOfCase,
		MinLabelFrac: map[string]float64{"flushed to file part": 0.3, "batch crossing the 8192-row block limit": 0.02,
			"dense batch (>256 distinct values per block: plain encoding)": 0.1},
	})
}

// ---------------------------------------------------------------------------------------------
// C09 — ordered results (measure, L1): the engine's merge of block cursors over several parts
// returns each series chunk in the requested timestamp order and series in the requested order.
// ---------------------------------------------------------------------------------------------

func TestVerifC09Measure(t *testing.T) {
	p := genProfile{maxSeries: 5, maxTimes: 40, maxBatches: 6, maxRows: 40, versions: []int64{1, 2, 3}, maintenance: true}
	verifkit.Run(t, verifkit.Spec[mCase]{
		Property: "C09", Unit: "measure_l1", CrashReplay: true,
		Rule: "measure histories (<=5 series x <=40 timestamps, 1..6 batches, flush/merge/reopen in between) queried with series subsets in arbitrary " +
			"requested order, sub-ranges and the three orderings (by requested series order then time; by time ascending; by time descending) over rows " +
			"spread across several parts; oracle: result == model and the documented order holds (strictly increasing/decreasing timestamps per series chunk, " +
			"series in requested order); non-trivial = a query whose rows come from >= 2 parts",
		Gen: func(t *rapid.T, _ *verifkit.KnownSet) mCase {
			c := genMeasureCase(t, p)
			for k := 0; k < 4; k++ {
				c.Ops = append(c.Ops, mOp{Kind: "query", Query: genQuery(t, p, c.Schemas)})
			}
			return c
		},
		Check: func(x *verifkit.Ctx, c mCase) error {
			st, err := runMeasureHistory(x, c)
			if err != nil {
				return err
			}
			x.LabelIf(st.keysInTwoParts, "rows of a key in >=2 parts")
			x.LabelIf(st.writes >= 2, "rows from >=2 parts")
			x.LabelIf(st.merges > 0, "merged")
			if st.writes >= 2 {
				x.NonTrivial()
			}
			return nil
		},
		SampleOf: sampleOfCase,
	})
}

// ---------------------------------------------------------------------------------------------
// C05 — queries see one consistent snapshot while maintenance runs (measure, deterministic part)
// C19 — a file snapshot is a consistent, openable point-in-time copy (measure shard)
// ---------------------------------------------------------------------------------------------

func genSplitCase(t *rapid.T, p genProfile, extra []string) mCase {
	c := mCase{Schemas: genSchemas(t, p)}
	var seq int64
	nb := rapid.IntRange(2, p.maxBatches).Draw(t, "batches")
	multiSeg := rapid.IntRange(0, 2).Draw(t, "multiseg") == 0 || p.multiSeg
	// in a write-queue table every memory part carries the (non-zero) id of its segment; 0 only occurs in a
	// table that belongs to one segment, where no part carries an id
	segOf := func() int64 {
		if !multiSeg {
			return 0
		}
		return int64(rapid.IntRange(1, 3).Draw(t, "seg"))
	}
	for b := 0; b < nb; b++ {
		w := mOp{Kind: "write", Rows: genRows(t, p, c.Schemas[0], rapid.IntRange(1, p.maxRows).Draw(t, "rows"), &seq)}
		if multiSeg {
			// memory parts of several segments pile up in one table (a liaison write queue): runs of 2..3 per segment
			w.Seg = int64(1 + b%3)
			c.Ops = append(c.Ops, w)
			if rapid.IntRange(0, 2).Draw(t, "pair") > 0 {
				// usually two memory parts per segment; sometimes one that is alone in its segment
				c.Ops = append(c.Ops, mOp{Kind: "write", Seg: w.Seg, Rows: genRows(t, p, c.Schemas[0], rapid.IntRange(1, p.maxRows).Draw(t, "rowsb"), &seq)})
			}
			if b%2 == 1 {
				// >= 2 memory parts of each of two segments are pending: one merge round handles both groups
				c.Ops = append(c.Ops, mOp{Kind: "mergemem"})
			} else if rapid.Bool().Draw(t, "pileup") {
				continue
			}
		} else {
			c.Ops = append(c.Ops, w)
		}
		for k := 0; k < rapid.IntRange(1, 4).Draw(t, "nsteps"); k++ {
			kind := rapid.SampledFrom(append([]string{"flush", "flush", "merge", "merge", "mergemem", "write"}, extra...)).Draw(t, "step")
			switch kind {
			case "merge":
				c.Ops = append(c.Ops, mOp{Kind: "merge", Pick: rapid.SliceOfN(rapid.IntRange(0, 7), 2, 4).Draw(t, "pick")})
			case "write":
				c.Ops = append(c.Ops, mOp{Kind: "write", Seg: segOf(), Rows: genRows(t, p, c.Schemas[0], rapid.IntRange(1, p.maxRows).Draw(t, "rows2"), &seq)})
			case "qopen":
				slot := rapid.IntRange(1, 3).Draw(t, "slot")
				c.Ops = append(c.Ops, mOp{Kind: "qopen", Slot: slot, Query: genQuery(t, p, c.Schemas)})
				// the window of the pinned query: 1..3 state-changing steps, usually a publication
				for w := 0; w < rapid.IntRange(1, 3).Draw(t, "window"); w++ {
					switch rapid.SampledFrom([]string{"flush", "merge", "merge", "mergemem", "write"}).Draw(t, "wstep") {
					case "merge":
						c.Ops = append(c.Ops, mOp{Kind: "merge", Pick: rapid.SliceOfN(rapid.IntRange(0, 7), 2, 4).Draw(t, "wpick")})
					case "write":
						c.Ops = append(c.Ops, mOp{Kind: "write", Seg: segOf(), Rows: genRows(t, p, c.Schemas[0], rapid.IntRange(1, p.maxRows).Draw(t, "wrows"), &seq)})
					case "mergemem":
						c.Ops = append(c.Ops, mOp{Kind: "mergemem"})
					default:
						c.Ops = append(c.Ops, mOp{Kind: "flush"})
					}
				}
				if rapid.IntRange(0, 3).Draw(t, "drainnow") > 0 {
					c.Ops = append(c.Ops, mOp{Kind: "qdrain", Slot: slot})
				}
			case "qdrain":
				c.Ops = append(c.Ops, mOp{Kind: "qdrain", Slot: rapid.IntRange(1, 3).Draw(t, "slot")})
			default:
				c.Ops = append(c.Ops, mOp{Kind: kind})
			}
		}
	}
	return c
}

func TestVerifC05Measure(t *testing.T) {
	p := genProfile{maxSeries: 4, maxTimes: 10, maxBatches: 6, maxRows: 15, versions: []int64{1, 2, 3}}
	verifkit.Run(t, verifkit.Spec[mCase]{
		Property: "C05", Unit: "measure_split", CrashReplay: true,
		Rule: "measure histories whose coarse steps are interleaved with SPLIT queries: qopen pins the current snapshot and builds the block cursors, qdrain " +
			"(any number of steps later) loads the blocks and merges them; between the two the history writes, flushes, merges memory parts and merges arbitrary " +
			"subsets of file parts (publication + deletion of replaced parts) - up to 3 queries are open at once; oracle: a drained query equals the model AS OF " +
			"ITS OPEN (snapshot isolation, batch all-or-nothing), never errors or reads a deleted file, non-pinned queries equal the current model after every " +
			"step, and once every pin is released the part directories equal the current snapshot's file parts (replaced parts deleted, nothing else); " +
			"non-trivial = a query whose open..drain window contains a flush or merge publication",
		Gen: func(t *rapid.T, _ *verifkit.KnownSet) mCase {
			return genSplitCase(t, p, []string{"qopen", "qopen", "qopen", "qdrain", "qdrain"})
		},
		SampleOf: sampleOfCase,
		Check: func(x *verifkit.Ctx, c mCase) error {
			st, err := runMeasureHistory(x, c)
			if err != nil {
				return err
			}
			x.LabelIf(st.pinAcrossMerge, "query pinned across a publication")
			x.LabelIf(st.pinnedQueries > 0, "pinned query")
			x.LabelIf(st.merges > 0, "file merge")
			if st.pinAcrossMerge {
				x.NonTrivial()
			}
			return nil
		},
		MinLabelFrac: map[string]float64{"query pinned across a publication": 0.3, "file merge": 0.2},
	})
}

func TestVerifC17MeasureSegments(t *testing.T) {
	p := genProfile{maxSeries: 4, maxTimes: 10, maxBatches: 6, maxRows: 15, versions: []int64{1, 2, 3}, multiSeg: true}
	verifkit.Run(t, verifkit.Spec[mCase]{
		Property: "C17", Unit: "measure_wqueue_segments", CrashReplay: true,
		Rule: "the coordinator's write queue table of the measure engine: memory parts of several time segments pile up in one table (1..2 per segment and round), " +
			"merge rounds of memory parts (the step that produces the parts shipped to the data nodes), flushes, file merges and queries in between; oracle: a merge " +
			"round merges only memory parts of ONE segment with each other - a memory part that is alone in its segment stays, every group of >= 2 becomes exactly " +
			"one file part - so that no shipped part spans two segments (the data node files a part under the segment of its minimum timestamp), and every query " +
			"equals the model; non-trivial = a merge round that meets a memory part alone in its segment next to other segments' parts",
		Gen:      func(t *rapid.T, _ *verifkit.KnownSet) mCase { return genSplitCase(t, p, nil) },
		SampleOf: sampleOfCase,
		Check: func(x *verifkit.Ctx, c mCase) error {
			st, err := runMeasureHistory(x, c)
			if err != nil {
				return err
			}
			x.LabelIf(st.memMerges > 0, "memory-part merge round")
			x.LabelIf(st.loneMemPart, "memory part alone in its segment at a merge round")
			if st.loneMemPart {
				x.NonTrivial()
			}
			return nil
		},
		MinLabelFrac: map[string]float64{"memory-part merge round": 0.5, "memory part alone in its segment at a merge round": 0.2},
	})
}

func TestVerifC19Measure(t *testing.T) {
	p := genProfile{maxSeries: 4, maxTimes: 10, maxBatches: 6, maxRows: 15, versions: []int64{1, 2, 3}}
	verifkit.Run(t, verifkit.Spec[mCase]{
		Property: "C19", Unit: "measure_snapshot", CrashReplay: true,
		Rule: "measure shard histories (writes, flushes, memory-part merges, merges of arbitrary file-part subsets) with TakeFileSnapshot requests at generated " +
			"positions - in particular while memory parts exist and right after merges; oracle: the snapshot directory holds exactly one manifest, every part it " +
			"lists is present and passes validatePartMetadata, no unlisted part is present, the directory opens with the real open path and a query on the " +
			"restored copy returns exactly the batches flushed before the request (a prefix of the acknowledged batches, never a mixture); " +
			"non-trivial = a snapshot taken while memory parts exist or after a merge",
		Known: []verifkit.Known[mCase]{{Key: "snapshot-manifest-lists-memory-parts", Match: func(c mCase) bool {
			// class: a snapshot request preceded by a write with no flush in between (memory parts exist)
			dirty := false
			for _, op := range c.Ops {
				switch op.Kind {
				case "write":
					dirty = true
				case "flush":
					dirty = false
				case "snapshot":
					if dirty {
						return true
					}
				}
			}
			return false
		}}},
		Gen: func(t *rapid.T, ks *verifkit.KnownSet) mCase {
			c := genSplitCase(t, p, []string{"snapshot", "snapshot", "snapshot"})
			if ks.Active("snapshot-manifest-lists-memory-parts") {
				// construct around the recorded finding: flush before every snapshot request
				var ops []mOp
				for _, op := range c.Ops {
					if op.Kind == "snapshot" {
						ops = append(ops, mOp{Kind: "flush"})
						ks.Excluded("snapshot-manifest-lists-memory-parts")
					}
					ops = append(ops, op)
				}
				c.Ops = ops
			}
			return c
		},
		SampleOf: sampleOfCase,
		Check: func(x *verifkit.Ctx, c mCase) error {
			st, err := runMeasureHistory(x, c)
			if err != nil {
				return err
			}
			x.LabelIf(st.snapshots > 0, "snapshot taken")
			x.LabelIf(st.snapWithMem, "snapshot while memory parts exist")
			x.LabelIf(st.snapAfterMerge, "snapshot after a merge")
			if st.snapWithMem || st.snapAfterMerge {
				x.NonTrivial()
			}
			return nil
		},
		MinLabelFrac: map[string]float64{"snapshot taken": 0.5},
	})
}

// ---------------------------------------------------------------------------------------------
// C08 — no block-, part- or series-level pruning structure discards a matching row (measure).
// Parts with several primary blocks and a series whose blocks straddle a primary-block boundary,
// queried by single series, small series subsets and narrow time windows.
// ---------------------------------------------------------------------------------------------

func TestVerifC08MeasurePruning(t *testing.T) {
	sc := mSchema{Fams: []mFamSpec{{Name: "tf", Tags: []mTagSpec{{Name: "a", Type: "str"}}}}, Fields: []mFieldSpec{{Name: "v", Type: "int"}}}
	verifkit.Run(t, verifkit.Spec[mCase]{
		Property: "C08", Unit: "measure_pruning", CrashReplay: true,
		Rule: "a measure part with several primary blocks (2700-3600 one-row series) plus one series of > 8192 points placed at a generated position among them " +
			"(so that its blocks may straddle a primary-block boundary), optionally written in two batches and merged; queries select that series alone, " +
			"small series subsets around it and narrow time windows; oracle: every query equals the model (series-, primary-block-, block- and part-level " +
			"pruning by series id and time bounds never drops a matching row) and single-series results equal the restriction of the all-series scan; " +
			"non-trivial = the part has > 1 primary block",
		Gen: func(t *rapid.T, _ *verifkit.KnownSet) mCase {
			c := mCase{Schemas: []mSchema{sc}}
			n := rapid.IntRange(2700, 3600).Draw(t, "n")
			base := 100
			big := base + rapid.IntRange(n/3, n-1).Draw(t, "bigpos")
			var seq int64
			mkBig := func(from, cnt int) mOp {
				op := mOp{Kind: "write"}
				for i := 0; i < cnt; i++ {
					seq++
					op.Rows = append(op.Rows, mRow{S: big, T: int64(from + i), V: 1, Tags: [][]mVal{{{K: "str", S: "x"}}}, Fields: []mVal{{K: "int", I: seq}}})
				}
				return op
			}
			cnt := rapid.IntRange(8193, 8400).Draw(t, "cnt")
			c.Ops = append(c.Ops, mOp{Kind: "wide", WideN: n, WideBase: base, WideT: 5, WideStep: int64(rapid.IntRange(0, 1).Draw(t, "step"))}, mOp{Kind: "flush"})
			q := func(sids []int, a, b int64) {
				c.Ops = append(c.Ops, mOp{Kind: "query", Query: &mQuery{Sids: sids, MinT: a, MaxT: b, Order: rapid.SampledFrom([]string{"sid", "asc", "desc"}).Draw(t, "order")}})
			}
			if rapid.IntRange(0, 3).Draw(t, "boundary") > 0 {
				// the big series sits exactly on the primary-block boundary of the merged part
				c.Ops = append(c.Ops, mOp{Kind: "boundarybig", WideN: cnt}, mOp{Kind: "flush"}, mOp{Kind: "merge", Pick: []int{0, 1}})
				q([]int{0}, -1, 1<<30)
				q([]int{0}, 1000, 1005)
				q([]int{0}, int64(1000+cnt-3), 1<<30)
				q([]int{-1, 0}, -1, 1<<30)
				q([]int{0, 1 - 0 + 0}, -1, 1<<30)
				q([]int{-2}, -1, 1<<30)
			} else {
				if rapid.Bool().Draw(t, "split") {
					c.Ops = append(c.Ops, mkBig(1000, cnt/2), mOp{Kind: "flush"}, mkBig(1000+cnt/2, cnt-cnt/2), mOp{Kind: "flush"}, mOp{Kind: "merge", Pick: []int{0, 1, 2}})
				} else {
					c.Ops = append(c.Ops, mkBig(1000, cnt), mOp{Kind: "flush"}, mOp{Kind: "merge", Pick: []int{0, 1}})
				}
				q([]int{big}, -1, 1<<30)
				q([]int{big}, 1000, 1005)
				q([]int{big}, int64(1000+cnt-3), 1<<30)
				q([]int{big - 1, big, big + 1}, -1, 1<<30)
				q([]int{big + 1}, -1, 1<<30)
				q([]int{base, big, base + n - 1}, 0, int64(1000+rapid.IntRange(0, cnt).Draw(t, "cut")))
			}
			return c
		},
		SampleOf: sampleOfCase,
		Check: func(x *verifkit.Ctx, c mCase) error {
			st, err := runMeasureHistory(x, c)
			if err != nil {
				return err
			}
			x.LabelIf(st.multiPrimary, "part with >1 primary block")
			x.LabelIf(st.merges > 0, "merged")
			if st.multiPrimary {
				x.NonTrivial()
			}
			return nil
		},
		MinLabelFrac: map[string]float64{"part with >1 primary block": 0.8},
	})
}
