package measure

import (
	"context"
	"fmt"
	"sort"
	"testing"
	"time"

	"google.golang.org/protobuf/types/known/timestamppb"
	"pgregory.net/rapid"

	"github.com/apache/skywalking-banyandb/api/common"
	commonv1 "github.com/apache/skywalking-banyandb/api/proto/banyandb/common/v1"
	databasev1 "github.com/apache/skywalking-banyandb/api/proto/banyandb/database/v1"
	measurev1 "github.com/apache/skywalking-banyandb/api/proto/banyandb/measure/v1"
	modelv1 "github.com/apache/skywalking-banyandb/api/proto/banyandb/model/v1"
	"github.com/apache/skywalking-banyandb/banyand/internal/storage"
	"github.com/apache/skywalking-banyandb/pkg/timestamp"
	"github.com/apache/skywalking-banyandb/verifkit"
)

// C06 (writer side, measure engine): the real write callback files every accepted data point under the
// segment that contains its timestamp, and the segments it creates sit on the configured local day grid
// and keep their boundaries across a restart - in whatever time zone the process runs.

type c06Point struct {
	Day    int `json:"day"`    // days from the base day (local calendar)
	Minute int `json:"minute"` // minute of the local day
}

type c06Case struct {
	Zone    string       `json:"zone"`
	Batches [][]c06Point `json:"batches"`
	Restart bool         `json:"restart"`
}

const c06Name = "verif-c06"

func c06Schema() *databasev1.Measure {
	return &databasev1.Measure{
		Metadata:    &commonv1.Metadata{Name: c06Name, Group: meGroup},
		TagFamilies: []*databasev1.TagFamilySpec{{Name: "default", Tags: []*databasev1.TagSpec{{Name: "svc", Type: databasev1.TagType_TAG_TYPE_STRING}}}},
		Fields:      []*databasev1.FieldSpec{{Name: "value", FieldType: databasev1.FieldType_FIELD_TYPE_INT, EncodingMethod: databasev1.EncodingMethod_ENCODING_METHOD_GORILLA, CompressionMethod: databasev1.CompressionMethod_COMPRESSION_METHOD_ZSTD}},
		Entity:      &databasev1.Entity{TagNames: []string{"svc"}},
		Interval:    "1ms",
	}
}

type c06Seg struct {
	start, end time.Time
	minTS      int64 // of the stored points (0 if none)
	maxTS      int64
	rows       uint64
}

func (e *meEnv) c06Segments() ([]c06Seg, error) {
	segs, err := e.db.SelectSegments(timestamp.NewInclusiveTimeRange(time.Unix(1, 0), time.Unix(1<<34, 0)), true)
	if err != nil {
		return nil, err
	}
	var out []c06Seg
	for _, s := range segs {
		tr := s.GetTimeRange()
		cs := c06Seg{start: tr.Start, end: tr.End}
		tt, _ := s.Tables()
		for _, tst := range tt {
			snp := tst.currentSnapshot()
			if snp == nil {
				continue
			}
			for _, pw := range snp.parts {
				pm := pw.p.partMetadata
				if pm.TotalCount == 0 {
					continue
				}
				if cs.rows == 0 || pm.MinTimestamp < cs.minTS {
					cs.minTS = pm.MinTimestamp
				}
				if pm.MaxTimestamp > cs.maxTS {
					cs.maxTS = pm.MaxTimestamp
				}
				cs.rows += pm.TotalCount
			}
			snp.decRef()
		}
		out = append(out, cs)
		s.DecRef()
	}
	sort.Slice(out, func(i, j int) bool { return out[i].start.Before(out[j].start) })
	return out, nil
}

func runC06Engine(x *verifkit.Ctx, c c06Case) (segments int, err error) {
	loc, lerr := time.LoadLocation(c.Zone)
	if lerr != nil {
		return 0, lerr
	}
	old := time.Local
	time.Local = loc
	defer func() { time.Local = old }()
	e, nerr := newMeEnv(c06Schema(), nil)
	if nerr != nil {
		return 0, nerr
	}
	defer e.close()
	base := time.Date(2024, 6, 15, 0, 0, 0, 0, loc)
	var written []time.Time
	n := 0
	for _, b := range c.Batches {
		var events []any
		for i, p := range b {
			n++
			ts := base.AddDate(0, 0, p.Day).Add(time.Duration(p.Minute) * time.Minute).Add(time.Duration(n) * time.Millisecond)
			req := &measurev1.WriteRequest{
				DataPoint: &measurev1.DataPointValue{
					Timestamp:   timestamppb.New(ts),
					TagFamilies: []*modelv1.TagFamilyForWrite{{Tags: []*modelv1.TagValue{{Value: &modelv1.TagValue_Str{Str: &modelv1.Str{Value: "svc-0"}}}}}},
					Fields:      []*modelv1.FieldValue{{Value: &modelv1.FieldValue_Int{Int: &modelv1.Int{Value: int64(n)}}}}, Version: 1,
				},
				MessageId: uint64(n),
			}
			if i == 0 {
				req.Metadata = &commonv1.Metadata{Name: c06Name, Group: meGroup}
			}
			events = append(events, &measurev1.InternalWriteRequest{ShardId: 0, EntityValues: []*modelv1.TagValue{{Value: &modelv1.TagValue_Str{Str: &modelv1.Str{Value: "svc-0"}}}}, Request: req})
			written = append(written, ts)
		}
		e.VerifWrite(events)
	}
	e.flushAll()
	check := func(what string) ([]c06Seg, error) {
		segs, serr := e.c06Segments()
		if serr != nil {
			return nil, fmt.Errorf("%s: listing segments failed: %v", what, serr)
		}
		var stored uint64
		for i, s := range segs {
			ls := s.start.In(loc)
			if ls.Hour() != 0 || ls.Minute() != 0 || ls.Second() != 0 || ls.Nanosecond() != 0 {
				return nil, fmt.Errorf("%s: segment [%s, %s) does not start on the day grid of the process time zone %s", what, ls, s.end.In(loc), c.Zone)
			}
			if want := ls.AddDate(0, 0, 1); !s.end.Equal(want) {
				return nil, fmt.Errorf("%s: segment [%s, %s) is not one day long (zone %s)", what, ls, s.end.In(loc), c.Zone)
			}
			if i > 0 && s.start.Before(segs[i-1].end) {
				return nil, fmt.Errorf("%s: segments [%s,%s) and [%s,%s) overlap", what, segs[i-1].start.In(loc), segs[i-1].end.In(loc), ls, s.end.In(loc))
			}
			if s.rows > 0 && (s.minTS < s.start.UnixNano() || s.maxTS >= s.end.UnixNano()) {
				return nil, fmt.Errorf("%s: segment [%s,%s) stores points from %s to %s: a point is filed under a segment that does not contain its timestamp",
					what, ls, s.end.In(loc), time.Unix(0, s.minTS).In(loc), time.Unix(0, s.maxTS).In(loc))
			}
			stored += s.rows
		}
		for _, ts := range written {
			k := 0
			for _, s := range segs {
				if !ts.Before(s.start) && ts.Before(s.end) {
					k++
				}
			}
			if k != 1 {
				return nil, fmt.Errorf("%s: the accepted timestamp %s falls into %d segments", what, ts.In(loc), k)
			}
		}
		if stored != uint64(len(written)) {
			return nil, fmt.Errorf("%s: %d points are stored, %d were accepted", what, stored, len(written))
		}
		return segs, nil
	}
	before, cerr := check("after the writes")
	if cerr != nil {
		return 0, cerr
	}
	if c.Restart {
		if rerr := e.reopen(); rerr != nil {
			return len(before), fmt.Errorf("restart failed: %v", rerr)
		}
		after, aerr := check("after a restart")
		if aerr != nil {
			return len(before), aerr
		}
		if len(after) != len(before) {
			return len(before), fmt.Errorf("%d segments before the restart, %d after", len(before), len(after))
		}
		for i := range after {
			if !after[i].start.Equal(before[i].start) || !after[i].end.Equal(before[i].end) {
				return len(before), fmt.Errorf("segment %d was [%s,%s) and is [%s,%s) after the restart", i, before[i].start.In(loc), before[i].end.In(loc), after[i].start.In(loc), after[i].end.In(loc))
			}
		}
	}
	return len(before), nil
}

// reopen closes the database and opens it again on the same directory (a restart of the storage layer).
func (e *meEnv) reopen() error {
	if err := e.db.Close(); err != nil {
		return err
	}
	e.mu.Lock()
	e.tables = nil
	e.mu.Unlock()
	db, err := storage.OpenTSDB(common.SetPosition(context.Background(), func(p common.Position) common.Position {
		p.Module, p.Database = "measure", meGroup
		return p
	}), e.opts, nil, meGroup)
	if err != nil {
		return err
	}
	e.db = db
	e.m.tsdb.Store(db)
	e.repo.Repository = &meFakeRepo{m: e.m, db: db}
	return nil
}

func TestVerifC06MeasureWriter(t *testing.T) {
	verifkit.Run(t, verifkit.Spec[c06Case]{
		Property: "C06", Unit: "measure_writer", CrashReplay: true,
		Rule: "the real measure write callback over a real TSDB (day segments) in a process whose time zone is UTC, Asia/Shanghai, Asia/Kolkata, America/New_York or " +
			"Pacific/Honolulu: 1..4 batches of 1..5 data points at generated local days (-3..3 around 2024-06-15, no DST switch) and minutes, incl. the first and " +
			"last minutes of a local day, then a flush and optionally a restart of the storage layer; oracle: every segment starts at a local midnight and is one " +
			"day long, segments are disjoint, every accepted timestamp lies in exactly one segment, the points stored in a segment lie within it, all points are " +
			"stored, and the boundaries are the same after the restart; non-trivial = >= 2 segments in a zone other than UTC",
		Gen: func(t *rapid.T, _ *verifkit.KnownSet) c06Case {
			c := c06Case{Zone: rapid.SampledFrom([]string{"UTC", "Asia/Shanghai", "Asia/Kolkata", "America/New_York", "Pacific/Honolulu"}).Draw(t, "zone"), Restart: rapid.Bool().Draw(t, "restart")}
			for b := rapid.IntRange(1, 4).Draw(t, "batches"); b > 0; b-- {
				var pts []c06Point
				for i := rapid.IntRange(1, 5).Draw(t, "points"); i > 0; i-- {
					m := rapid.IntRange(0, 1439).Draw(t, "minute")
					switch rapid.IntRange(0, 3).Draw(t, "edge") {
					case 0:
						m = rapid.SampledFrom([]int{0, 1, 1438, 1439}).Draw(t, "edgeminute")
					}
					pts = append(pts, c06Point{Day: rapid.IntRange(-3, 3).Draw(t, "day"), Minute: m})
				}
				c.Batches = append(c.Batches, pts)
			}
			return c
		},
		Check: func(x *verifkit.Ctx, c c06Case) error {
			n, err := runC06Engine(x, c)
			if err != nil {
				return err
			}
			x.Label("zone:" + c.Zone)
			x.LabelIf(c.Restart, "restart")
			x.LabelIf(n >= 2, ">= 2 segments")
			if n >= 2 && c.Zone != "UTC" {
				x.NonTrivial()
			}
			return nil
		},
		MinLabelFrac: map[string]float64{">= 2 segments": 0.3, "restart": 0.15},
	})
}
