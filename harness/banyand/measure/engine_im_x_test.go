package measure_test

import (
	"context"
	"fmt"
	"sort"
	"strings"
	"testing"
	"time"

	"google.golang.org/protobuf/types/known/timestamppb"
	"pgregory.net/rapid"

	commonv1 "github.com/apache/skywalking-banyandb/api/proto/banyandb/common/v1"
	databasev1 "github.com/apache/skywalking-banyandb/api/proto/banyandb/database/v1"
	measurev1 "github.com/apache/skywalking-banyandb/api/proto/banyandb/measure/v1"
	modelv1 "github.com/apache/skywalking-banyandb/api/proto/banyandb/model/v1"
	"github.com/apache/skywalking-banyandb/banyand/measure"
	"github.com/apache/skywalking-banyandb/pkg/query/executor"
	"github.com/apache/skywalking-banyandb/pkg/query/logical"
	logicalmeasure "github.com/apache/skywalking-banyandb/pkg/query/logical/measure"
	"github.com/apache/skywalking-banyandb/verifkit"
)

// C08 (index-mode measure): a measure whose data points live in the series index only. The rows selected
// by a criteria tree are exactly the rows for which the predicate is true of the stored tag values,
// whichever of the tags - the entity tag included - are bound to an index rule.

type imRow struct {
	Svc    int    `json:"svc"`
	Region string `json:"region"`
	Zone   int64  `json:"zone"`
}

type imCrit struct {
	Op    string   `json:"op"` // eq | ne | in | notin | and | or
	Tag   string   `json:"tag,omitempty"`
	Strs  []string `json:"strs,omitempty"`
	Ints  []int64  `json:"ints,omitempty"`
	Left  *imCrit  `json:"left,omitempty"`
	Right *imCrit  `json:"right,omitempty"`
}

type imCase struct {
	SvcRule bool      `json:"svc_rule"` // the entity tag is bound to an index rule as well
	Batches [][]imRow `json:"batches"`
	Queries []*imCrit `json:"queries"`
}

func imSchema() *databasev1.Measure {
	return &databasev1.Measure{
		Metadata: &commonv1.Metadata{Name: meName, Group: meGroup},
		TagFamilies: []*databasev1.TagFamilySpec{{Name: "default", Tags: []*databasev1.TagSpec{
			{Name: "svc", Type: databasev1.TagType_TAG_TYPE_STRING}, {Name: "region", Type: databasev1.TagType_TAG_TYPE_STRING},
			{Name: "zone", Type: databasev1.TagType_TAG_TYPE_INT},
		}}},
		Entity:    &databasev1.Entity{TagNames: []string{"svc"}},
		IndexMode: true,
	}
}

func imRules(svcRule bool) []*databasev1.IndexRule {
	rules := []*databasev1.IndexRule{
		{Metadata: &commonv1.Metadata{Name: "idx-region", Group: meGroup, Id: 1}, Tags: []string{"region"}, Type: databasev1.IndexRule_TYPE_INVERTED},
		{Metadata: &commonv1.Metadata{Name: "idx-zone", Group: meGroup, Id: 2}, Tags: []string{"zone"}, Type: databasev1.IndexRule_TYPE_INVERTED},
	}
	if svcRule {
		rules = append(rules, &databasev1.IndexRule{Metadata: &commonv1.Metadata{Name: "idx-svc", Group: meGroup, Id: 3}, Tags: []string{"svc"}, Type: databasev1.IndexRule_TYPE_INVERTED})
	}
	return rules
}

func (c *imCrit) eval(r imRow) bool {
	val := func() (string, int64, bool) {
		switch c.Tag {
		case "svc":
			return meSvc(r.Svc), 0, true
		case "region":
			return r.Region, 0, true
		}
		return "", r.Zone, false
	}
	switch c.Op {
	case "and":
		return c.Left.eval(r) && c.Right.eval(r)
	case "or":
		return c.Left.eval(r) || c.Right.eval(r)
	}
	s, i, isStr := val()
	hit := false
	if isStr {
		for _, v := range c.Strs {
			if v == s {
				hit = true
			}
		}
	} else {
		for _, v := range c.Ints {
			if v == i {
				hit = true
			}
		}
	}
	if c.Op == "ne" || c.Op == "notin" {
		return !hit
	}
	return hit
}

func (c *imCrit) proto() *modelv1.Criteria {
	switch c.Op {
	case "and", "or":
		op := modelv1.LogicalExpression_LOGICAL_OP_AND
		if c.Op == "or" {
			op = modelv1.LogicalExpression_LOGICAL_OP_OR
		}
		return &modelv1.Criteria{Exp: &modelv1.Criteria_Le{Le: &modelv1.LogicalExpression{Op: op, Left: c.Left.proto(), Right: c.Right.proto()}}}
	}
	var v *modelv1.TagValue
	single := c.Op == "eq" || c.Op == "ne"
	if c.Tag == "zone" {
		if single {
			v = meIntTV(c.Ints[0])
		} else {
			v = &modelv1.TagValue{Value: &modelv1.TagValue_IntArray{IntArray: &modelv1.IntArray{Value: c.Ints}}}
		}
	} else {
		if single {
			v = meStrTV(c.Strs[0])
		} else {
			v = &modelv1.TagValue{Value: &modelv1.TagValue_StrArray{StrArray: &modelv1.StrArray{Value: c.Strs}}}
		}
	}
	op := map[string]modelv1.Condition_BinaryOp{"eq": modelv1.Condition_BINARY_OP_EQ, "ne": modelv1.Condition_BINARY_OP_NE,
		"in": modelv1.Condition_BINARY_OP_IN, "notin": modelv1.Condition_BINARY_OP_NOT_IN}[c.Op]
	return meCond(c.Tag, op, v)
}

func (c *imCrit) String() string {
	switch c.Op {
	case "and", "or":
		return "(" + c.Left.String() + " " + c.Op + " " + c.Right.String() + ")"
	}
	if c.Tag == "zone" {
		return fmt.Sprintf("%s %s %v", c.Tag, c.Op, c.Ints)
	}
	return fmt.Sprintf("%s %s %v", c.Tag, c.Op, c.Strs)
}

func (c *imCrit) onSvc() bool {
	if c == nil {
		return false
	}
	if c.Op == "and" || c.Op == "or" {
		return c.Left.onSvc() || c.Right.onSvc()
	}
	return c.Tag == "svc"
}

func imGenCrit(t *rapid.T, depth int) *imCrit {
	kinds := []string{"eq", "eq", "ne", "in", "notin"}
	if depth > 0 {
		kinds = append(kinds, "and", "and", "or")
	}
	c := &imCrit{Op: rapid.SampledFrom(kinds).Draw(t, "op")}
	if c.Op == "and" || c.Op == "or" {
		c.Left, c.Right = imGenCrit(t, depth-1), imGenCrit(t, depth-1)
		return c
	}
	c.Tag = rapid.SampledFrom([]string{"svc", "svc", "region", "zone"}).Draw(t, "tag")
	n := 1
	if c.Op == "in" || c.Op == "notin" {
		n = rapid.IntRange(1, 3).Draw(t, "n")
	}
	for i := 0; i < n; i++ {
		switch c.Tag {
		case "svc":
			c.Strs = append(c.Strs, meSvc(rapid.IntRange(0, 7).Draw(t, "svc")))
		case "region":
			c.Strs = append(c.Strs, rapid.SampledFrom([]string{"r0", "r1", "r2", "nowhere"}).Draw(t, "region"))
		default:
			c.Ints = append(c.Ints, int64(rapid.IntRange(0, 3).Draw(t, "zone")))
		}
	}
	return c
}

func runIndexMode(x *verifkit.Ctx, c imCase) (svcConds int, err error) {
	env, nerr := measure.VerifNewEnv(imSchema(), imRules(c.SvcRule))
	if nerr != nil {
		return 0, nerr
	}
	e := &meEnv{env}
	defer e.VerifClose()
	latest := map[int]imRow{}
	n := int64(0)
	for _, b := range c.Batches {
		var events []any
		for i, r := range b {
			n++
			msgID++
			req := &measurev1.WriteRequest{
				DataPoint: &measurev1.DataPointValue{
					Timestamp:   timestamppb.New(time.Unix(0, tsOf(n))),
					TagFamilies: []*modelv1.TagFamilyForWrite{{Tags: []*modelv1.TagValue{meStrTV(meSvc(r.Svc)), meStrTV(r.Region), meIntTV(r.Zone)}}},
					Version:     n,
				},
				MessageId: msgID,
			}
			if i == 0 {
				req.Metadata = &commonv1.Metadata{Name: meName, Group: meGroup}
			}
			events = append(events, &measurev1.InternalWriteRequest{ShardId: 0, EntityValues: []*modelv1.TagValue{meStrTV(meSvc(r.Svc))}, Request: req})
			latest[r.Svc] = r
		}
		e.VerifWrite(events)
	}
	md := &commonv1.Metadata{Name: meName, Group: meGroup}
	sch, serr := logicalmeasure.BuildSchema(e.VerifMeasure().GetSchema(), e.VerifMeasure().GetIndexRules())
	if serr != nil {
		return 0, serr
	}
	run := func(crit *imCrit) (got []string, err error) {
		defer func() {
			if r := recover(); r != nil {
				err = fmt.Errorf("panic: %v\n%s", r, meStack())
			}
		}()
		req := &measurev1.QueryRequest{
			Groups: []string{meGroup}, Name: meName, Limit: 1000,
			TimeRange:     &modelv1.TimeRange{Begin: timestamppb.New(time.Unix(0, tsOf(0))), End: timestamppb.New(time.Unix(0, tsOf(1<<20)))},
			TagProjection: &modelv1.TagProjection{TagFamilies: []*modelv1.TagProjection_TagFamily{{Name: "default", Tags: []string{"svc", "region", "zone"}}}},
		}
		if crit != nil {
			req.Criteria = crit.proto()
		}
		plan, perr := logicalmeasure.Analyze(req, []*commonv1.Metadata{md}, []logical.Schema{sch}, []executor.MeasureExecutionContext{e.VerifMeasure()}, false)
		if perr != nil {
			return nil, fmt.Errorf("analyze: %w", perr)
		}
		it, xerr := plan.(executor.MeasureExecutable).Execute(context.Background())
		if xerr != nil {
			return nil, fmt.Errorf("execute: %w", xerr)
		}
		for _, o := range meCollect(it) {
			var parts []string
			for _, tf := range o.dp.GetTagFamilies() {
				for _, tg := range tf.GetTags() {
					switch v := tg.GetValue().GetValue().(type) {
					case *modelv1.TagValue_Str:
						parts = append(parts, tg.GetKey()+"="+v.Str.GetValue())
					case *modelv1.TagValue_Int:
						parts = append(parts, fmt.Sprintf("%s=%d", tg.GetKey(), v.Int.GetValue()))
					default:
						parts = append(parts, tg.GetKey()+"=?")
					}
				}
			}
			got = append(got, strings.Join(parts, ","))
		}
		if cerr := it.Close(); cerr != nil {
			return nil, fmt.Errorf("iterator: %w", cerr)
		}
		sort.Strings(got)
		return got, nil
	}
	for qi, crit := range append([]*imCrit{nil}, c.Queries...) {
		var want []string
		for _, r := range latest {
			if crit == nil || crit.eval(r) {
				want = append(want, fmt.Sprintf("svc=%s,region=%s,zone=%d", meSvc(r.Svc), r.Region, r.Zone))
			}
		}
		sort.Strings(want)
		got, qerr := run(crit)
		desc := "no criteria"
		if crit != nil {
			desc = crit.String()
		}
		if qerr != nil {
			return svcConds, verifkit.Failf("query %d [%s] (entity tag indexed: %v) failed: %v", qi, desc, c.SvcRule, qerr)
		}
		if strings.Join(got, ";") != strings.Join(want, ";") {
			return svcConds, verifkit.Failf("query %d [%s] (entity tag indexed: %v) returns %v, the predicate selects %v of the stored rows", qi, desc, c.SvcRule, got, want)
		}
		if crit.onSvc() {
			svcConds++
		}
	}
	return svcConds, nil
}

func TestVerifC08IndexMode(t *testing.T) {
	verifkit.Run(t, verifkit.Spec[imCase]{
		Property: "C08", Unit: "measure_index_mode", CrashReplay: true,
		Rule: "an index-mode measure (entity tag svc, string tag region, int tag zone; region and zone always bound to inverted rules, the entity tag bound to a rule " +
			"in half of the cases) fed through the real write callback: 1..3 batches of 1..6 series (a later write of a series replaces it), then 1..5 queries " +
			"through the real planner with criteria trees of depth <= 2 over =, !=, IN, NOT IN on the three tags joined by AND / OR (values incl. ones never " +
			"written); oracle: the rows returned are exactly the latest rows for which the predicate is true, and the unfiltered query returns every series; " +
			"non-trivial = a condition on the entity tag while it is bound to an index rule",
		Gen: func(t *rapid.T, _ *verifkit.KnownSet) imCase {
			c := imCase{SvcRule: rapid.Bool().Draw(t, "svcrule")}
			for b := rapid.IntRange(1, 3).Draw(t, "batches"); b > 0; b-- {
				var rows []imRow
				seen := map[int]bool{}
				for i := rapid.IntRange(1, 6).Draw(t, "rows"); i > 0; i-- {
					s := rapid.IntRange(0, 7).Draw(t, "svc")
					if seen[s] {
						continue
					}
					seen[s] = true
					rows = append(rows, imRow{Svc: s, Region: rapid.SampledFrom([]string{"r0", "r1", "r2"}).Draw(t, "region"), Zone: int64(rapid.IntRange(0, 3).Draw(t, "zone"))})
				}
				c.Batches = append(c.Batches, rows)
			}
			for q := rapid.IntRange(1, 5).Draw(t, "queries"); q > 0; q-- {
				c.Queries = append(c.Queries, imGenCrit(t, 2))
			}
			return c
		},
		Check: func(x *verifkit.Ctx, c imCase) error {
			svcConds, err := runIndexMode(x, c)
			if err != nil {
				return err
			}
			x.LabelIf(c.SvcRule, "entity tag bound to an index rule")
			x.LabelIf(svcConds > 0, "condition on the entity tag")
			if c.SvcRule && svcConds > 0 {
				x.NonTrivial()
			}
			return nil
		},
		MinLabelFrac: map[string]float64{"entity tag bound to an index rule": 0.3, "condition on the entity tag": 0.5},
	})
}
