package measure

import (
	"fmt"
	"os"
	"path/filepath"
	"strings"
	"testing"

	"pgregory.net/rapid"

	"github.com/apache/skywalking-banyandb/pkg/fs"
	"github.com/apache/skywalking-banyandb/verifkit"
	"github.com/apache/skywalking-banyandb/verifkit/crashfs"
)

// C04 — a crash at any point recovers to a consistent durable prefix (measure shard).
// The history runs once on a crash-logging file system; then for crash points k (every k for
// small logs) the Kill9 image (all completed operations) and the PowerLoss image (only fsynced
// data and directory entries) of the log prefix are materialised and the REAL recovery code
// (initTSTable) is run on them.

type c04Case struct {
	Ops   []mOp `json:"ops"`   // write | flush | mergemem | merge
	Seed  int   `json:"seed"`  // selects sampled crash points for long logs
	Every bool  `json:"every"` // enumerate every crash point
}

var c04Schema = mSchema{
	Fams:   []mFamSpec{{Name: "tf", Tags: []mTagSpec{{Name: "a", Type: "str"}, {Name: "n", Type: "int"}}}},
	Fields: []mFieldSpec{{Name: "v", Type: "int"}},
}

type c04Mark struct {
	logLen  int
	batches int
}

func runC04(x *verifkit.Ctx, c c04Case) (images int, inside bool, err error) {
	dir, derr := os.MkdirTemp("", "verif-c04-")
	if derr != nil {
		return 0, false, derr
	}
	defer os.RemoveAll(dir)
	root := filepath.Join(dir, "tab")
	cfs := crashfs.New(fs.NewLocalFileSystem(), root)
	tb := openL1(root, cfs)
	var batches [][]mRow
	var writtenAt []int // log length when batch i was acknowledged
	var marks []c04Mark
	type span struct{ from, to int }
	var maint []span // log ranges of flush / merge steps
	sids := map[int]bool{}
	for _, op := range c.Ops {
		before := cfs.Len()
		switch op.Kind {
		case "write":
			if len(op.Rows) == 0 {
				continue
			}
			tb.write(c04Schema, op.Rows)
			batches = append(batches, op.Rows)
			writtenAt = append(writtenAt, cfs.Len())
			for _, r := range op.Rows {
				sids[r.S] = true
			}
		case "flush":
			if tb.flushAll() > 0 {
				marks = append(marks, c04Mark{logLen: cfs.Len(), batches: len(batches)})
				maint = append(maint, span{before, cfs.Len()})
			}
		case "mergemem":
			// merging memory parts writes a file part and publishes a manifest: it is a durable step too
			if tb.mergeMem() {
				marks = append(marks, c04Mark{logLen: cfs.Len(), batches: len(batches)})
				maint = append(maint, span{before, cfs.Len()})
			}
		case "merge":
			if ids, _ := tb.mergeFiles(op.Pick); ids != nil {
				maint = append(maint, span{before, cfs.Len()})
			}
		}
	}
	log := cfs.Log()
	tb.close()
	var sidList []int
	for s := range sids {
		sidList = append(sidList, s)
	}
	if len(sidList) == 0 {
		return 0, false, nil
	}
	// crash points
	var points []int
	if c.Every || len(log) <= 160 {
		for k := 0; k <= len(log); k++ {
			points = append(points, k)
		}
	} else {
		step := len(log)/60 + 1
		for k := c.Seed % step; k <= len(log); k += step {
			points = append(points, k)
		}
		for _, m := range maint { // always include points around each maintenance step
			points = append(points, m.from+1, (m.from+m.to)/2, m.to-1, m.to)
		}
	}
	recoverFn := func(imgDir string, what string, k int) error {
		// never more than what was acknowledged before the crash, never less than the last durable manifest
		jmin, jmax := 0, 0
		for _, m := range marks {
			if m.logLen <= k && m.batches > jmin {
				jmin = m.batches
			}
		}
		for i, w := range writtenAt {
			if w <= k {
				jmax = i + 1
			}
		}
		// a flush that started before k may have covered batches acknowledged before it started
		var got []outRow
		for round := 0; round < 2; round++ {
			rt := openL1(imgDir, nil)
			q := mQuery{Sids: sidList, MinT: -1 << 40, MaxT: 1 << 40}
			rows, _, qerr := rt.query(c04Schema, q)
			if qerr != nil {
				rt.close()
				return fmt.Errorf("%s at op %d/%d: query after recovery failed: %v", what, k, len(log), qerr)
			}
			if ierr := rt.allPartInvariants(); ierr != nil {
				rt.close()
				return fmt.Errorf("%s at op %d/%d: recovered part is inconsistent: %v", what, k, len(log), ierr)
			}
			// no part directory survives start-up unless the loaded manifest lists it
			listed := map[string]bool{}
			for _, p := range rt.parts() {
				listed[partName(p.id)] = true
			}
			for _, e := range fs.NewLocalFileSystem().ReadDir(imgDir) {
				if e.IsDir() && !listed[e.Name()] {
					rt.close()
					return fmt.Errorf("%s at op %d/%d: directory %s survived start-up but is not part of the recovered snapshot %v", what, k, len(log), e.Name(), listed)
				}
				if strings.HasSuffix(e.Name(), ".tmp") {
					rt.close()
					return fmt.Errorf("%s at op %d/%d: leftover %s of an interrupted atomic write is still in the shard directory after start-up", what, k, len(log), e.Name())
				}
			}
			rt.close()
			if round == 0 {
				got = rows
				continue
			}
			if len(rows) != len(got) {
				return fmt.Errorf("%s at op %d/%d: a second clean restart returns %d rows, the first %d (recovery is not idempotent)", what, k, len(log), len(rows), len(got))
			}
		}
		q := mQuery{Sids: sidList, MinT: -1 << 40, MaxT: 1 << 40}
		var lastErr error
		for j := jmax; j >= jmin; j-- {
			m := newModel()
			for _, b := range batches[:j] {
				m.add(b, 0)
			}
			if cerr := m.compare(got, []mSchema{c04Schema}, q); cerr == nil {
				return nil
			} else {
				lastErr = cerr
			}
		}
		return fmt.Errorf("%s at op %d/%d (%s): recovered %d rows equal no prefix of the acknowledged batches between %d (last durable manifest) and %d (acknowledged): %v",
			what, k, len(log), describe(log, k), len(got), jmin, jmax, lastErr)
	}
	for _, k := range points {
		if k < 0 || k > len(log) {
			continue
		}
		for _, m := range maint {
			if k > m.from && k < m.to {
				inside = true
			}
		}
		kf, pf, kd, pd := crashfs.Image(log, k)
		for _, img := range []struct {
			name  string
			files map[string][]byte
			dirs  []string
		}{{"kill -9", kf, kd}, {"power loss", pf, pd}} {
			imgDir := filepath.Join(dir, fmt.Sprintf("img-%d-%s", k, strings.ReplaceAll(img.name, " ", "")))
			if merr := crashfs.Materialise(imgDir, img.files, img.dirs); merr != nil {
				return images, inside, merr
			}
			rerr := func() (e error) {
				defer func() {
					if r := recover(); r != nil {
						e = fmt.Errorf("%s at op %d/%d (%s): start-up panicked: %v", img.name, k, len(log), describe(log, k), r)
					}
				}()
				return recoverImage(recoverFn, imgDir, img.name, k)
			}()
			os.RemoveAll(imgDir)
			images++
			if rerr != nil {
				return images, inside, rerr
			}
		}
	}
	return images, inside, nil
}

func recoverImage(f func(string, string, int) error, dir, what string, k int) error {
	return f(dir, what, k)
}

func describe(log []crashfs.Op, k int) string {
	if k <= 0 {
		return "before the first operation"
	}
	op := log[k-1]
	s := fmt.Sprintf("last completed: %s %s", op.Kind, op.Path)
	if op.To != "" {
		s += " -> " + op.To
	}
	if k < len(log) {
		s += fmt.Sprintf("; next: %s %s", log[k].Kind, log[k].Path)
	}
	return s
}

func TestVerifC04Measure(t *testing.T) {
	p := genProfile{maxSeries: 3, maxTimes: 6, maxBatches: 5, maxRows: 8, versions: []int64{1, 2, 3}}
	verifkit.Run(t, verifkit.Spec[c04Case]{
		Property: "C04", Unit: "measure_crash", CrashReplay: true,
		Rule: "a measure shard history of 1..5 acknowledged batches interleaved with flush / merge-memory-parts / merge(subset of file parts) executed once on a " +
			"crash-logging file system (operations logged at the granularity of the local file system's durability contract; WriteAtomic and Write expand into " +
			"their intermediate states); then for EVERY crash point k of the log (sampled for logs > 160 ops) two disk images - kill -9 (all completed operations) " +
			"and power loss (only fsynced data and directory entries) - are materialised and the real initTSTable recovery runs on each; oracle: start-up does not " +
			"panic, the recovered content equals the model of a prefix of the acknowledged batches that includes every batch covered by the last durably published " +
			"manifest, recovered parts are internally consistent, no unlisted part directory survives start-up, a second restart returns the same; " +
			"non-trivial = a crash point strictly inside a flush or merge",
		Gen: func(t *rapid.T, _ *verifkit.KnownSet) c04Case {
			c := c04Case{Seed: rapid.IntRange(0, 1000).Draw(t, "seed")}
			var seq int64
			nb := rapid.IntRange(1, p.maxBatches).Draw(t, "batches")
			for b := 0; b < nb; b++ {
				n := rapid.IntRange(1, p.maxRows).Draw(t, "rows")
				c.Ops = append(c.Ops, mOp{Kind: "write", Rows: genRows(t, p, c04Schema, n, &seq)})
				for k := 0; k < rapid.IntRange(0, 2).Draw(t, "nm"); k++ {
					switch rapid.SampledFrom([]string{"flush", "flush", "mergemem", "merge"}).Draw(t, "kind") {
					case "merge":
						c.Ops = append(c.Ops, mOp{Kind: "merge", Pick: rapid.SliceOfN(rapid.IntRange(0, 5), 2, 4).Draw(t, "pick")})
					case "mergemem":
						c.Ops = append(c.Ops, mOp{Kind: "mergemem"})
					default:
						c.Ops = append(c.Ops, mOp{Kind: "flush"})
					}
				}
			}
			c.Ops = append(c.Ops, mOp{Kind: "flush"}, mOp{Kind: "merge", Pick: []int{0, 1, 2}})
			return c
		},
		Check: func(x *verifkit.Ctx, c c04Case) error {
			images, inside, err := runC04(x, c)
			x.Count("crash_images_recovered", images)
			if err != nil {
				return err
			}
			x.LabelIf(inside, "crash inside a flush/merge")
			if inside {
				x.NonTrivial()
			}
			return nil
		},
		SampleOf: func(c c04Case) any {
			var ks []string
			for _, op := range c.Ops {
				ks = append(ks, fmt.Sprintf("%s(%d)", op.Kind, len(op.Rows)))
			}
			return map[string]any{"ops": ks, "seed": c.Seed}
		},
		MinLabelFrac: map[string]float64{"crash inside a flush/merge": 0.8},
	})
}
