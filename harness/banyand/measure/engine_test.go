package measure

import (
	"context"
	"io"
	"os"
	"path/filepath"
	"sort"
	"sync"

	"github.com/apache/skywalking-banyandb/api/common"
	commonv1 "github.com/apache/skywalking-banyandb/api/proto/banyandb/common/v1"
	databasev1 "github.com/apache/skywalking-banyandb/api/proto/banyandb/database/v1"
	"github.com/apache/skywalking-banyandb/banyand/internal/storage"
	"github.com/apache/skywalking-banyandb/banyand/protector"
	"github.com/apache/skywalking-banyandb/pkg/bus"
	"github.com/apache/skywalking-banyandb/pkg/fs"
	"github.com/apache/skywalking-banyandb/pkg/logger"
	"github.com/apache/skywalking-banyandb/pkg/query/executor"
	vmeasure "github.com/apache/skywalking-banyandb/pkg/query/vectorized/measure"
	"github.com/apache/skywalking-banyandb/pkg/run"
	resourceSchema "github.com/apache/skywalking-banyandb/pkg/schema"
	"github.com/apache/skywalking-banyandb/pkg/timestamp"
	"github.com/apache/skywalking-banyandb/pkg/watcher"
)

// Measure engine kit: the real measure engine below gRPC. Writes go through the real write callback
// (series index documents with the indexed tags, data points into the shard table), storage is a real
// TSDB whose measure tables run without flusher/merger loops (flush and merges are harness steps),
// queries go through the real planners: the row plan (logical/measure.Analyze + Execute) and the
// columnar plan (vectorized/measure/plan.Dispatch) with the measure itself as execution context, the
// way banyand/query/processor.go calls them.

const meGroup = "verif-mg"

type meFakeRepo struct {
	resourceSchema.Repository
	m  *measure
	db io.Closer
}

type meFakeResource struct{ m *measure }

func (r meFakeResource) Schema() resourceSchema.ResourceSchema   { return r.m.schema }
func (r meFakeResource) Delegated() resourceSchema.IndexListener { return r.m }

type meFakeGroup struct{ db io.Closer }

func (g meFakeGroup) GetSchema() *commonv1.Group {
	return &commonv1.Group{Metadata: &commonv1.Metadata{Name: meGroup}}
}
func (g meFakeGroup) SupplyTSDB() io.Closer { return g.db }

func (f *meFakeRepo) LoadResource(md *commonv1.Metadata) (resourceSchema.Resource, bool) {
	if md.GetName() != f.m.name || md.GetGroup() != f.m.group {
		return nil, false
	}
	return meFakeResource{f.m}, true
}

func (f *meFakeRepo) LoadGroup(name string) (resourceSchema.Group, bool) {
	if name != meGroup {
		return nil, false
	}
	return meFakeGroup{f.db}, true
}

type meTable struct {
	tst     *tsTable
	flushCh chan *flusherIntroduction
	mergeCh chan *mergerIntroduction
}

type meEnv struct {
	opts   storage.TSDBOpts[*tsTable, option]
	dir    string
	db     storage.TSDB[*tsTable, option]
	m      *measure
	repo   *schemaRepo
	wcb    *writeCallback
	tables []*meTable
	mu     sync.Mutex
	msgID  uint64
}

func newMeEnv(schema *databasev1.Measure, rules []*databasev1.IndexRule) (*meEnv, error) {
	initLog()
	dir, err := os.MkdirTemp("", "verif-measure-")
	if err != nil {
		return nil, err
	}
	e := &meEnv{dir: dir}
	creator := func(fileSystem fs.FileSystem, root string, p common.Position, l *logger.Logger, _ timestamp.TimeRange, opt option, m any) (*tsTable, error) {
		tst, epoch := initTSTable(fileSystem, root, p, l, opt, m)
		tst.loopCloser = run.NewCloser(2)
		tst.introductions = make(chan *introduction)
		tb := &meTable{tst: tst, flushCh: make(chan *flusherIntroduction), mergeCh: make(chan *mergerIntroduction)}
		w := make(watcher.Channel, 1)
		go tst.introducerLoop(tb.flushCh, tb.mergeCh, w, epoch+1)
		e.mu.Lock()
		e.tables = append(e.tables, tb)
		e.mu.Unlock()
		return tst, nil
	}
	opts := storage.TSDBOpts[*tsTable, option]{
		ShardNum: 1, Location: filepath.Join(dir, "db"), TSTableCreator: creator,
		SegmentInterval: storage.IntervalRule{Unit: storage.DAY, Num: 1}, TTL: storage.IntervalRule{Unit: storage.DAY, Num: 3650},
		DisableRetention: true, DisableRotation: true, SeriesIndexFlushTimeoutSeconds: 1,
		Option: option{mergePolicy: newDefaultMergePolicyForTesting(), protector: protector.Nop{}},
	}
	e.opts = opts
	db, err := storage.OpenTSDB(common.SetPosition(context.Background(), func(p common.Position) common.Position {
		p.Module, p.Database = "measure", meGroup
		return p
	}), opts, nil, meGroup)
	if err != nil {
		os.RemoveAll(dir)
		return nil, err
	}
	e.db = db
	l := logger.GetLogger("verif-measure")
	ctx, cancel := context.WithCancel(context.Background())
	e.repo = &schemaRepo{l: l, path: dir, ctx: ctx, cancel: cancel, closingGroups: map[string]struct{}{}}
	m, err := openMeasure(measureSpec{schema: schema}, l, nil, protector.Nop{}, e.repo, nil, vmeasure.VectorizedConfig{})
	if err != nil {
		return nil, err
	}
	m.OnIndexUpdate(rules)
	m.tsdb.Store(db)
	e.m = m
	e.repo.Repository = &meFakeRepo{m: m, db: db}
	e.wcb = &writeCallback{l: l, schemaRepo: e.repo, maxDiskUsagePercent: 100}
	return e, nil
}

func (e *meEnv) close() {
	if e.repo != nil && e.repo.cancel != nil {
		e.repo.cancel()
	}
	if e.db != nil {
		_ = e.db.Close()
	}
	os.RemoveAll(e.dir)
}

// VerifWrite sends one batch of internal write requests through the real write callback.
func (e *meEnv) VerifWrite(events []any) {
	if len(events) == 0 {
		return
	}
	e.msgID++
	e.wcb.Rev(context.Background(), bus.NewMessage(bus.MessageID(e.msgID), events))
}

// exported surface for the external test package (the planners import this package, so the
// planner-driving half of the harness lives in package measure_test)

type VerifEnv = meEnv

type VerifMeasure interface {
	executor.MeasureExecutionContext
	GetSchema() *databasev1.Measure
	GetIndexRules() []*databasev1.IndexRule
	VectorizedConfig() vmeasure.VectorizedConfig
}

func VerifNewEnv(schema *databasev1.Measure, rules []*databasev1.IndexRule) (*VerifEnv, error) {
	return newMeEnv(schema, rules)
}

func (e *meEnv) VerifClose()                                    { e.close() }
func (e *meEnv) VerifFlushAll() int                             { return e.flushAll() }
func (e *meEnv) VerifMergeFiles(pick []int) (int, error)        { return e.mergeFiles(pick) }
func (e *meEnv) VerifMeasure() VerifMeasure                     { return e.m }
func (e *meEnv) VerifSetVectorized(c vmeasure.VectorizedConfig) { e.m.vectorized = c }
func VerifTsOf(t int64) int64                                   { return tsOf(t) }

func (e *meEnv) tablesCopy() []*meTable {
	e.mu.Lock()
	defer e.mu.Unlock()
	return append([]*meTable(nil), e.tables...)
}

func (e *meEnv) flushAll() int {
	n := 0
	for _, tb := range e.tablesCopy() {
		s := tb.tst.currentSnapshot()
		if s == nil {
			continue
		}
		k := 0
		for _, pw := range s.parts {
			if pw.mp != nil {
				k++
			}
		}
		if k > 0 {
			tb.tst.flush(s, tb.flushCh)
			n += k
		}
		s.decRef()
	}
	return n
}

func (e *meEnv) mergeFiles(pick []int) (int, error) {
	merges := 0
	for _, tb := range e.tablesCopy() {
		s := tb.tst.currentSnapshot()
		if s == nil {
			continue
		}
		var files []*partWrapper
		for _, pw := range s.parts {
			if pw.mp == nil {
				files = append(files, pw)
			}
		}
		chosen := map[uint64]*partWrapper{}
		for _, p := range pick {
			if len(files) > 0 {
				pw := files[p%len(files)]
				chosen[pw.ID()] = pw
			}
		}
		if len(chosen) < 2 {
			s.decRef()
			continue
		}
		var pws []*partWrapper
		ids := map[uint64]struct{}{}
		for id, pw := range chosen {
			pws = append(pws, pw)
			ids[id] = struct{}{}
		}
		sort.Slice(pws, func(i, j int) bool { return pws[i].ID() < pws[j].ID() })
		closeCh := make(chan struct{})
		_, err := tb.tst.mergePartsThenSendIntroduction(snapshotCreatorMerger, pws, ids, tb.mergeCh, closeCh, "file")
		close(closeCh)
		s.decRef()
		if err != nil {
			return merges, err
		}
		merges++
	}
	return merges, nil
}
