package measure

import (
	"context"
	"errors"
	"fmt"
	"io"
	"os"
	"path/filepath"
	"sort"
	"sync"
	"testing"
	"time"

	"google.golang.org/protobuf/types/known/timestamppb"
	"pgregory.net/rapid"

	"github.com/apache/skywalking-banyandb/api/common"
	commonv1 "github.com/apache/skywalking-banyandb/api/proto/banyandb/common/v1"
	databasev1 "github.com/apache/skywalking-banyandb/api/proto/banyandb/database/v1"
	measurev1 "github.com/apache/skywalking-banyandb/api/proto/banyandb/measure/v1"
	modelv1 "github.com/apache/skywalking-banyandb/api/proto/banyandb/model/v1"
	"github.com/apache/skywalking-banyandb/banyand/internal/storage"
	"github.com/apache/skywalking-banyandb/banyand/internal/wqueue"
	metadataschema "github.com/apache/skywalking-banyandb/banyand/metadata/schema"
	"github.com/apache/skywalking-banyandb/banyand/protector"
	"github.com/apache/skywalking-banyandb/banyand/queue"
	"github.com/apache/skywalking-banyandb/pkg/bus"
	"github.com/apache/skywalking-banyandb/pkg/logger"
	vmeasure "github.com/apache/skywalking-banyandb/pkg/query/vectorized/measure"
	resourceSchema "github.com/apache/skywalking-banyandb/pkg/schema"
	"github.com/apache/skywalking-banyandb/pkg/timestamp"
	"github.com/apache/skywalking-banyandb/verifkit"
)

// C17 (cluster answers like a standalone node, measure): the coordinator's real write queue (wqueue with the
// real write-queue table and its introducer, flusher / memory-part merger and syncer loops) ships its parts
// to the real data-node receiver (syncCallback on a real TSDB with its own loops); only the network is an
// in-process pipe. After the queue has been delivered the data node holds, per time segment, exactly the
// rows a standalone server fed the same writes would hold.

const clGroup = "verif-cluster"

type clCase struct {
	Batches [][]mRow `json:"batches"` // T is a millisecond offset from the midnight used by the history
	Gaps    []int    `json:"gaps"`    // pause after batch i in ms (0: same flush window)
}

// midnight of 2023-11-15 UTC as an offset from the kit's base instant
const clMidnight = int64(6_400_000)

type clTransport struct {
	queue.Client
	receiver queue.ChunkedSyncHandler
	errs     []error
	shipped  int
	mu       sync.Mutex
}

func (s *clTransport) NewChunkedSyncClient(_ string, _ uint32) (queue.ChunkedSyncClient, error) {
	return &clSyncClient{tr: s}, nil
}

func (s *clTransport) fail(err error) error {
	s.mu.Lock()
	defer s.mu.Unlock()
	s.errs = append(s.errs, err)
	return err
}

type clSyncClient struct{ tr *clTransport }

func (c *clSyncClient) Close() error { return nil }

func (c *clSyncClient) SyncStreamingParts(ctx context.Context, parts []queue.StreamingPartData) (*queue.SyncResult, error) {
	tr := c.tr
	var total uint64
	for i := range parts {
		p := &parts[i]
		pc := &queue.ChunkedSyncPartContext{
			Context: ctx, ID: p.ID, Group: p.Group, ShardID: p.ShardID, CompressedSizeBytes: p.CompressedSizeBytes,
			UncompressedSizeBytes: p.UncompressedSizeBytes, TotalCount: p.TotalCount, BlocksCount: p.BlocksCount,
			MinTimestamp: p.MinTimestamp, MaxTimestamp: p.MaxTimestamp, MinKey: p.MinKey, MaxKey: p.MaxKey, PartType: p.PartType,
		}
		h, err := tr.receiver.CreatePartHandler(pc)
		if err != nil {
			return nil, tr.fail(fmt.Errorf("create part handler: %w", err))
		}
		pc.Handler = h
		for _, f := range p.Files {
			content, rerr := io.ReadAll(f.Reader)
			if rerr != nil {
				_ = pc.Close()
				return nil, tr.fail(fmt.Errorf("read %s: %w", f.Name, rerr))
			}
			total += uint64(len(content))
			pc.FileName = f.Name
			if herr := tr.receiver.HandleFileChunk(pc, content); herr != nil {
				_ = pc.Close()
				return nil, tr.fail(fmt.Errorf("handle %s: %w", f.Name, herr))
			}
		}
		if ferr := h.FinishSync(); ferr != nil {
			return nil, tr.fail(fmt.Errorf("finish sync: %w", ferr))
		}
		tr.mu.Lock()
		tr.shipped++
		tr.mu.Unlock()
	}
	return &queue.SyncResult{Success: true, SessionID: "verif", TotalBytes: total, PartsCount: uint32(len(parts))}, nil
}

type clRepository struct{ group resourceSchema.Group }

func (f *clRepository) Watcher()                                         {}
func (f *clRepository) Init(_ metadataschema.Kind) ([]string, []int64)   { return nil, nil }
func (f *clRepository) SendMetadataEvent(_ resourceSchema.MetadataEvent) {}
func (f *clRepository) LoadGroup(name string) (resourceSchema.Group, bool) {
	if name != clGroup {
		return nil, false
	}
	return f.group, true
}
func (f *clRepository) LoadAllGroups() []resourceSchema.Group { return nil }
func (f *clRepository) LatestModRevision() int64              { return 0 }
func (f *clRepository) LoadResource(_ *commonv1.Metadata) (resourceSchema.Resource, bool) {
	return nil, false
}
func (f *clRepository) LoadAllResources(_ string) []resourceSchema.Resource { return nil }
func (f *clRepository) LoadAllIndexRules(_ string) []*databasev1.IndexRule  { return nil }
func (f *clRepository) IndexRules(_ resourceSchema.ResourceSchema) []*databasev1.IndexRule {
	return nil
}
func (f *clRepository) Close()                   {}
func (f *clRepository) StopCh() <-chan struct{}  { return nil }
func (f *clRepository) DropGroup(_ string) error { return errors.New("not supported") }

type clGroupHolder struct {
	tsdb storage.TSDB[*tsTable, option]
}

func (f *clGroupHolder) GetSchema() *commonv1.Group { return nil }
func (f *clGroupHolder) SupplyTSDB() io.Closer      { return f.tsdb }

// clContent reads what the data node serves: every row of every segment, each checked to lie inside the segment that stores it.
func clContent(db storage.TSDB[*tsTable, option], sids []int) ([]outRow, error) {
	segs, err := db.SelectSegments(timestamp.NewInclusiveTimeRange(time.Unix(1, 0), time.Unix(1<<34, 0)), true)
	if err != nil {
		return nil, err
	}
	var all []outRow
	var ferr error
	for _, seg := range segs {
		tr := seg.GetTimeRange()
		tt, _ := seg.Tables()
		for _, tbl := range tt {
			rows, _, qerr := (&l1Table{tst: tbl}).query(c04Schema, mQuery{Sids: sids, MinT: -(1 << 40), MaxT: 1 << 40})
			if qerr != nil && ferr == nil {
				ferr = qerr
			}
			for _, r := range rows {
				if !tr.Contains(r.ts) && ferr == nil { // outRow.ts is the stored timestamp in nanoseconds
					ferr = fmt.Errorf("the data node stores the row (series %d, %s) in segment %s which does not contain it", r.sid, time.Unix(0, r.ts).UTC(), tr)
				}
			}
			all = append(all, rows...)
		}
		seg.DecRef()
	}
	return all, ferr
}

func runCluster(x *verifkit.Ctx, c clCase) (segments int, sameWindow bool, err error) {
	initLog()
	dir, derr := os.MkdirTemp("", "verif-cluster-")
	if derr != nil {
		return 0, false, derr
	}
	defer os.RemoveAll(dir)
	interval := storage.IntervalRule{Unit: storage.DAY, Num: 1}
	dataCtx := common.SetPosition(context.WithValue(context.Background(), logger.ContextKey, logger.GetLogger("verif-data")),
		func(p common.Position) common.Position { p.Database = "verif"; return p })
	if merr := os.MkdirAll(filepath.Join(dir, "data"), storage.DirPerm); merr != nil {
		return 0, false, merr
	}
	db, oerr := storage.OpenTSDB[*tsTable, option](dataCtx, storage.TSDBOpts[*tsTable, option]{
		ShardNum: 1, Location: filepath.Join(dir, "data"), TSTableCreator: newTSTable, SegmentInterval: interval,
		TTL: storage.IntervalRule{Unit: storage.DAY, Num: 3650}, Option: option{protector: protector.Nop{}, mergePolicy: newDefaultMergePolicyForTesting()},
	}, nil, clGroup)
	if oerr != nil {
		return 0, false, oerr
	}
	defer db.Close()
	receiver := setUpChunkedSyncCallback(logger.GetLogger("verif-data"), &schemaRepo{
		Repository: &clRepository{group: &clGroupHolder{tsdb: db}}, l: logger.GetLogger("verif-data")})
	transport := &clTransport{receiver: receiver}
	liaisonCtx := common.SetPosition(context.WithValue(context.Background(), logger.ContextKey, logger.GetLogger("verif-liaison")),
		func(p common.Position) common.Position { p.Database = "verif"; return p })
	wq, werr := wqueue.Open[*tsTable, option](liaisonCtx, wqueue.Opts[*tsTable, option]{
		Group: clGroup, ShardNum: 1, SegmentInterval: interval, Location: filepath.Join(dir, "liaison"),
		Option:          option{protector: protector.Nop{}, tire2Client: transport, flushTimeout: 300 * time.Millisecond, syncInterval: 100 * time.Millisecond},
		SubQueueCreator: newWriteQueue, GetNodes: func(common.ShardID) []string { return []string{"data-0"} },
	}, clGroup)
	if werr != nil {
		return 0, false, werr
	}
	defer wq.Close()
	shard, serr := wq.GetOrCreateShard(common.ShardID(0))
	if serr != nil {
		return 0, false, serr
	}
	table := shard.SubQueue()
	model := newModel()
	sidSet := map[int]bool{}
	// what writeQueueCallback.Rev does with a batch: one memory part per (shard, segment), tagged with the segment's start
	write := func(rows []mRow) {
		bySeg := map[int64][]mRow{}
		for _, r := range rows {
			r.T += clMidnight
			tr := wq.GetTimeRange(time.Unix(0, tsOf(r.T)))
			bySeg[tr.Start.UnixNano()] = append(bySeg[tr.Start.UnixNano()], r)
			sidSet[r.S] = true
		}
		var keys []int64
		for k := range bySeg {
			keys = append(keys, k)
		}
		sort.Slice(keys, func(i, j int) bool { return keys[i] < keys[j] })
		for _, k := range keys {
			table.mustAddDataPointsWithSegmentID(toDataPoints(c04Schema, bySeg[k]), k, nil)
			model.add(bySeg[k], 0)
		}
		if len(keys) >= 2 {
			sameWindow = true
		}
	}
	// a first delivered batch: the very first flush cycle after start-up does not wait for the flush timeout
	write([]mRow{{S: 1, T: -600_000, V: 1, Tags: [][]mVal{{{K: "str", S: "warm"}, {K: "int", I: 0}}}, Fields: []mVal{{K: "int", I: 0}}}})
	delivered := func(timeout time.Duration) error {
		var sids []int
		for s := range sidSet {
			sids = append(sids, s)
		}
		sort.Ints(sids)
		deadline := time.Now().Add(timeout)
		var last error
		for {
			rows, cerr := clContent(db, sids)
			if cerr == nil {
				cerr = model.compare(rows, []mSchema{c04Schema}, mQuery{Sids: sids, MinT: -(1 << 40), MaxT: 1 << 40})
			}
			if cerr == nil {
				return nil
			}
			last = cerr
			if time.Now().After(deadline) {
				transport.mu.Lock()
				errs, shipped := append([]error(nil), transport.errs...), transport.shipped
				transport.mu.Unlock()
				return fmt.Errorf("%v (parts shipped: %d, transport errors: %v)", last, shipped, errs)
			}
			time.Sleep(50 * time.Millisecond)
		}
	}
	if derr := delivered(60 * time.Second); derr != nil {
		return 0, sameWindow, fmt.Errorf("the first batch was not delivered within 60 s: %v", derr)
	}
	time.Sleep(700 * time.Millisecond)
	for i, b := range c.Batches {
		write(b)
		if i < len(c.Gaps) && c.Gaps[i] > 0 {
			time.Sleep(time.Duration(c.Gaps[i]) * time.Millisecond)
		} else if i+1 < len(c.Batches) {
			sameWindow = true
		}
	}
	if derr := delivered(60 * time.Second); derr != nil {
		return 0, sameWindow, fmt.Errorf("60 s after the last write the data node does not serve what a standalone server holds: %v", derr)
	}
	// stable: nothing else arrives afterwards
	time.Sleep(500 * time.Millisecond)
	if derr := delivered(time.Second); derr != nil {
		return 0, sameWindow, fmt.Errorf("after the delivery settled the data node's content changed: %v", derr)
	}
	segs, _ := db.SelectSegments(timestamp.NewInclusiveTimeRange(time.Unix(1, 0), time.Unix(1<<34, 0)), false)
	for _, s := range segs {
		s.DecRef()
	}
	return len(segs), sameWindow, nil
}

func TestVerifC17MeasureCluster(t *testing.T) {
	verifkit.Run(t, verifkit.Spec[clCase]{
		Property: "C17", Unit: "measure_cluster", CrashReplay: true,
		Rule: "the coordinator's real measure write queue (wqueue + write-queue table with its introducer, flusher / memory-part merger and syncer loops, flush timeout " +
			"300 ms) and the real data-node receiver on a real TSDB with its own loops, the network replaced by an in-process pipe: 1..5 batches of 1..8 data points " +
			"(4 series, versions 1..3, timestamps within 3 s of a local midnight, one day earlier / later, or in between) written the way the write-queue callback does " +
			"(one memory part per segment of a batch), with pauses of 0..500 ms between batches so that batches share or do not share a flush window; oracle: within 60 s " +
			"the data node serves, for every series, exactly the rows of the reference model (highest version per series and timestamp) - each stored in the segment " +
			"that contains it - and the content stays that way; non-trivial = memory parts of two segments pending in one flush window",
		Gen: func(t *rapid.T, _ *verifkit.KnownSet) clCase {
			var c clCase
			used := map[[2]int64]bool{}
			for b := rapid.IntRange(1, 5).Draw(t, "batches"); b > 0; b-- {
				var rows []mRow
				for i := rapid.IntRange(1, 8).Draw(t, "rows"); i > 0; i-- {
					var off int64
					switch rapid.IntRange(0, 5).Draw(t, "where") {
					case 0, 1:
						off = int64(rapid.IntRange(-3000, -1).Draw(t, "before"))
					case 2, 3:
						off = int64(rapid.IntRange(0, 3000).Draw(t, "after"))
					case 4:
						off = int64(rapid.IntRange(-86_400_000, 86_400_000).Draw(t, "anywhere"))
					default:
						off = rapid.SampledFrom([]int64{-86_400_000, -86_400_001, 86_399_999, 86_400_000, -1, 0}).Draw(t, "edge")
					}
					r := mRow{S: rapid.IntRange(1, 4).Draw(t, "s"), T: off, V: int64(rapid.IntRange(1, 3).Draw(t, "v")),
						Tags:   [][]mVal{{{K: "str", S: rapid.SampledFrom([]string{"a", "b", ""}).Draw(t, "a")}, {K: "int", I: int64(rapid.IntRange(0, 9).Draw(t, "n"))}}},
						Fields: []mVal{{K: "int", I: int64(rapid.IntRange(-5, 5).Draw(t, "f"))}}}
					// one row per (series, timestamp, version) in the whole case: equal versions would make the winner a matter of arrival order
					if used[[2]int64{int64(r.S)<<40 | r.V, r.T}] {
						continue
					}
					dupInBatch := false
					for _, o := range rows {
						if o.S == r.S && o.T == r.T {
							dupInBatch = true
						}
					}
					if dupInBatch {
						continue
					}
					used[[2]int64{int64(r.S)<<40 | r.V, r.T}] = true
					rows = append(rows, r)
				}
				if len(rows) == 0 {
					continue
				}
				c.Batches = append(c.Batches, rows)
				c.Gaps = append(c.Gaps, rapid.SampledFrom([]int{0, 0, 0, 100, 500}).Draw(t, "gap"))
			}
			return c
		},
		Check: func(x *verifkit.Ctx, c clCase) error {
			if len(c.Batches) == 0 {
				return nil
			}
			segments, sameWindow, err := runCluster(x, c)
			if err != nil {
				return err
			}
			x.LabelIf(segments >= 2, ">= 2 segments on the data node")
			x.LabelIf(sameWindow, "memory parts of two segments or batches in one flush window")
			if sameWindow && segments >= 2 {
				x.NonTrivial()
			}
			return nil
		},
		MinLabelFrac: map[string]float64{">= 2 segments on the data node": 0.4},
	})
}

// ---------------------------------------------------------------------------------------------
// The same pipe, fed through the coordinator's real write callback (writeQueueCallback.Rev): the
// callback decides which (shard, segment) table of the write queue a data point of a batch goes to.
// ---------------------------------------------------------------------------------------------

type clRevPoint struct {
	Svc int   `json:"svc"`
	Off int64 `json:"off"` // millisecond offset from the midnight of the history
}

type clRevCase struct {
	Batches [][]clRevPoint `json:"batches"`
	Gaps    []int          `json:"gaps"`
}

func (s *clTransport) Publish(_ context.Context, _ bus.Topic, _ ...bus.Message) (bus.Future, error) {
	return clNopFuture{}, nil // series-index documents: not part of this check
}

type clNopFuture struct{}

func (clNopFuture) Get() (bus.Message, error)      { return bus.NewMessage(1, nil), nil }
func (clNopFuture) GetAll() ([]bus.Message, error) { return nil, nil }

type clSegContent struct {
	start, end time.Time
	rows       uint64
}

// clSegments lists the data node's segments with their row counts; a part whose time bounds leave its segment is an error.
func clSegments(db storage.TSDB[*tsTable, option]) ([]clSegContent, error) {
	segs, err := db.SelectSegments(timestamp.NewInclusiveTimeRange(time.Unix(1, 0), time.Unix(1<<34, 0)), true)
	if err != nil {
		return nil, err
	}
	var out []clSegContent
	var ferr error
	for _, seg := range segs {
		tr := seg.GetTimeRange()
		sc := clSegContent{start: tr.Start, end: tr.End}
		tt, _ := seg.Tables()
		for _, tbl := range tt {
			snp := tbl.currentSnapshot()
			if snp == nil {
				continue
			}
			for _, pw := range snp.parts {
				pm := pw.p.partMetadata
				if pm.TotalCount == 0 {
					continue
				}
				if (!tr.Contains(pm.MinTimestamp) || !tr.Contains(pm.MaxTimestamp)) && ferr == nil {
					ferr = fmt.Errorf("the data node stores a part with rows from %s to %s in segment %s which does not contain them",
						time.Unix(0, pm.MinTimestamp).UTC(), time.Unix(0, pm.MaxTimestamp).UTC(), tr)
				}
				sc.rows += pm.TotalCount
			}
			snp.decRef()
		}
		out = append(out, sc)
		seg.DecRef()
	}
	return out, ferr
}

func runClusterRev(x *verifkit.Ctx, c clRevCase) (segments int, boundary bool, err error) {
	initLog()
	dir, derr := os.MkdirTemp("", "verif-cluster-rev-")
	if derr != nil {
		return 0, false, derr
	}
	defer os.RemoveAll(dir)
	interval := storage.IntervalRule{Unit: storage.DAY, Num: 1}
	dataCtx := common.SetPosition(context.WithValue(context.Background(), logger.ContextKey, logger.GetLogger("verif-data")),
		func(p common.Position) common.Position { p.Database = "verif"; return p })
	if merr := os.MkdirAll(filepath.Join(dir, "data"), storage.DirPerm); merr != nil {
		return 0, false, merr
	}
	db, oerr := storage.OpenTSDB[*tsTable, option](dataCtx, storage.TSDBOpts[*tsTable, option]{
		ShardNum: 1, Location: filepath.Join(dir, "data"), TSTableCreator: newTSTable, SegmentInterval: interval,
		TTL: storage.IntervalRule{Unit: storage.DAY, Num: 3650}, Option: option{protector: protector.Nop{}, mergePolicy: newDefaultMergePolicyForTesting()},
	}, nil, meGroup)
	if oerr != nil {
		return 0, false, oerr
	}
	defer db.Close()
	receiver := setUpChunkedSyncCallback(logger.GetLogger("verif-data"), &schemaRepo{
		Repository: &clRevDataRepo{clRepository{group: &clGroupHolder{tsdb: db}}}, l: logger.GetLogger("verif-data")})
	transport := &clTransport{receiver: receiver}
	liaisonCtx := common.SetPosition(context.WithValue(context.Background(), logger.ContextKey, logger.GetLogger("verif-liaison")),
		func(p common.Position) common.Position { p.Database = "verif"; return p })
	wq, werr := wqueue.Open[*tsTable, option](liaisonCtx, wqueue.Opts[*tsTable, option]{
		Group: meGroup, ShardNum: 1, SegmentInterval: interval, Location: filepath.Join(dir, "liaison"),
		Option:          option{protector: protector.Nop{}, tire2Client: transport, flushTimeout: 300 * time.Millisecond, syncInterval: 100 * time.Millisecond},
		SubQueueCreator: newWriteQueue, GetNodes: func(common.ShardID) []string { return []string{"data-0"} },
	}, meGroup)
	if werr != nil {
		return 0, false, werr
	}
	defer wq.Close()
	l := logger.GetLogger("verif-liaison")
	rctx, cancel := context.WithCancel(context.Background())
	defer cancel()
	repo := &schemaRepo{l: l, path: dir, ctx: rctx, cancel: cancel, closingGroups: map[string]struct{}{}}
	m, merr := openMeasure(measureSpec{schema: c06Schema()}, l, nil, protector.Nop{}, repo, nil, vmeasure.VectorizedConfig{})
	if merr != nil {
		return 0, false, merr
	}
	m.OnIndexUpdate(nil)
	repo.Repository = &meFakeRepo{m: m, db: wq}
	cb := setUpWriteQueueCallback(l, repo, 100, transport)

	midnight := time.Unix(0, tsOf(clMidnight))
	expect := map[int64]int{} // segment start (unix nano) -> rows
	n := uint64(0)
	write := func(points []clRevPoint) {
		var events []any
		for i, p := range points {
			n++
			ts := midnight.Add(time.Duration(p.Off) * time.Millisecond)
			svc := fmt.Sprintf("svc-%d", p.Svc)
			req := &measurev1.WriteRequest{
				DataPoint: &measurev1.DataPointValue{
					Timestamp:   timestamppb.New(ts),
					TagFamilies: []*modelv1.TagFamilyForWrite{{Tags: []*modelv1.TagValue{{Value: &modelv1.TagValue_Str{Str: &modelv1.Str{Value: svc}}}}}},
					Fields:      []*modelv1.FieldValue{{Value: &modelv1.FieldValue_Int{Int: &modelv1.Int{Value: int64(n)}}}}, Version: 1,
				},
				MessageId: n,
			}
			if i == 0 {
				req.Metadata = &commonv1.Metadata{Name: c06Name, Group: meGroup}
			}
			events = append(events, &measurev1.InternalWriteRequest{ShardId: 0, EntityValues: []*modelv1.TagValue{{Value: &modelv1.TagValue_Str{Str: &modelv1.Str{Value: svc}}}}, Request: req})
			expect[wq.GetTimeRange(ts).Start.UnixNano()]++
			if p.Off == 0 || p.Off == -86_400_000 || p.Off == 86_400_000 {
				boundary = true
			}
		}
		cb.Rev(context.Background(), bus.NewMessage(bus.MessageID(n), events))
	}
	delivered := func(timeout time.Duration) error {
		deadline := time.Now().Add(timeout)
		for {
			segs, cerr := clSegments(db)
			if cerr == nil {
				got := map[int64]int{}
				for _, s := range segs {
					if s.rows > 0 {
						got[s.start.UnixNano()] = int(s.rows)
					}
				}
				if fmt.Sprint(got) != fmt.Sprint(expect) {
					cerr = fmt.Errorf("rows per segment on the data node %v, a standalone server holds %v (keys: segment start in unix nanoseconds)", got, expect)
				}
			}
			if cerr == nil {
				return nil
			}
			if time.Now().After(deadline) {
				transport.mu.Lock()
				errs, shipped := append([]error(nil), transport.errs...), transport.shipped
				transport.mu.Unlock()
				return fmt.Errorf("%v (parts shipped: %d, transport errors: %v)", cerr, shipped, errs)
			}
			time.Sleep(50 * time.Millisecond)
		}
	}
	write([]clRevPoint{{Svc: 9, Off: -600_000}})
	if derr := delivered(60 * time.Second); derr != nil {
		return 0, boundary, fmt.Errorf("the first batch was not delivered within 60 s: %v", derr)
	}
	time.Sleep(700 * time.Millisecond)
	for i, b := range c.Batches {
		write(b)
		if i < len(c.Gaps) && c.Gaps[i] > 0 {
			time.Sleep(time.Duration(c.Gaps[i]) * time.Millisecond)
		}
	}
	if derr := delivered(60 * time.Second); derr != nil {
		return 0, boundary, fmt.Errorf("60 s after the last write the data node does not hold what a standalone server holds: %v", derr)
	}
	time.Sleep(400 * time.Millisecond)
	if derr := delivered(time.Second); derr != nil {
		return 0, boundary, fmt.Errorf("after the delivery settled the data node's content changed: %v", derr)
	}
	return len(expect), boundary, nil
}

// clRevDataRepo answers the data node's group lookups for the group the engine kit uses.
type clRevDataRepo struct{ clRepository }

func (f *clRevDataRepo) LoadGroup(name string) (resourceSchema.Group, bool) {
	if name != meGroup {
		return nil, false
	}
	return f.group, true
}

func TestVerifC17MeasureClusterRev(t *testing.T) {
	verifkit.Run(t, verifkit.Spec[clRevCase]{
		Property: "C17", Unit: "measure_cluster_rev", CrashReplay: true,
		Rule: "as measure_cluster, but the batches enter through the coordinator's real write callback (writeQueueCallback.Rev), which assigns every data point of a batch to " +
			"the (shard, segment) table of the write queue: 1..4 batches of 1..8 data points with unique (series, timestamp), timestamps exactly on a day boundary, 1 ms before " +
			"it, within 3 s around it or up to a day away, in generated order inside a batch; oracle: within 60 s the data node holds, per segment, exactly as many rows as " +
			"the standalone attribution (segment containing the timestamp) gives, no part's time bounds leave its segment, and the content stays that way; non-trivial = a " +
			"data point exactly on a segment boundary",
		Gen: func(t *rapid.T, _ *verifkit.KnownSet) clRevCase {
			var c clRevCase
			used := map[[2]int64]bool{}
			for b := rapid.IntRange(1, 4).Draw(t, "batches"); b > 0; b-- {
				var pts []clRevPoint
				for i := rapid.IntRange(1, 8).Draw(t, "points"); i > 0; i-- {
					var off int64
					switch rapid.IntRange(0, 5).Draw(t, "where") {
					case 0:
						off = 0
					case 1:
						off = rapid.SampledFrom([]int64{-1, -60_000, -86_400_000, 86_400_000, 86_399_999, 1}).Draw(t, "edge")
					case 2, 3:
						off = int64(rapid.IntRange(-3000, 3000).Draw(t, "near"))
					default:
						off = int64(rapid.IntRange(-86_400_000, 86_400_000).Draw(t, "anywhere"))
					}
					p := clRevPoint{Svc: rapid.IntRange(0, 3).Draw(t, "svc"), Off: off}
					if used[[2]int64{int64(p.Svc), p.Off}] {
						continue
					}
					used[[2]int64{int64(p.Svc), p.Off}] = true
					pts = append(pts, p)
				}
				if len(pts) == 0 {
					continue
				}
				c.Batches = append(c.Batches, pts)
				c.Gaps = append(c.Gaps, rapid.SampledFrom([]int{0, 0, 100, 500}).Draw(t, "gap"))
			}
			return c
		},
		Check: func(x *verifkit.Ctx, c clRevCase) error {
			if len(c.Batches) == 0 {
				return nil
			}
			segments, boundary, err := runClusterRev(x, c)
			if err != nil {
				return err
			}
			x.LabelIf(segments >= 2, ">= 2 segments on the data node")
			x.LabelIf(boundary, "data point exactly on a segment boundary")
			if boundary {
				x.NonTrivial()
			}
			return nil
		},
		MinLabelFrac: map[string]float64{"data point exactly on a segment boundary": 0.3},
	})
}
